#!/bin/sh
# usage: save.sh N
N=$1
cd /tmp/wtrf3-iter || exit 1
cargo build --offline 2>&1 | grep -E "^error|Finished" 
OUT=$(cargo test --offline 2>&1)
echo "$OUT" | grep -E "^test result|^error|FAILED|panicked" 
NOK=$(echo "$OUT" | grep -c "^test result: ok")
NBAD=$(echo "$OUT" | grep -E "^test result" | grep -vc "^test result: ok")
echo "ok binaries: $NOK bad: $NBAD"
if [ "$NOK" = 9 ] && [ "$NBAD" = 0 ]; then
  mkdir -p /tmp/rf3/iter/$N
  git -C /tmp/wtrf3-iter diff -- src > /tmp/rf3/iter/$N/patch.diff
  cat /tmp/rf3/iter/$N/patch.diff
else
  echo "NOT SAVED"
fi
