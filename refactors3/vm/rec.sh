#!/bin/sh
# usage: rec.sh N  -- build, test, record patch, revert
N=$1
cd /tmp/wtrf3-vm || exit 1
cargo build --offline 2>&1 | grep -E "^(warning|error)" | sort | uniq -c
out=$(cargo test --offline 2>&1)
echo "$out" | grep -E "^test result" 
if echo "$out" | grep -qE "FAILED|^error|failed;" && ! echo "$out" | grep -q "0 failed"; then echo "FAIL"; exit 1; fi
nok=$(echo "$out" | grep -cE "^test result: ok")
nbad=$(echo "$out" | grep -E "^test result" | grep -vc "ok\. ")
echo "ok binaries: $nok, bad: $nbad"
if [ "$nok" != 9 ] || [ "$nbad" != 0 ]; then echo "NOT RECORDING"; exit 1; fi
mkdir -p /tmp/rf3/vm/$N
git -C /tmp/wtrf3-vm diff -- src > /tmp/rf3/vm/$N/patch.diff
git -C /tmp/wtrf3-vm checkout -- src
wc -l /tmp/rf3/vm/$N/patch.diff
