#!/bin/sh
# usage: check.sh N
N=$1
cd /tmp/wtrf2-vm || exit 1
cargo build --offline 2>&1 | grep -E "^error|warning: unused|Compiling|Finished" | head
cargo test --offline 2>&1 | grep -E "^test result|error|FAILED|panicked" 
git -C /tmp/wtrf2-vm diff -- src > /tmp/rf2/vm/$N/patch.diff
wc -l /tmp/rf2/vm/$N/patch.diff
