#!/usr/bin/env python3
"""Writes selftest/variants.json: seeded variants (a named rule must fire) and behaviour-preserving
variants (all rules must stay silent).  Edits are textual but are applied to a scratch copy only; a
variant whose text no longer matches is skipped, never failed."""
import json, os
V = []
def fire(id, props, expect, *edits):
    V.append({"id": id, "must_fire": props, "expect": expect, "edits": [dict(file=f, old=o, new=n, **({"occurrence": k} if k is not None else {})) for (f, o, n, k) in edits]})
def silent(id, props, *edits):
    V.append({"id": id, "must_stay_silent": props, "edits": [dict(file=f, old=o, new=n, **({"occurrence": k} if k is not None else {})) for (f, o, n, k) in edits]})
E = lambda f, o, n, k=None: (f, o, n, k)

# ---------------- iterators
fire("iter-flag-ge", ["C08", "C09"], "ITER/", E("src/lib.rs", "if self.last_end > last_match {", "if self.last_end >= last_match {"))
fire("iter-err-sentinel", ["C08"], "error", E("src/lib.rs", "                    self.last_end = self.text.len() + 1;\n                    return Some(Err(error));\n                }\n                Ok(None) => return None,\n                Ok(Some(mat)) => mat,", "                    self.last_end = self.text.len();\n                    return Some(Err(error));\n                }\n                Ok(None) => return None,\n                Ok(Some(mat)) => mat,"))
fire("iter-lastmatch-dropped", ["C08"], "previous match end", E("src/lib.rs", "        self.last_match = Some(mat.end);\n\n        Some(Ok(mat))", "        Some(Ok(mat))"))
fire("next-utf8-step", ["C08"], "next_utf8", E("src/lib.rs", "    i + codepoint_len(b)", "    i + 1"))
fire("capiter-entry-guard", ["C09"], "ITER/captures_iter", E("src/lib.rs", "if self.0.last_end > self.0.text.len() {", "if self.0.last_end >= self.0.text.len() {"))
fire("capiter-empty-test", ["C09"], "ITER/captures_iter", E("src/lib.rs", "            self.0.last_end = next_utf8(self.0.text, mat.end);\n            if Some(mat.end) == self.0.last_match {", "            self.0.last_end = next_utf8(self.0.text, mat.end);\n            if Some(mat.end) != self.0.last_match {"))
fire("dispatch-default-options", ["C09", "C14"], "options", E("src/lib.rs", "let result = vm::run(prog, text, 0, 0, options)?;", "let result = vm::run(prog, text, 0, 0, &RegexOptions::default())?;"))
fire("dispatch-wrap-slice", ["C09"], "wrapped regex searches", E("src/lib.rs", ".search(&RaInput::new(text).span(pos..text.len()))", ".search(&RaInput::new(&text[pos..]))"))
silent("iter-err-sentinel-plus2", ["C08", "C09", "C05"], E("src/lib.rs", "                    self.last_end = self.text.len() + 1;\n                    return Some(Err(error));\n                }\n                Ok(None) => return None,\n                Ok(Some(mat)) => mat,", "                    self.last_end = self.text.len() + 2;\n                    return Some(Err(error));\n                }\n                Ok(None) => return None,\n                Ok(Some(mat)) => mat,"))
silent("next-utf8-end-plus2", ["C08", "C05"], E("src/lib.rs", "        None => return i + 1,", "        None => return i + 2,"))
# ---------------- split / replace
fire("split-sentinel", ["C10"], "remainder", E("src/lib.rs", "                    self.next_start = len + 1;\n                    Some(Ok(part))", "                    self.next_start = len;\n                    Some(Ok(part))"))
fire("splitn-countdown", ["C10"], "SplitN", E("src/lib.rs", "        self.limit -= 1;\n        if self.limit > 0 {", "        if self.limit > 1 {"))
fire("split-next-start", ["C10"], "m.end()", E("src/lib.rs", "self.next_start = m.end();", "self.next_start = m.start();"))
silent("splitn-no-sentinel", ["C10", "C05"], E("src/lib.rs", "            let start = self.splits.next_start;\n            self.splits.next_start = len + 1;\n            return Some(Ok(&self.splits.target[start..len]));", "            let start = self.splits.next_start;\n            return Some(Ok(&self.splits.target[start..len]));"))
silent("split-sentinel-plus2", ["C10", "C05"], E("src/lib.rs", "                    self.next_start = len + 1;\n                    Some(Ok(part))", "                    self.next_start = len + 2;\n                    Some(Ok(part))"))
fire("replace-limit-gt", ["C11"], "limit", E("src/lib.rs", "if limit > 0 && i >= limit {", "if limit > 0 && i > limit {", 0))
fire("replace-slow-limit", ["C11"], "slow", E("src/lib.rs", "if limit > 0 && i >= limit {", "if i >= limit {", 1))
fire("replace-tail", ["C11"], "not appended", E("src/lib.rs", "        new.push_str(&text[last_match..]);\n        Ok(Cow::Owned(new))", "        Ok(Cow::Owned(new))"))
fire("replacer-dollar", ["C11"], "helper", E("src/replacer.rs", "    if s.contains('$') {\n        None", "    if s.contains('\\\\') {\n        None"))
# ---------------- compile_alt (path-based loop body)
fire("alt-split-first-operand", ["C01", "C03"], "compile_alt", E("src/compile.rs", "                self.b.add(Insn::Split(pc + 1, usize::MAX));\n            }\n            if last_pc != usize::MAX {", "                self.b.add(Insn::Split(pc, usize::MAX));\n            }\n            if last_pc != usize::MAX {"))
fire("alt-patch-first-operand", ["C01", "C03"], "compile_alt", E("src/compile.rs", "self.b.set_split_target(last_pc, pc, true);", "self.b.set_split_target(last_pc, pc, false);"))
fire("alt-last-not-updated", ["C01", "C03"], "compile_alt", E("src/compile.rs", "            last_pc = pc;\n\n            handle_alternative(self, i)?;", "            handle_alternative(self, i)?;"))
fire("alt-jmp-stale-pc", ["C01", "C03"], "compile_alt", E("src/compile.rs", "                let pc = self.b.pc();\n                jmps.push(pc);\n                self.b.add(Insn::Jmp(0));", "                jmps.push(pc);\n                self.b.add(Insn::Jmp(0));"))
fire("alt-pc-after-split", ["C01", "C03"], "compile_alt", E("src/compile.rs", "            let pc = self.b.pc();\n            if has_next {\n                self.b.add(Insn::Split(pc + 1, usize::MAX));\n            }\n            if last_pc != usize::MAX {", "            if has_next {\n                self.b.add(Insn::Split(self.b.pc() + 1, usize::MAX));\n            }\n            let pc = self.b.pc();\n            if last_pc != usize::MAX {"))
fire("alt-jmp-after-add", ["C01", "C03"], "compile_alt", E("src/compile.rs", "                let pc = self.b.pc();\n                jmps.push(pc);\n                self.b.add(Insn::Jmp(0));", "                self.b.add(Insn::Jmp(0));\n                let pc = self.b.pc();\n                jmps.push(pc);"))
fire("alt-patch-before-first", ["C01", "C03"], "compile_alt", E("src/compile.rs", "            if last_pc != usize::MAX {\n                self.b.set_split_target(last_pc, pc, true);\n            }\n            last_pc = pc;", "            if last_pc != usize::MAX && has_next {\n                self.b.set_split_target(last_pc, pc, true);\n            }\n            last_pc = pc;"))
silent("alt-patch-then-split", ["C01", "C03", "C06"], E("src/compile.rs", "            if has_next {\n                self.b.add(Insn::Split(pc + 1, usize::MAX));\n            }\n            if last_pc != usize::MAX {\n                self.b.set_split_target(last_pc, pc, true);\n            }", "            if last_pc != usize::MAX {\n                self.b.set_split_target(last_pc, pc, true);\n            }\n            if has_next {\n                self.b.add(Insn::Split(pc + 1, usize::MAX));\n            }"))
fire("expand-check-zero-needs-unnamed", ["C12"], "EXPAND/check", E("src/expand.rs", "            if num == 0 {\n                Ok(())\n            } else if !regex.named_groups.is_empty() {", "            if num == 0 && regex.named_groups.is_empty() {\n                Ok(())\n            } else if !regex.named_groups.is_empty() {"))
silent("expand-check-reordered-tests", ["C12", "C05"], E("src/expand.rs", "            if num == 0 {\n                Ok(())\n            } else if !regex.named_groups.is_empty() {\n                Err(Error::CompileError(CompileError::NamedBackrefOnly))\n            } else if num < regex.captures_len() {", "            if num != 0 && !regex.named_groups.is_empty() {\n                Err(Error::CompileError(CompileError::NamedBackrefOnly))\n            } else if num == 0 || num < regex.captures_len() {"))
fire("push-usize-digit-order", ["C16"], "push_usize", E("src/lib.rs", "        push_usize(s, x / 10);\n        s.push((b'0' + (x % 10) as u8) as char);", "        s.push((b'0' + (x % 10) as u8) as char);\n        push_usize(s, x / 10);"))
fire("push-usize-threshold", ["C16"], "push_usize", E("src/lib.rs", "    if x >= 10 {\n        push_usize(s, x / 10);", "    if x > 10 {\n        push_usize(s, x / 10);"))
fire("compile-delegate-lit-inverted", ["C03", "C01"], "compile_delegate", E("src/compile.rs", "        let insn = if info.is_literal() {", "        let insn = if !info.is_literal() {"))
fire("compile-delegate-empty-lit", ["C03", "C01"], "compile_delegate", E("src/compile.rs", "            let mut val = String::new();\n            info.push_literal(&mut val);\n            Insn::Lit(val)", "            let val = String::new();\n            Insn::Lit(val)"))
fire("cond-trivia-asymmetric", ["C19", "C15"], "no branch follows the condition", E("src/parse.rs", "        if end == self.optional_whitespace(next)? {", "        if end == next {"))
# ---------------- VM state
fire("push-nsave-reset", ["C20", "C02"], "State::push", E("src/vm.rs", "            self.nsave = 0;\n            self.trace_stack(\"push\");", "            self.trace_stack(\"push\");"))
fire("save-logs-new-value", ["C20", "C02"], "State::save", E("src/vm.rs", "        self.oldsave.push(Save {\n            slot,\n            value: self.saves[slot],\n        });", "        self.oldsave.push(Save {\n            slot,\n            value: val,\n        });"))
fire("cut-truncate", ["C20"], "truncate(count)", E("src/vm.rs", "self.stack.truncate(count);", "self.stack.truncate(count + 1);"))
fire("cut-end-loop", ["C20"], "backtrack_cut", E("src/vm.rs", "for &Branch { nsave, .. } in &self.stack[count + 1..] {", "for &Branch { nsave, .. } in &self.stack[count..] {"))
fire("cut-keep-last", ["C20"], "backtrack_cut", E("src/vm.rs", "            if new_slot {", "            if !new_slot {"))
fire("save-search-range", ["C20"], "nsave undo entries", E("src/vm.rs", "for i in 0..self.nsave {\n            // could avoid", "for i in 0..self.oldsave.len() {\n            // could avoid"))
fire("foreign-state-write", ["C20", "C02"], "outside impl State", E("src/vm.rs", "                    if let Some(&slot1) = state.saves.get(1) {", "                    state.saves[0] = ix;\n                    if let Some(&slot1) = state.saves.get(1) {"))
silent("push-cap-le", ["C07", "C20"], E("src/vm.rs", "if self.stack.len() < self.max_stack {", "if self.stack.len() <= self.max_stack {"))
silent("end-cap-ge", ["C01", "C05"], E("src/vm.rs", "                        if state.get(0) > slot1 {", "                        if state.get(0) >= slot1 {"))
# ---------------- limit and repeat arms
fire("limit-ge", ["C07"], "count > limit", E("src/vm.rs", "if backtrack_count > options.backtrack_limit {", "if backtrack_count >= options.backtrack_limit {"))
fire("repeatgr-gt-lo", ["C07", "C01"], "RepeatGr", E("src/vm.rs", "                    if repcount >= lo {\n                        state.push(next, ix)?;", "                    if repcount > lo {\n                        state.push(next, ix)?;", 0))
fire("repeatng-push-pc", ["C07", "C01"], "RepeatNg", E("src/vm.rs", "                        state.push(pc + 1, ix)?;\n                        pc = next;", "                        state.push(pc, ix)?;\n                        pc = next;", 0))
fire("epsng-or", ["C07"], "RepeatEpsilonNg", E("src/vm.rs", "if repcount > lo && state.get(check) == ix {", "if repcount > lo || state.get(check) == ix {", 1))
fire("repcount-plus2", ["C07", "C01"], "store count + 1", E("src/vm.rs", "                    state.save(repeat, repcount + 1);\n                    if repcount >= lo {\n                        state.push(next, ix)?;", "                    state.save(repeat, repcount + 2);\n                    if repcount >= lo {\n                        state.push(next, ix)?;", 0))
fire("push-cap-off", ["C07"], "cap", E("src/vm.rs", "if self.stack.len() < self.max_stack {", "if self.stack.len() < self.max_stack || true {"))
# ---------------- compiler templates / context
fire("eps-selected-wrong", ["C07", "C01"], "empty-iteration guard", E("src/compile.rs", "if hi == usize::MAX && child.min_size == 0 {", "if hi == usize::MAX && child.min_size == 0 && lo > 0 {"))
fire("plus-order", ["C01", "C07"], "e+", E("src/compile.rs", "            let (x, y) = if greedy { (pc, next) } else { (next, pc) };", "            let (x, y) = if greedy { (next, pc) } else { (pc, next) };"))
fire("plus-bounds", ["C01", "C07"], "lo == 1", E("src/compile.rs", "        } else if lo == 1 && hi == usize::MAX {", "        } else if lo >= 1 && hi == usize::MAX {"))
fire("optional-lazy", ["C01", "C07"], "e?", E("src/compile.rs", "            self.b.set_split_target(pc, next_pc, greedy);\n            return Ok(());", "            self.b.set_split_target(pc, next_pc, true);\n            return Ok(());"))
fire("concat-middle-ctx", ["C01", "C03"], "hard context", E("src/compile.rs", "            self.visit(child, true)?;", "            self.visit(child, hard)?;"))
fire("alt-ctx-false", ["C01", "C03"], "context `false`", E("src/compile.rs", "                self.compile_alt(count, |compiler, i| compiler.visit(&info.children[i], hard))?;", "                self.compile_alt(count, |compiler, i| compiler.visit(&info.children[i], false))?;"))
fire("suffix-predicate", ["C01", "C03", "C13"], "suffix", E("src/compile.rs", "                .take_while(|c| !c.hard)\n                .count()", "                .take_while(|c| !c.hard || c.const_size)\n                .count()"))
fire("goback-plus1", ["C13"], "GoBack", E("src/compile.rs", "            self.b.add(Insn::GoBack(inner.min_size));", "            self.b.add(Insn::GoBack(inner.min_size + 1));"))
fire("neg-look-target", ["C13", "C15", "C01"], "negative look-around", E("src/compile.rs", "        self.b.set_split_target(pc, next_pc, true);\n        Ok(())", "        self.b.set_split_target(pc, next_pc + 1, true);\n        Ok(())"))
silent("atomic-child-hard", ["C01", "C03", "C15", "C13"], E("src/compile.rs", "                self.b.add(Insn::BeginAtomic);\n                self.visit(&info.children[0], false)?;", "                self.b.add(Insn::BeginAtomic);\n                self.visit(&info.children[0], true)?;"))
# ---------------- analysis
fire("cond-min-old", ["C07", "C13", "C15"], "Conditional", E("src/analyze.rs", "                min_size = min(\n                    child_info_condition\n                        .min_size\n                        .saturating_add(child_info_truth.min_size),\n                    child_info_false.min_size,\n                );", "                min_size = child_info_condition.min_size.saturating_add(min(child_info_truth.min_size, child_info_false.min_size));"))
fire("const-init-true", ["C13"], "Backref", E("src/analyze.rs", "        let mut const_size = false;", "        let mut const_size = true;"))
fire("alt-const", ["C13"], "Expr::Alt", E("src/analyze.rs", "                    const_size &= child_info.const_size && min_size == child_info.min_size;", "                    const_size &= child_info.const_size;"))
fire("repeat-const", ["C13"], "Expr::Repeat", E("src/analyze.rs", "                const_size = child_info.const_size && lo == hi;", "                const_size = child_info.const_size;"))
fire("group-hard", ["C03", "C13"], "Expr::Group", E("src/analyze.rs", "                hard = child_info.hard | self.backrefs.contains(group);", "                hard = self.backrefs.contains(group);"))
fire("backref-gt", ["C13"], "group >= group_ix", E("src/analyze.rs", "                if group >= self.group_ix {", "                if group > self.group_ix {", 0))
silent("concat-const-conservative", ["C13", "C07", "C03"], E("src/analyze.rs", "                    const_size &= child_info.const_size;\n                    hard |= child_info.hard;", "                    const_size &= child_info.const_size && child_info.min_size > 0;\n                    hard |= child_info.hard;"))
silent("repeat-const-conservative", ["C13", "C07"], E("src/analyze.rs", "                const_size = child_info.const_size && lo == hi;", "                const_size = child_info.const_size && lo == hi && lo > 0;"))
silent("repeat-min-branchy", ["C13", "C07"], E("src/analyze.rs", "                min_size = child_info.min_size.saturating_mul(lo.min(hi));", "                min_size = if lo == 0 { 0 } else { child_info.min_size.saturating_mul(lo.min(hi)) };"))
# ---------------- slots / tables
fire("delegate-slot-odd", ["C02"], "outer slot pair", E("src/vm.rs", "let slot = (start_group + i) * 2;", "let slot = (start_group + i) * 2 + 1;"))
fire("delegate-reset-unmatched", ["C02", "C03"], "must keep its span", E("src/vm.rs", "                                    state.save(slot + 1, end.get());\n                                }", "                                    state.save(slot + 1, end.get());\n                                } else {\n                                    state.save(slot, usize::MAX);\n                                    state.save(slot + 1, usize::MAX);\n                                }"))
fire("delegate-inner-index", ["C02"], "2*(i+1)", E("src/vm.rs", "if let Some(start) = inner_slots[(i + 1) * 2] {", "if let Some(start) = inner_slots[i * 2] {"))
fire("truncate-more", ["C02", "C16"], "truncated", E("src/lib.rs", "saves.truncate(n_groups * 2);", "saves.truncate(n_groups * 2 + 2);"))
fire("delegate-unanchored", ["C01", "C02", "C03"], "anchored", E("src/vm.rs", "let input = Input::new(s).span(ix..s.len()).anchored(Anchored::Yes);", "let input = Input::new(s).span(ix..s.len());"))
silent("resize-larger", ["C02", "C05"], E("src/vm.rs", "inner_slots.resize((end_group - start_group + 1) * 2, None);", "inner_slots.resize((end_group - start_group + 2) * 2, None);"))
fire("special-hash", ["C17"], "`#`", E("src/lib.rs", "        | '#' => true,", "        => true,"))
fire("codepoint-e0", ["C05", "C13"], "codepoint_len", E("src/lib.rs", "        b if b < 0xe0 => 2,", "        b if b <= 0xe0 => 2,"))
silent("codepoint-7f", ["C05", "C13"], E("src/lib.rs", "        b if b < 0x80 => 1,", "        b if b <= 0x7f => 1,"))
fire("tostr-startline", ["C03"], "(?m:^)", E("src/lib.rs", "Expr::Assertion(Assertion::StartLine { crlf: false }) => buf.push_str(\"(?m:^)\"),", "Expr::Assertion(Assertion::StartLine { crlf: false }) => buf.push_str(\"^\"),"))
fire("tostr-concat-prec", ["C03", "C17"], "precedence", E("src/lib.rs", "                if precedence > 1 {\n                    buf.push_str(\"(?:\");\n                }\n                for child in children {\n                    child.to_str(buf, 2);", "                if precedence > 2 {\n                    buf.push_str(\"(?:\");\n                }\n                for child in children {\n                    child.to_str(buf, 2);"))
# ---------------- parser
fire("pgroup-no-count", ["C16", "C19"], "curr_group", E("src/parse.rs", "            self.curr_group += 1; // this is a capture group\n            if let Some((id, skip)) = parse_id(&self.re[ix + 2..], \"<\", \">\", false) {", "            if let Some((id, skip)) = parse_id(&self.re[ix + 2..], \"<\", \">\", false) {"))
fire("flags-no-restore", ["C19"], "restored", E("src/parse.rs", "                    self.flags = oldflags;\n                    return Ok((ix + 1, child));", "                    return Ok((ix + 1, child));"))
fire("backref-no-insert", ["C01", "C19"], "registering", E("src/parse.rs", "                self.numeric_backrefs = true;\n                self.backrefs.insert(group);", "                self.numeric_backrefs = true;"))
fire("cond-alt-destructuring", ["C15"], "destructuring", E("src/parse.rs", "        if end == self.optional_whitespace(next)? {\n            // Backreference validity checker", "        let (if_true, if_false) = match if_true {\n            Expr::Alt(mut v) if if_false == Expr::Empty => {\n                let first = v.remove(0);\n                (first, Expr::Alt(v))\n            }\n            other => (other, if_false),\n        };\n        if end == self.optional_whitespace(next)? {\n            // Backreference validity checker"))
fire("cond-false-skips-bar", ["C15"], "false branch", E("src/parse.rs", "let (false_end, false_branch) = self.parse_re(end + 1, depth)?;", "let (false_end, false_branch) = self.parse_branch(end + 1, depth)?;"))
fire("escape-z", ["C19"], "EndText", E("src/parse.rs", "            (end, Expr::Assertion(Assertion::EndText))\n        } else if b == b'Z'", "            (end, Expr::Assertion(Assertion::EndLine { crlf: false }))\n        } else if b == b'Z'"))
fire("k-quote-relative", ["C19"], "allow_relative", E("src/parse.rs", ".parse_named_backref(end, \"'\", \"'\", true, &|group| Expr::Backref(group));", ".parse_named_backref(end, \"'\", \"'\", false, &|group| Expr::Backref(group));"))
fire("comment-step", ["C06"], "STEP", E("src/parse.rs", "if ix + 1 < self.re.len() => ix += 2,", "=> ix += 2,"))
fire("named-unbounded", ["C06"], "bit set", E("src/parse.rs", "            if let Some(group) = group.filter(|&group| group < self.re.len() / 2) {", "            if let Some(group) = group {"))
fire("no-depth-guard", ["C06"], "depth", E("src/parse.rs", "        if depth >= MAX_RECURSION {\n            return Err(Error::ParseError(ix, ParseError::RecursionExceeded));\n        }", ""))
fire("depth-bypass", ["C06"], "increased depth", E("src/parse.rs", "            return self.parse_conditional(ix + 2, depth);", "            return self.parse_conditional(ix + 2, depth - 1);"))
fire("max-recursion-huge", ["C06"], "MAX_RECURSION", E("src/lib.rs", "const MAX_RECURSION: usize = 64;", "const MAX_RECURSION: usize = 6400000;"))
fire("numbered-unbounded", ["C06"], "bit set", E("src/parse.rs", "            if group < self.re.len() / 2 {", "            if group < usize::MAX / 2 {"))
fire("atom-no-eof-test", ["C06"], "index!=len", E("src/parse.rs", "        let ix = self.optional_whitespace(ix)?;\n        if ix == self.re.len() {\n            return Ok((ix, Expr::Empty));\n        }\n        match self.re.as_bytes()[ix] {", "        let ix = self.optional_whitespace(ix)?;\n        match self.re.as_bytes()[ix] {"))
fire("repeat-min-reversed-bounds", ["C07", "C13"], "unsound transfer function", E("src/analyze.rs", "saturating_mul(lo.min(hi));", "saturating_mul(lo);"))
fire("mul-unchecked", ["C06"], "overflow-mul", E("src/analyze.rs", "                min_size = child_info.min_size.saturating_mul(lo.min(hi));", "                min_size = child_info.min_size * lo.min(hi);"))
silent("depth-plus2", ["C06"], E("src/parse.rs", "        let depth = depth + 1;\n        if depth >= MAX_RECURSION {", "        let depth = depth + 2;\n        if depth >= MAX_RECURSION {"))
silent("numbered-le", ["C06", "C19", "C01"], E("src/parse.rs", "            if group < self.re.len() / 2 {", "            if group <= self.re.len() / 2 {"))
# ---------------- search panics
fire("backref-guard-dropped", ["C05"], "start<=end", E("src/vm.rs", "                    if lo > hi {", "                    if false && lo > hi {"))
fire("literal-bound-dropped", ["C05"], "end<=len", E("src/vm.rs", "    end <= s.len() && &s.as_bytes()[ix..end] == literal.as_bytes()", "    &s.as_bytes()[ix..end.min(s.len() + 1)] == literal.as_bytes()"))
fire("any-bound-dropped", ["C05"], "codepoint_len_at", E("src/vm.rs", "                Insn::Any => {\n                    if ix < s.len() {", "                Insn::Any => {\n                    if ix <= s.len() {"))
fire("goback-zero-test", ["C05", "C13"], "prev_codepoint_ix", E("src/vm.rs", "                        if ix == 0 {\n                            break 'fail;\n                        }\n                        ix = prev_codepoint_ix(s, ix);", "                        ix = prev_codepoint_ix(s, ix);"))
fire("iter-entry-guard-dropped", ["C05", "C08"], "len", E("src/lib.rs", "        if self.last_end > self.text.len() {\n            return None;\n        }\n\n        let option_flags = if let Some(last_match) = self.last_match {", "        let option_flags = if let Some(last_match) = self.last_match {"))
fire("ix-plus-one", ["C05"], "ix", E("src/vm.rs", "                Insn::Restore(slot) => ix = state.get(slot),", "                Insn::Restore(slot) => ix = state.get(slot) + 0 * pc + 1 - 1 + usize::from(pc == usize::MAX),"))
# ---------------- options / threads / expand
fire("delegate-default-options", ["C14"], "options", E("src/compile.rs", "DelegateBuilder::new().push(info).build(&self.options)?", "DelegateBuilder::new().push(info).build(&RegexOptions::default())?"))
fire("dfa-limit-dropped", ["C14"], "dfa_size_limit", E("src/compile.rs", "    if let Some(dfa_size_limit) = options.delegate_dfa_size_limit {\n        config = config.dfa_size_limit(Some(dfa_size_limit));\n    }", ""))
fire("regex-refcell", ["C18"], "interior mutability", E("src/lib.rs", "pub struct Regex {\n    inner: RegexImpl,", "pub struct Regex {\n    cache: std::cell::RefCell<Vec<usize>>,\n    inner: RegexImpl,"), E("src/lib.rs", "            return Ok(Regex {\n                inner: RegexImpl::Wrap { inner, options },", "            return Ok(Regex {\n                cache: Default::default(),\n                inner: RegexImpl::Wrap { inner, options },"), E("src/lib.rs", "        Ok(Regex {\n            inner: RegexImpl::Fancy {", "        Ok(Regex {\n            cache: Default::default(),\n            inner: RegexImpl::Fancy {"))
fire("prog-mutex", ["C18"], "interior mutability", E("src/vm.rs", "    pub body: Vec<Insn>,\n    n_saves: usize,\n}", "    pub body: Vec<Insn>,\n    n_saves: usize,\n    scratch: alloc::sync::Arc<std::sync::Mutex<Vec<usize>>>,\n}"), E("src/vm.rs", "Prog { body, n_saves }", "Prog { body, n_saves, scratch: Default::default() }"))
fire("expand-check-le", ["C12"], "captures_len", E("src/expand.rs", "            } else if num < regex.captures_len() {", "            } else if num <= regex.captures_len() {"))
fire("expand-vec-drift", ["C12"], "write", E("src/expand.rs", "            Step::GroupNum(num) => {\n                if let Some(m) = captures.get(num) {\n                    Ok(dst.extend(m.as_str().as_bytes()))", "            Step::GroupNum(num) => {\n                if let Some(m) = captures.get(num + 1) {\n                    Ok(dst.extend(m.as_str().as_bytes()))"))
fire("expand-skip-two", ["C12"], "doubled", E("src/expand.rs", "                    f(Step::Char(self.sub_char))?;\n                    1\n", "                    f(Step::Char(self.sub_char))?;\n                    2\n"))
# ---------------- behaviour-preserving refactorings (all checks of the listed properties must stay silent)
ALLP = ["C01","C02","C03","C05","C06","C07","C08","C09","C10","C11","C12","C13","C14","C15","C16","C17","C18","C19","C20"]
def rx(id, props, *edits):
    V.append({"id": id, "must_stay_silent": props, "edits": [dict(file=f, regex=r, repl=t, min=m) for (f, r, t, m) in edits]})
rx("ref-rename-mat", ["C05","C08","C09","C11"], ("src/lib.rs", r"\bmat\b", "found", 10))
rx("ref-rename-vm-locals", ["C01","C03","C05","C07","C13","C15","C20"], ("src/vm.rs", r"\brepcount\b", "times", 10), ("src/vm.rs", r"\bix_end\b", "after", 4))
rx("ref-rename-replace-locals", ["C11","C05"], ("src/lib.rs", r"\blet mut new = String::with_capacity", "let mut out = String::with_capacity", 2), ("src/lib.rs", r"\bnew\.push_str", "out.push_str", 5), ("src/lib.rs", r"Ok\(Cow::Owned\(new\)\)", "Ok(Cow::Owned(out))", 2), ("src/lib.rs", r"rep\.replace_append\(&cap, &mut new\)", "rep.replace_append(&cap, &mut out)", 1))
silent("ref-flag-match-guard", ["C08","C09","C11","C05"],
       E("src/lib.rs", "        let option_flags = if let Some(last_match) = self.last_match {\n            if self.last_end > last_match {\n                OPTION_SKIPPED_EMPTY_MATCH\n            } else {\n                0\n            }\n        } else {\n            0\n        };",
         "        let option_flags = match self.last_match {\n            Some(last_match) if self.last_end > last_match => OPTION_SKIPPED_EMPTY_MATCH,\n            _ => 0,\n        };"))
silent("ref-push-early-return", ["C07","C20","C02","C05"],
       E("src/vm.rs", "        if self.stack.len() < self.max_stack {\n            let nsave = self.nsave;\n            self.stack.push(Branch { pc, ix, nsave });\n            self.nsave = 0;\n            self.trace_stack(\"push\");\n            Ok(())\n        } else {\n            Err(Error::RuntimeError(RuntimeError::StackOverflow))\n        }",
         "        if self.stack.len() >= self.max_stack {\n            return Err(Error::RuntimeError(RuntimeError::StackOverflow));\n        }\n        let nsave = self.nsave;\n        self.stack.push(Branch { pc, ix, nsave });\n        self.nsave = 0;\n        self.trace_stack(\"push\");\n        Ok(())"))
silent("ref-concat-stmt-order", ["C13","C07","C03","C01","C02","C16"],
       E("src/analyze.rs", "                    const_size &= child_info.const_size;\n                    hard |= child_info.hard;", "                    hard |= child_info.hard;\n                    const_size &= child_info.const_size;"))
silent("ref-is-special-matches", ["C17","C03","C06"],
       E("src/lib.rs", "    match c {\n        '\\\\' | '.' | '+' | '*' | '?' | '(' | ')' | '|' | '[' | ']' | '{' | '}' | '^' | '$'\n        | '#' => true,\n        _ => false,\n    }",
         "    matches!(\n        c,\n        '\\\\' | '.' | '+' | '*' | '?' | '(' | ')' | '|' | '[' | ']' | '{' | '}' | '^' | '$' | '#'\n    )"))
silent("ref-next-utf8-iflet", ["C08","C05","C09"],
       E("src/lib.rs", "    let b = match text.as_bytes().get(i) {\n        None => return i + 1,\n        Some(&b) => b,\n    };\n    i + codepoint_len(b)",
         "    if let Some(&b) = text.as_bytes().get(i) {\n        i + codepoint_len(b)\n    } else {\n        i + 1\n    }"))
silent("ref-get-reorder", ["C02","C16","C05","C09"],
       E("src/lib.rs", "                let lo = saves[slot];\n                if lo == usize::MAX {\n                    return None;\n                }\n                let hi = saves[slot + 1];",
         "                let lo = saves[slot];\n                let hi = saves[slot + 1];\n                if lo == usize::MAX {\n                    return None;\n                }"))
silent("ref-split-len-first", ["C10","C05"],
       E("src/lib.rs", "        match self.matches.next() {\n            None => {\n                let len = self.target.len();\n                if self.next_start > len {", "        let len = self.target.len();\n        match self.matches.next() {\n            None => {\n                if self.next_start > len {"))
silent("ref-doc-comments", ALLP, E("src/vm.rs", "// push a backtrack branch", "// push a backtrack branch (records pc, ix and the size of the current delta)"), E("src/lib.rs", "/// A compiled regular expression.", "/// A compiled regular expression.\n///\n/// Cheap to clone."))
rx("ref-rename-compile-locals", ["C01","C03","C07","C13","C15","C02"], ("src/compile.rs", r"\bsplit_pc\b", "fork_at", 3), ("src/compile.rs", r"\bjump_over_false_pc\b", "skip_else", 2), ("src/compile.rs", r"\bnext_pc\b", "after", 6))
rx("ref-rename-analyze-locals", ["C01","C02","C03","C07","C13","C15","C16"], ("src/analyze.rs", r"\bchild_info\b", "ci", 20))
rx("ref-rename-parse-group-locals", ["C16","C19","C06","C15"], ("src/parse.rs", r"\bla\b", "look", 3))
rx("ref-rename-expand-locals", ["C12"], ("src/expand.rs", r"\btail\b", "rest", 5), ("src/expand.rs", r"\bon_group_num\b", "check_num", 3))
rx("ref-rename-state-locals", ["C20","C02","C05","C07"], ("src/vm.rs", r"\boldsave_ix\b", "keep", 5), ("src/vm.rs", r"\boldsave_start\b", "first", 3), ("src/vm.rs", r"\boldsave_end\b", "last", 4))
rx("ref-rename-cond-locals", ["C15","C19"], ("src/parse.rs", r"\bif_true\b", "yes", 2), ("src/parse.rs", r"\bif_false\b", "no", 3), ("src/parse.rs", r"\binner_condition\b", "cond_expr", 2))
json.dump({"variants": V}, open(os.path.join(os.path.dirname(os.path.abspath(__file__)), "variants.json"), "w"), indent=1)
print(len(V), "variants;", sum(1 for v in V if "must_fire" in v), "must fire,", sum(1 for v in V if "must_stay_silent" in v), "must stay silent")
