#!/bin/bash
# usage: run.sh <repo-dir> <out.json> [extra cargo args...]
set -e
REPO="$1"; OUT="$2"; shift 2
HERE="$(cd "$(dirname "$0")" && pwd)"
T=$(mktemp -d /tmp/frx-tgt.XXXXXX)
trap 'rm -rf "$T"' EXIT
cd "$REPO"
LD_LIBRARY_PATH="$(rustc +nightly --print sysroot)/lib" \
RUSTFLAGS="-Zmir-opt-level=0 -Awarnings" \
RUSTC_WORKSPACE_WRAPPER="$HERE/target/release/frx-facts" \
FRX_FACTS_OUT="$OUT" CARGO_NET_OFFLINE=true CARGO_TARGET_DIR="$T" \
cargo +nightly check --offline --lib "$@"
