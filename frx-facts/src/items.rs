//! Item-level facts: ADTs, impls, functions (signatures / visibility), statics, unsafe items.
use crate::json::J;
use crate::mirdump::path_of;
use crate::span_j;
use rustc_hir as hir;
use rustc_hir::def::DefKind;
use rustc_middle::ty::{self, Ty, TyCtxt, TypingEnv};
use rustc_span::def_id::LocalDefId;

/// All ADT def-paths (and a few builtin kinds) mentioned anywhere inside a type.
fn type_mentions<'tcx>(tcx: TyCtxt<'tcx>, t: Ty<'tcx>) -> Vec<J> {
    let mut out: Vec<String> = Vec::new();
    for arg in t.walk() {
        if let Some(ty) = arg.as_type() {
            match ty.kind() {
                ty::Adt(def, _) => out.push(path_of(tcx, def.did())),
                ty::RawPtr(..) => out.push("{rawptr}".into()),
                ty::Dynamic(..) => out.push(format!("{{dyn}}{}", ty)),
                ty::FnPtr(..) => out.push("{fnptr}".into()),
                ty::Param(p) => out.push(format!("{{param}}{}", p.name)),
                _ => {}
            }
        }
    }
    out.sort();
    out.dedup();
    out.into_iter().map(J::S).collect()
}

pub fn dump_items(tcx: TyCtxt<'_>) -> J {
    let mut adts = Vec::new();
    let mut impls = Vec::new();
    let mut fns = Vec::new();
    let mut statics = Vec::new();
    let mut consts = Vec::new();
    let mut unsafes = Vec::new();
    let mut mods = Vec::new();

    let mut defs: Vec<LocalDefId> = tcx.hir_crate_items(()).definitions().collect();
    defs.sort_by_key(|d| tcx.def_path_str(d.to_def_id()));
    for def_id in defs {
        let did = def_id.to_def_id();
        let kind = tcx.def_kind(def_id);
        match kind {
            DefKind::Struct | DefKind::Enum | DefKind::Union => {
                let adt = tcx.adt_def(did);
                let env = TypingEnv::post_analysis(tcx, did);
                let mut variants = Vec::new();
                for (vi, v) in adt.variants().iter_enumerated() {
                    let mut fields = Vec::new();
                    for f in v.fields.iter() {
                        let fty = tcx.type_of(f.did).instantiate_identity().skip_norm_wip();
                        fields.push(J::obj(vec![
                            ("name", J::s(f.name.to_string())),
                            ("ty", J::s(format!("{}", fty))),
                            ("mentions", J::A(type_mentions(tcx, fty))),
                            ("freeze", J::B(fty.is_freeze(tcx, env))),
                            ("vis", J::s(format!("{:?}", f.vis))),
                        ]));
                    }
                    variants.push(J::obj(vec![
                        ("name", J::s(v.name.to_string())),
                        ("i", J::U(vi.as_usize() as u128)),
                        ("fields", J::A(fields)),
                    ]));
                }
                adts.push(J::obj(vec![
                    ("path", J::s(path_of(tcx, did))),
                    ("kind", J::s(format!("{:?}", kind))),
                    ("vis", J::s(format!("{:?}", tcx.visibility(did)))),
                    ("variants", J::A(variants)),
                    ("span", span_j(tcx, tcx.def_span(did))),
                ]));
            }
            DefKind::Impl { of_trait } => {
                let self_ty = tcx.type_of(did).instantiate_identity().skip_norm_wip();
                let mut v = vec![
                    ("path", J::s(path_of(tcx, did))),
                    ("self_ty", J::s(format!("{}", self_ty))),
                    ("span", span_j(tcx, tcx.def_span(did))),
                ];
                if let ty::Adt(def, _) = self_ty.kind() {
                    v.push(("self_adt", J::s(path_of(tcx, def.did()))));
                }
                if of_trait {
                    let tr = tcx.impl_trait_ref(did).instantiate_identity().skip_norm_wip();
                    v.push(("trait", J::s(path_of(tcx, tr.def_id))));
                    v.push(("trait_ref", J::s(format!("{}", tr))));
                    let header = tcx.impl_trait_header(did);
                    v.push(("unsafe", J::B(matches!(header.safety, hir::Safety::Unsafe))));
                    v.push(("polarity", J::s(format!("{:?}", header.polarity))));
                }
                let mut methods = Vec::new();
                for &it in tcx.associated_item_def_ids(did).iter() {
                    let ai = tcx.associated_item(it);
                    let mut m = vec![
                        ("path", J::s(path_of(tcx, it))),
                        ("name", J::s(ai.name().to_string())),
                    ];
                    if let Some(tid) = ai.trait_item_def_id() {
                        m.push(("trait_item", J::s(path_of(tcx, tid))));
                    }
                    methods.push(J::obj(m));
                }
                v.push(("items", J::A(methods)));
                // automatically derived?
                v.push((
                    "derived",
                    J::B(tcx.is_automatically_derived(did)),
                ));
                impls.push(J::obj(v));
            }
            DefKind::Fn | DefKind::AssocFn => {
                let sig = tcx.fn_sig(did).instantiate_identity().skip_norm_wip().skip_binder();
                let inputs: Vec<J> = sig.inputs().iter().map(|t| J::s(format!("{}", t))).collect();
                let mut v = vec![
                    ("path", J::s(path_of(tcx, did))),
                    ("kind", J::s(format!("{:?}", kind))),
                    ("vis", J::s(format!("{:?}", tcx.visibility(did)))),
                    ("inputs", J::A(inputs)),
                    ("output", J::s(format!("{}", sig.output()))),
                    ("unsafe", J::B(matches!(sig.safety(), hir::Safety::Unsafe))),
                    ("span", span_j(tcx, tcx.def_span(did))),
                    ("name", J::s(tcx.item_name(did).to_string())),
                ];
                if kind == DefKind::AssocFn {
                    let ai = tcx.associated_item(did);
                    let parent = tcx.parent(did);
                    v.push(("parent", J::s(path_of(tcx, parent))));
                    match tcx.def_kind(parent) {
                        DefKind::Impl { .. } => {
                            let self_ty = tcx.type_of(parent).instantiate_identity().skip_norm_wip();
                            v.push(("self_ty", J::s(format!("{}", self_ty))));
                            if let ty::Adt(def, _) = self_ty.kind() {
                                v.push(("self_adt", J::s(path_of(tcx, def.did()))));
                            }
                        }
                        DefKind::Trait => {
                            v.push(("in_trait", J::B(true)));
                            v.push(("has_default", J::B(ai.defaultness(tcx).has_value())));
                        }
                        _ => {}
                    }
                    if let Some(tid) = ai.trait_item_def_id() {
                        v.push(("trait_item", J::s(path_of(tcx, tid))));
                    }
                    v.push(("has_self", J::B(ai.is_method())));
                }
                // effective (reachable from outside the crate) visibility
                let ev = tcx.effective_visibilities(());
                v.push(("exported", J::B(ev.is_reachable(def_id))));
                // doc(hidden)?
                v.push(("doc_hidden", J::B(tcx.is_doc_hidden(did))));
                fns.push(J::obj(v));
            }
            DefKind::Static { mutability, .. } => {
                let t = tcx.type_of(did).instantiate_identity().skip_norm_wip();
                let env = TypingEnv::post_analysis(tcx, did);
                statics.push(J::obj(vec![
                    ("path", J::s(path_of(tcx, did))),
                    ("mut", J::B(mutability.is_mut())),
                    ("ty", J::s(format!("{}", t))),
                    ("mentions", J::A(type_mentions(tcx, t))),
                    ("freeze", J::B(t.is_freeze(tcx, env))),
                    ("thread_local", J::B(tcx.is_thread_local_static(did))),
                    ("span", span_j(tcx, tcx.def_span(did))),
                ]));
            }
            DefKind::Const { .. } => {
                let t = tcx.type_of(did).instantiate_identity().skip_norm_wip();
                let mut v = vec![
                    ("path", J::s(path_of(tcx, did))),
                    ("ty", J::s(format!("{}", t))),
                    ("span", span_j(tcx, tcx.def_span(did))),
                ];
                if let Ok(val) = tcx.const_eval_poly(did) {
                    if let Some(si) = val.try_to_scalar_int() {
                        let size = si.size();
                        v.push(("val", J::U(si.to_bits(size))));
                    }
                }
                consts.push(J::obj(v));
            }
            DefKind::Mod => {
                mods.push(J::s(path_of(tcx, did)));
            }
            _ => {}
        }
    }

    // unsafe blocks: walk every body
    for def_id in tcx.hir_body_owners() {
        let body = tcx.hir_body_owned_by(def_id);
        let mut f = UnsafeFinder { tcx, found: Vec::new() };
        hir::intravisit::Visitor::visit_expr(&mut f, body.value);
        for sp in f.found {
            unsafes.push(J::obj(vec![
                ("what", J::s("unsafe block")),
                ("in", J::s(path_of(tcx, def_id.to_def_id()))),
                ("span", span_j(tcx, sp)),
            ]));
        }
    }

    J::obj(vec![
        ("adts", J::A(adts)),
        ("impls", J::A(impls)),
        ("fns", J::A(fns)),
        ("statics", J::A(statics)),
        ("consts", J::A(consts)),
        ("unsafe_blocks", J::A(unsafes)),
        ("mods", J::A(mods)),
    ])
}

struct UnsafeFinder<'tcx> {
    #[allow(dead_code)]
    tcx: TyCtxt<'tcx>,
    found: Vec<rustc_span::Span>,
}

impl<'tcx> hir::intravisit::Visitor<'tcx> for UnsafeFinder<'tcx> {
    fn visit_block(&mut self, b: &'tcx hir::Block<'tcx>) {
        if let hir::BlockCheckMode::UnsafeBlock(src) = b.rules {
            if matches!(src, hir::UnsafeSource::UserProvided) && !b.span.from_expansion() {
                self.found.push(b.span);
            } else if matches!(src, hir::UnsafeSource::UserProvided) {
                // unsafe inside a macro expansion: record with its call site as well
                self.found.push(b.span);
            }
        }
        hir::intravisit::walk_block(self, b);
    }
}
