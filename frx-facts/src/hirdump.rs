//! HIR bodies with type-check resolution -> JSON trees.
//!
//! `for`, `while` and `?` are re-sugared from their desugaring markers so rules see source-shaped
//! trees.  Every path / method call / pattern carries its resolution.
use crate::json::J;
use crate::mirdump::path_of;
use crate::span_j;
use rustc_hir as hir;
use rustc_hir::def::{CtorOf, DefKind, Res};
use rustc_hir::{ExprKind, PatKind, QPath, StmtKind};
use rustc_middle::ty::{self, TyCtxt, TypeckResults};
use rustc_span::def_id::{DefId, LocalDefId};

pub fn dump_all(tcx: TyCtxt<'_>) -> J {
    let mut out = Vec::new();
    let mut owners: Vec<LocalDefId> = tcx.hir_body_owners().collect();
    owners.sort_by_key(|d| tcx.def_path_str(d.to_def_id()));
    for def_id in owners {
        match tcx.def_kind(def_id) {
            DefKind::Fn | DefKind::AssocFn => {}
            _ => continue, // closures are dumped inline; consts/statics skipped
        }
        let body = tcx.hir_body_owned_by(def_id);
        let tr = tcx.typeck(def_id);
        let cx = Cx { tcx, tr };
        let params: Vec<J> = body.params.iter().map(|p| cx.pat(p.pat)).collect();
        out.push(J::obj(vec![
            ("path", J::s(path_of(tcx, def_id.to_def_id()))),
            ("span", span_j(tcx, tcx.def_span(def_id.to_def_id()))),
            ("params", J::A(params)),
            ("body", cx.expr(body.value)),
        ]));
    }
    J::A(out)
}

struct Cx<'tcx> {
    tcx: TyCtxt<'tcx>,
    tr: &'tcx TypeckResults<'tcx>,
}

fn lit_j(l: &hir::Lit) -> J {
    use rustc_ast::LitKind;
    match &l.node {
        LitKind::Str(s, _) => J::obj(vec![("t", J::s("str")), ("v", J::s(s.to_string()))]),
        LitKind::ByteStr(b, _) => J::obj(vec![
            ("t", J::s("bytestr")),
            ("v", J::s(String::from_utf8_lossy(b.as_byte_str()).to_string())),
        ]),
        LitKind::Byte(b) => J::obj(vec![("t", J::s("byte")), ("v", J::U(*b as u128))]),
        LitKind::Char(c) => J::obj(vec![
            ("t", J::s("char")),
            ("v", J::U(*c as u128)),
            ("chr", J::s(c.to_string())),
        ]),
        LitKind::Int(n, _) => J::obj(vec![("t", J::s("int")), ("v", J::U(n.get()))]),
        LitKind::Bool(b) => J::obj(vec![("t", J::s("bool")), ("v", J::B(*b))]),
        other => J::obj(vec![("t", J::s("other")), ("v", J::s(format!("{:?}", other)))]),
    }
}

impl<'tcx> Cx<'tcx> {
    fn res_j(&self, res: Res) -> Vec<(&'static str, J)> {
        let tcx = self.tcx;
        match res {
            Res::Local(hid) => {
                let name = tcx.hir_name(hid).to_string();
                vec![
                    ("res", J::s("Local")),
                    ("name", J::s(name)),
                    ("id", J::s(format!("{}.{}", hid.owner.def_id.local_def_index.as_u32(), hid.local_id.as_u32()))),
                ]
            }
            Res::Def(kind, did) => {
                let mut v = vec![
                    ("res", J::s("Def")),
                    ("dk", J::s(format!("{:?}", kind))),
                    ("def", J::s(path_of(tcx, did))),
                ];
                match kind {
                    DefKind::Ctor(of, _) => {
                        let parent = tcx.parent(did);
                        match of {
                            CtorOf::Variant => {
                                let en = tcx.parent(parent);
                                v.push(("adt", J::s(path_of(tcx, en))));
                                v.push(("variant", J::s(tcx.item_name(parent).to_string())));
                            }
                            CtorOf::Struct => {
                                v.push(("adt", J::s(path_of(tcx, parent))));
                            }
                        }
                    }
                    DefKind::Variant => {
                        let en = tcx.parent(did);
                        v.push(("adt", J::s(path_of(tcx, en))));
                        v.push(("variant", J::s(tcx.item_name(did).to_string())));
                    }
                    DefKind::Const { .. } | DefKind::AssocConst { .. } => {
                        if let Ok(val) = tcx.const_eval_poly(did) {
                            if let Some(si) = val.try_to_scalar_int() {
                                let size = si.size();
                                v.push(("val", J::U(si.to_bits(size))));
                            }
                        }
                    }
                    _ => {}
                }
                v
            }
            Res::SelfCtor(did) | Res::SelfTyAlias { alias_to: did, .. } => vec![
                ("res", J::s("SelfTy")),
                ("def", J::s(path_of(tcx, did))),
            ],
            other => vec![("res", J::s(format!("{:?}", other).chars().take(40).collect::<String>()))],
        }
    }

    fn variant_of_res(&self, res: Res, ty: ty::Ty<'tcx>) -> Vec<(&'static str, J)> {
        // for struct expressions / patterns: which ADT and variant
        let tcx = self.tcx;
        let mut v = Vec::new();
        if let ty::Adt(def, _) = ty.kind() {
            v.push(("adt", J::s(path_of(tcx, def.did()))));
            if def.is_enum() {
                let vdid: Option<DefId> = match res {
                    Res::Def(DefKind::Variant, d) => Some(d),
                    Res::Def(DefKind::Ctor(CtorOf::Variant, _), d) => Some(tcx.parent(d)),
                    _ => None,
                };
                if let Some(d) = vdid {
                    v.push(("variant", J::s(tcx.item_name(d).to_string())));
                }
            }
        }
        v
    }

    fn qpath_text(&self, q: &QPath<'tcx>) -> String {
        rustc_hir_pretty_qpath(q)
    }

    fn block(&self, b: &'tcx hir::Block<'tcx>) -> J {
        let mut stmts = Vec::new();
        for s in b.stmts {
            if let Some(j) = self.stmt(s) {
                stmts.push(j);
            }
        }
        let mut v = vec![("k", J::s("Block")), ("stmts", J::A(stmts))];
        if let Some(e) = b.expr {
            v.push(("expr", self.expr(e)));
        }
        if let hir::BlockCheckMode::UnsafeBlock(_) = b.rules {
            v.push(("unsafe", J::B(true)));
        }
        v.push(("span", span_j(self.tcx, b.span)));
        J::obj(v)
    }

    fn stmt(&self, s: &'tcx hir::Stmt<'tcx>) -> Option<J> {
        match s.kind {
            StmtKind::Let(l) => {
                let mut v = vec![("k", J::s("Let")), ("pat", self.pat(l.pat))];
                if let Some(i) = l.init {
                    v.push(("init", self.expr(i)));
                }
                if let Some(e) = l.els {
                    v.push(("else", self.block(e)));
                }
                v.push(("span", span_j(self.tcx, s.span)));
                Some(J::obj(v))
            }
            StmtKind::Expr(e) => Some(J::obj(vec![
                ("k", J::s("ExprStmt")),
                ("e", self.expr(e)),
                ("span", span_j(self.tcx, s.span)),
            ])),
            StmtKind::Semi(e) => Some(J::obj(vec![
                ("k", J::s("Semi")),
                ("e", self.expr(e)),
                ("span", span_j(self.tcx, s.span)),
            ])),
            StmtKind::Item(_) => None,
        }
    }

    fn arm(&self, a: &'tcx hir::Arm<'tcx>) -> J {
        let mut v = vec![("pat", self.pat(a.pat))];
        if let Some(g) = a.guard {
            v.push(("guard", self.expr(g)));
        }
        v.push(("body", self.expr(a.body)));
        v.push(("span", span_j(self.tcx, a.span)));
        J::obj(v)
    }

    pub fn expr(&self, e: &'tcx hir::Expr<'tcx>) -> J {
        let tcx = self.tcx;
        let mut v: Vec<(&'static str, J)> = Vec::new();
        match e.kind {
            ExprKind::DropTemps(inner) => return self.expr(inner),
            ExprKind::Use(inner, _) => return self.expr(inner),
            ExprKind::ConstBlock(_) => v.push(("k", J::s("ConstBlock"))),
            ExprKind::Array(es) => {
                v.push(("k", J::s("Array")));
                v.push(("es", J::A(es.iter().map(|x| self.expr(x)).collect())));
            }
            ExprKind::Call(f, args) => {
                v.push(("k", J::s("Call")));
                v.push(("f", self.expr(f)));
                v.push(("args", J::A(args.iter().map(|x| self.expr(x)).collect())));
            }
            ExprKind::MethodCall(seg, recv, args, _) => {
                v.push(("k", J::s("MethodCall")));
                v.push(("name", J::s(seg.ident.to_string())));
                if let Some(did) = self.tr.type_dependent_def_id(e.hir_id) {
                    v.push(("def", J::s(path_of(tcx, did))));
                    v.push(("local", J::B(did.is_local())));
                    // try to resolve to the concrete impl
                    let args_ty = self.tr.node_args(e.hir_id);
                    let env = ty::TypingEnv::post_analysis(tcx, e.hir_id.owner.def_id.to_def_id());
                    if let Ok(Some(inst)) = ty::Instance::try_resolve(tcx, env, did, args_ty) {
                        if inst.def_id() != did {
                            v.push(("resolved", J::s(path_of(tcx, inst.def_id()))));
                        }
                    }
                }
                v.push(("recv", self.expr(recv)));
                v.push(("recv_ty", J::s(format!("{}", self.tr.expr_ty_adjusted(recv)))));
                v.push(("args", J::A(args.iter().map(|x| self.expr(x)).collect())));
            }
            ExprKind::Tup(es) => {
                v.push(("k", J::s("Tup")));
                v.push(("es", J::A(es.iter().map(|x| self.expr(x)).collect())));
            }
            ExprKind::Binary(op, l, r) => {
                v.push(("k", J::s("Binary")));
                v.push(("op", J::s(format!("{:?}", op.node))));
                v.push(("l", self.expr(l)));
                v.push(("r", self.expr(r)));
            }
            ExprKind::Unary(op, x) => {
                v.push(("k", J::s("Unary")));
                v.push(("op", J::s(format!("{:?}", op))));
                v.push(("e", self.expr(x)));
            }
            ExprKind::Lit(l) => {
                v.push(("k", J::s("Lit")));
                v.push(("lit", lit_j(&l)));
            }
            ExprKind::Cast(x, _) => {
                v.push(("k", J::s("Cast")));
                v.push(("e", self.expr(x)));
            }
            ExprKind::Type(x, _) => return self.expr(x),
            ExprKind::Let(l) => {
                v.push(("k", J::s("LetCond")));
                v.push(("pat", self.pat(l.pat)));
                v.push(("init", self.expr(l.init)));
            }
            ExprKind::If(c, t, el) => {
                v.push(("k", J::s("If")));
                v.push(("cond", self.expr(c)));
                v.push(("then", self.expr(t)));
                if let Some(el) = el {
                    v.push(("else", self.expr(el)));
                }
            }
            ExprKind::Loop(b, label, src, _) => {
                // re-sugar `while`
                match src {
                    hir::LoopSource::While => {
                        // loop { if cond { body } else { break } }
                        if let Some(inner) = b.expr {
                            if let ExprKind::If(c, t, _) = inner.kind {
                                v.push(("k", J::s("While")));
                                v.push(("cond", self.expr(c)));
                                v.push(("body", self.expr(t)));
                            }
                        }
                        if v.is_empty() {
                            v.push(("k", J::s("Loop")));
                            v.push(("body", self.block(b)));
                        }
                    }
                    _ => {
                        v.push(("k", J::s("Loop")));
                        v.push(("body", self.block(b)));
                    }
                }
                if let Some(l) = label {
                    v.push(("label", J::s(l.ident.to_string())));
                }
            }
            ExprKind::Match(scrut, arms, src) => {
                match src {
                    hir::MatchSource::ForLoopDesugar => {
                        // match IntoIterator::into_iter(iter) { mut iter => loop { match next(&mut iter) { None => break, Some(pat) => body } } }
                        let mut done = false;
                        if let ExprKind::Call(_, [iter_e]) = scrut.kind {
                            if let [arm0] = arms {
                                if let ExprKind::Loop(lb, label, _, _) = arm0.body.kind {
                                    let inner = lb.expr.or_else(|| {
                                        lb.stmts.first().and_then(|s| match s.kind {
                                            StmtKind::Expr(e) | StmtKind::Semi(e) => Some(e),
                                            _ => None,
                                        })
                                    });
                                    if let Some(inner) = inner {
                                        if let ExprKind::Match(_, inner_arms, _) = inner.kind {
                                            if inner_arms.len() == 2 {
                                                let some_arm = &inner_arms[1];
                                                // pattern Some(pat)
                                                let pat = match some_arm.pat.kind {
                                                    PatKind::Struct(_, fields, _) if fields.len() == 1 => {
                                                        Some(fields[0].pat)
                                                    }
                                                    PatKind::TupleStruct(_, pats, _) if pats.len() == 1 => {
                                                        Some(&pats[0])
                                                    }
                                                    _ => None,
                                                };
                                                if let Some(pat) = pat {
                                                    v.push(("k", J::s("For")));
                                                    v.push(("pat", self.pat(pat)));
                                                    v.push(("iter", self.expr(iter_e)));
                                                    v.push(("body", self.expr(some_arm.body)));
                                                    if let Some(l) = label {
                                                        v.push(("label", J::s(l.ident.to_string())));
                                                    }
                                                    done = true;
                                                }
                                            }
                                        }
                                    }
                                }
                            }
                        }
                        if !done {
                            v.push(("k", J::s("Match")));
                            v.push(("src", J::s("ForLoopDesugar")));
                            v.push(("scrut", self.expr(scrut)));
                            v.push(("arms", J::A(arms.iter().map(|a| self.arm(a)).collect())));
                        }
                    }
                    hir::MatchSource::TryDesugar(_) => {
                        // match Try::branch(e) {..}
                        let mut done = false;
                        if let ExprKind::Call(_, [inner]) = scrut.kind {
                            v.push(("k", J::s("Try")));
                            v.push(("e", self.expr(inner)));
                            done = true;
                        }
                        if !done {
                            v.push(("k", J::s("Match")));
                            v.push(("src", J::s("TryDesugar")));
                            v.push(("scrut", self.expr(scrut)));
                            v.push(("arms", J::A(arms.iter().map(|a| self.arm(a)).collect())));
                        }
                    }
                    _ => {
                        v.push(("k", J::s("Match")));
                        v.push(("scrut", self.expr(scrut)));
                        v.push(("scrut_ty", J::s(format!("{}", self.tr.expr_ty_adjusted(scrut)))));
                        v.push(("arms", J::A(arms.iter().map(|a| self.arm(a)).collect())));
                    }
                }
            }
            ExprKind::Closure(c) => {
                v.push(("k", J::s("Closure")));
                v.push(("def", J::s(path_of(tcx, c.def_id.to_def_id()))));
                let body = tcx.hir_body(c.body);
                // closures share the parent's typeck results
                v.push(("params", J::A(body.params.iter().map(|p| self.pat(p.pat)).collect())));
                v.push(("body", self.expr(body.value)));
            }
            ExprKind::Block(b, label) => {
                let j = self.block(b);
                if let (J::O(mut inner), Some(l)) = (j.clone(), label) {
                    inner.push(("label", J::s(l.ident.to_string())));
                    return J::O(inner);
                }
                return j;
            }
            ExprKind::Assign(l, r, _) => {
                v.push(("k", J::s("Assign")));
                v.push(("l", self.expr(l)));
                v.push(("r", self.expr(r)));
            }
            ExprKind::AssignOp(op, l, r) => {
                v.push(("k", J::s("AssignOp")));
                v.push(("op", J::s(format!("{:?}", op.node))));
                v.push(("l", self.expr(l)));
                v.push(("r", self.expr(r)));
            }
            ExprKind::Field(x, ident) => {
                v.push(("k", J::s("Field")));
                v.push(("name", J::s(ident.to_string())));
                let bty = self.tr.expr_ty_adjusted(x);
                let mut t = bty;
                // peel references
                loop {
                    match t.kind() {
                        ty::Ref(_, inner, _) => t = *inner,
                        _ => break,
                    }
                }
                if let ty::Adt(def, _) = t.kind() {
                    v.push(("adt", J::s(path_of(tcx, def.did()))));
                }
                v.push(("e", self.expr(x)));
            }
            ExprKind::Index(a, i, _) => {
                v.push(("k", J::s("Index")));
                v.push(("e", self.expr(a)));
                v.push(("i", self.expr(i)));
                v.push(("base_ty", J::s(format!("{}", self.tr.expr_ty_adjusted(a)))));
            }
            ExprKind::Path(ref q) => {
                v.push(("k", J::s("Path")));
                let res = self.tr.qpath_res(q, e.hir_id);
                v.extend(self.res_j(res));
                v.push(("text", J::s(self.qpath_text(q))));
            }
            ExprKind::AddrOf(_, m, x) => {
                v.push(("k", J::s("AddrOf")));
                v.push(("mut", J::B(m.is_mut())));
                v.push(("e", self.expr(x)));
            }
            ExprKind::Break(dest, val) => {
                v.push(("k", J::s("Break")));
                if let Some(l) = dest.label {
                    v.push(("label", J::s(l.ident.to_string())));
                }
                if let Some(x) = val {
                    v.push(("e", self.expr(x)));
                }
            }
            ExprKind::Continue(dest) => {
                v.push(("k", J::s("Continue")));
                if let Some(l) = dest.label {
                    v.push(("label", J::s(l.ident.to_string())));
                }
            }
            ExprKind::Ret(x) => {
                v.push(("k", J::s("Ret")));
                if let Some(x) = x {
                    v.push(("e", self.expr(x)));
                }
            }
            ExprKind::Struct(q, fields, base) => {
                v.push(("k", J::s("Struct")));
                let res = self.tr.qpath_res(q, e.hir_id);
                let ty = self.tr.expr_ty(e);
                v.extend(self.variant_of_res(res, ty));
                v.push(("text", J::s(self.qpath_text(q))));
                let fs: Vec<J> = fields
                    .iter()
                    .map(|f| {
                        J::obj(vec![
                            ("name", J::s(f.ident.to_string())),
                            ("e", self.expr(f.expr)),
                        ])
                    })
                    .collect();
                v.push(("fields", J::A(fs)));
                if let hir::StructTailExpr::Base(b) = base {
                    v.push(("base", self.expr(b)));
                }
            }
            ExprKind::Repeat(x, _) => {
                v.push(("k", J::s("Repeat")));
                v.push(("e", self.expr(x)));
            }
            ExprKind::Become(x) => {
                v.push(("k", J::s("Become")));
                v.push(("e", self.expr(x)));
            }
            ExprKind::Yield(x, _) => {
                v.push(("k", J::s("Yield")));
                v.push(("e", self.expr(x)));
            }
            ExprKind::InlineAsm(_) => v.push(("k", J::s("InlineAsm"))),
            ExprKind::OffsetOf(..) => v.push(("k", J::s("OffsetOf"))),
            ExprKind::UnsafeBinderCast(_, x, _) => return self.expr(x),
            ExprKind::Err(_) => v.push(("k", J::s("Err"))),
        }
        v.push(("ty", J::s(format!("{}", self.tr.expr_ty(e)))));
        v.push(("span", span_j(tcx, e.span)));
        J::obj(v)
    }

    pub fn pat(&self, p: &'tcx hir::Pat<'tcx>) -> J {
        let tcx = self.tcx;
        let mut v: Vec<(&'static str, J)> = Vec::new();
        match p.kind {
            PatKind::Missing => v.push(("k", J::s("Missing"))),
            PatKind::Wild => v.push(("k", J::s("Wild"))),
            PatKind::Binding(mode, hid, ident, sub) => {
                v.push(("k", J::s("Binding")));
                v.push(("name", J::s(ident.to_string())));
                v.push(("id", J::s(format!("{}.{}", hid.owner.def_id.local_def_index.as_u32(), hid.local_id.as_u32()))));
                v.push(("byref", J::B(!matches!(mode.0, hir::ByRef::No))));
                v.push(("mut", J::B(mode.1.is_mut())));
                if let Some(s) = sub {
                    v.push(("sub", self.pat(s)));
                }
            }
            PatKind::Struct(ref q, fields, rest) => {
                v.push(("k", J::s("StructPat")));
                let res = self.tr.qpath_res(q, p.hir_id);
                let ty = self.tr.pat_ty(p);
                v.extend(self.variant_of_res(res, ty));
                let fs: Vec<J> = fields
                    .iter()
                    .map(|f| {
                        J::obj(vec![
                            ("name", J::s(f.ident.to_string())),
                            ("pat", self.pat(f.pat)),
                        ])
                    })
                    .collect();
                v.push(("fields", J::A(fs)));
                v.push(("rest", J::B(rest.is_some())));
            }
            PatKind::TupleStruct(ref q, pats, ddpos) => {
                v.push(("k", J::s("TupleStructPat")));
                let res = self.tr.qpath_res(q, p.hir_id);
                let ty = self.tr.pat_ty(p);
                v.extend(self.variant_of_res(res, ty));
                v.push(("pats", J::A(pats.iter().map(|x| self.pat(x)).collect())));
                if let Some(d) = ddpos.as_opt_usize() {
                    v.push(("ddpos", J::U(d as u128)));
                }
            }
            PatKind::Or(pats) => {
                v.push(("k", J::s("OrPat")));
                v.push(("pats", J::A(pats.iter().map(|x| self.pat(x)).collect())));
            }
            PatKind::Never => v.push(("k", J::s("NeverPat"))),
            PatKind::Tuple(pats, ddpos) => {
                v.push(("k", J::s("TuplePat")));
                v.push(("pats", J::A(pats.iter().map(|x| self.pat(x)).collect())));
                if let Some(d) = ddpos.as_opt_usize() {
                    v.push(("ddpos", J::U(d as u128)));
                }
            }
            PatKind::Box(x) => {
                v.push(("k", J::s("BoxPat")));
                v.push(("pat", self.pat(x)));
            }
            PatKind::Deref(x) => {
                v.push(("k", J::s("DerefPat")));
                v.push(("pat", self.pat(x)));
            }
            PatKind::Ref(x, ..) => {
                v.push(("k", J::s("RefPat")));
                v.push(("pat", self.pat(x)));
            }
            PatKind::Expr(pe) => {
                v.push(("k", J::s("ExprPat")));
                v.extend(self.pat_expr(pe));
            }
            PatKind::Guard(x, g) => {
                v.push(("k", J::s("GuardPat")));
                v.push(("pat", self.pat(x)));
                v.push(("guard", self.expr(g)));
            }
            PatKind::Range(lo, hi, end) => {
                v.push(("k", J::s("RangePat")));
                if let Some(lo) = lo {
                    v.push(("lo", J::obj(self.pat_expr(lo))));
                }
                if let Some(hi) = hi {
                    v.push(("hi", J::obj(self.pat_expr(hi))));
                }
                v.push(("inclusive", J::B(matches!(end, hir::RangeEnd::Included))));
            }
            PatKind::Slice(a, m, b) => {
                v.push(("k", J::s("SlicePat")));
                v.push(("before", J::A(a.iter().map(|x| self.pat(x)).collect())));
                if let Some(m) = m {
                    v.push(("mid", self.pat(m)));
                }
                v.push(("after", J::A(b.iter().map(|x| self.pat(x)).collect())));
            }
            PatKind::Err(_) => v.push(("k", J::s("ErrPat"))),
        }
        v.push(("ty", J::s(format!("{}", self.tr.pat_ty(p)))));
        v.push(("span", span_j(tcx, p.span)));
        J::obj(v)
    }

    fn pat_expr(&self, pe: &'tcx hir::PatExpr<'tcx>) -> Vec<(&'static str, J)> {
        match &pe.kind {
            hir::PatExprKind::Lit { lit, negated } => {
                vec![("lit", lit_j(lit)), ("neg", J::B(*negated))]
            }
            hir::PatExprKind::Path(q) => {
                let res = self.tr.qpath_res(q, pe.hir_id);
                let mut v = self.res_j(res);
                v.push(("text", J::s(self.qpath_text(q))));
                v
            }
            #[allow(unreachable_patterns)]
            _ => vec![("other", J::s("patexpr"))],
        }
    }
}

fn rustc_hir_pretty_qpath(q: &QPath<'_>) -> String {
    match q {
        QPath::Resolved(_, path) => path
            .segments
            .iter()
            .map(|s| s.ident.to_string())
            .collect::<Vec<_>>()
            .join("::"),
        QPath::TypeRelative(_, seg) => format!("<_>::{}", seg.ident),
        #[allow(unreachable_patterns)]
        _ => "<lang>".to_string(),
    }
}
