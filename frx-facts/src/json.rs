//! Minimal JSON value + writer (no dependencies).
use std::fmt::Write;

#[derive(Clone, Debug)]
pub enum J {
    Null,
    B(bool),
    I(i128),
    U(u128),
    S(String),
    A(Vec<J>),
    O(Vec<(&'static str, J)>),
}

impl J {
    pub fn s<T: Into<String>>(t: T) -> J {
        J::S(t.into())
    }
    pub fn obj(v: Vec<(&'static str, J)>) -> J {
        J::O(v)
    }
    pub fn opt(o: Option<J>) -> J {
        o.unwrap_or(J::Null)
    }
    pub fn write(&self, out: &mut String) {
        match self {
            J::Null => out.push_str("null"),
            J::B(b) => out.push_str(if *b { "true" } else { "false" }),
            J::I(i) => {
                let _ = write!(out, "{}", i);
            }
            J::U(u) => {
                let _ = write!(out, "{}", u);
            }
            J::S(s) => write_str(s, out),
            J::A(v) => {
                out.push('[');
                for (i, x) in v.iter().enumerate() {
                    if i > 0 {
                        out.push(',');
                    }
                    x.write(out);
                }
                out.push(']');
            }
            J::O(v) => {
                out.push('{');
                let mut first = true;
                for (k, x) in v.iter() {
                    if let J::Null = x {
                        continue;
                    }
                    if !first {
                        out.push(',');
                    }
                    first = false;
                    write_str(k, out);
                    out.push(':');
                    x.write(out);
                }
                out.push('}');
            }
        }
    }
}

fn write_str(s: &str, out: &mut String) {
    out.push('"');
    for c in s.chars() {
        match c {
            '"' => out.push_str("\\\""),
            '\\' => out.push_str("\\\\"),
            '\n' => out.push_str("\\n"),
            '\r' => out.push_str("\\r"),
            '\t' => out.push_str("\\t"),
            c if (c as u32) < 0x20 => {
                let _ = write!(out, "\\u{:04x}", c as u32);
            }
            c => out.push(c),
        }
    }
    out.push('"');
}
