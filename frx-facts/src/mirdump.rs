//! MIR bodies -> JSON.
use crate::json::J;
use crate::span_j;
use rustc_abi::FIRST_VARIANT;
use rustc_hir::def::DefKind;
use rustc_middle::mir::*;
use rustc_middle::ty::{self, Instance, Ty, TyCtxt, TypingEnv};
use rustc_span::def_id::{DefId, LocalDefId};

pub fn dump_all(tcx: TyCtxt<'_>) -> J {
    let mut out = Vec::new();
    let mut keys: Vec<LocalDefId> = tcx.mir_keys(()).iter().copied().collect();
    keys.sort_by_key(|d| tcx.def_path_str(d.to_def_id()));
    for def_id in keys {
        match tcx.def_kind(def_id) {
            DefKind::Fn | DefKind::AssocFn | DefKind::Closure => {}
            _ => continue,
        }
        out.push(dump_body(tcx, def_id));
    }
    J::A(out)
}

pub fn path_of(tcx: TyCtxt<'_>, def_id: DefId) -> String {
    tcx.def_path_str(def_id)
}

struct Cx<'a, 'tcx> {
    tcx: TyCtxt<'tcx>,
    body: &'a Body<'tcx>,
    env: TypingEnv<'tcx>,
}

fn dump_body<'tcx>(tcx: TyCtxt<'tcx>, def_id: LocalDefId) -> J {
    let body = tcx.optimized_mir(def_id.to_def_id());
    let env = TypingEnv::post_analysis(tcx, def_id.to_def_id());
    let cx = Cx { tcx, body, env };
    let mut locals = Vec::new();
    for (l, decl) in body.local_decls.iter_enumerated() {
        locals.push(J::obj(vec![
            ("i", J::U(l.as_usize() as u128)),
            ("ty", J::s(format!("{}", decl.ty))),
        ]));
    }
    let mut names = Vec::new();
    for vdi in body.var_debug_info.iter() {
        if let VarDebugInfoContents::Place(p) = &vdi.value {
            names.push(J::obj(vec![
                ("name", J::s(vdi.name.to_string())),
                ("place", cx.place(p)),
                (
                    "arg",
                    match vdi.argument_index {
                        Some(i) => J::U(i as u128),
                        None => J::Null,
                    },
                ),
            ]));
        }
    }
    let mut blocks = Vec::new();
    for (bb, data) in body.basic_blocks.iter_enumerated() {
        let mut stmts = Vec::new();
        for st in data.statements.iter() {
            if let Some(j) = cx.stmt(st) {
                stmts.push(j);
            }
        }
        blocks.push(J::obj(vec![
            ("i", J::U(bb.as_usize() as u128)),
            ("cleanup", if data.is_cleanup { J::B(true) } else { J::Null }),
            ("stmts", J::A(stmts)),
            ("term", cx.term(data.terminator())),
        ]));
    }
    J::obj(vec![
        ("path", J::s(path_of(tcx, def_id.to_def_id()))),
        ("kind", J::s(format!("{:?}", tcx.def_kind(def_id)))),
        ("span", span_j(tcx, body.span)),
        ("argc", J::U(body.arg_count as u128)),
        ("locals", J::A(locals)),
        ("names", J::A(names)),
        ("blocks", J::A(blocks)),
    ])
}

impl<'a, 'tcx> Cx<'a, 'tcx> {
    fn place(&self, p: &Place<'tcx>) -> J {
        let mut proj = Vec::new();
        let mut pty = PlaceTy::from_ty(self.body.local_decls[p.local].ty);
        for elem in p.projection.iter() {
            let j = match elem {
                ProjectionElem::Deref => J::obj(vec![("k", J::s("Deref"))]),
                ProjectionElem::Field(f, _) => {
                    let mut v = vec![("k", J::s("Field")), ("i", J::U(f.as_usize() as u128))];
                    match pty.ty.kind() {
                        ty::Adt(def, _) => {
                            let vi = pty.variant_index.unwrap_or(FIRST_VARIANT);
                            let variant = def.variant(vi);
                            v.push(("adt", J::s(path_of(self.tcx, def.did()))));
                            if def.is_enum() {
                                v.push(("variant", J::s(variant.name.to_string())));
                            }
                            if let Some(fd) = variant.fields.get(f) {
                                v.push(("name", J::s(fd.name.to_string())));
                            }
                        }
                        ty::Closure(..) => v.push(("adt", J::s("{closure}"))),
                        ty::Tuple(..) => v.push(("adt", J::s("{tuple}"))),
                        _ => {}
                    }
                    J::obj(v)
                }
                ProjectionElem::Index(l) => J::obj(vec![
                    ("k", J::s("Index")),
                    ("local", J::U(l.as_usize() as u128)),
                ]),
                ProjectionElem::ConstantIndex {
                    offset,
                    min_length,
                    from_end,
                } => J::obj(vec![
                    ("k", J::s("ConstantIndex")),
                    ("offset", J::U(offset as u128)),
                    ("min_length", J::U(min_length as u128)),
                    ("from_end", J::B(from_end)),
                ]),
                ProjectionElem::Subslice { from, to, from_end } => J::obj(vec![
                    ("k", J::s("Subslice")),
                    ("from", J::U(from as u128)),
                    ("to", J::U(to as u128)),
                    ("from_end", J::B(from_end)),
                ]),
                ProjectionElem::Downcast(name, vi) => J::obj(vec![
                    ("k", J::s("Downcast")),
                    (
                        "variant",
                        J::s(name.map(|n| n.to_string()).unwrap_or_default()),
                    ),
                    ("vi", J::U(vi.as_usize() as u128)),
                ]),
                ProjectionElem::OpaqueCast(_) => J::obj(vec![("k", J::s("OpaqueCast"))]),
                ProjectionElem::UnwrapUnsafeBinder(_) => J::obj(vec![("k", J::s("UnwrapBinder"))]),
            };
            proj.push(j);
            pty = pty.projection_ty(self.tcx, elem);
        }
        J::obj(vec![
            ("l", J::U(p.local.as_usize() as u128)),
            ("p", if proj.is_empty() { J::Null } else { J::A(proj) }),
        ])
    }

    fn fn_def_j(&self, def_id: DefId, args: ty::GenericArgsRef<'tcx>) -> Vec<(&'static str, J)> {
        let tcx = self.tcx;
        let mut v = vec![
            ("fn", J::s(path_of(tcx, def_id))),
            ("local", J::B(def_id.is_local())),
        ];
        let gargs: Vec<J> = args.iter().map(|a| J::s(format!("{}", a))).collect();
        if !gargs.is_empty() {
            v.push(("gargs", J::A(gargs)));
        }
        // resolve trait methods to the concrete impl where possible
        if let Ok(Some(inst)) = Instance::try_resolve(tcx, self.env, def_id, args) {
            let rid = inst.def_id();
            if rid != def_id {
                v.push(("resolved", J::s(path_of(tcx, rid))));
                v.push(("resolved_local", J::B(rid.is_local())));
            }
            match inst.def {
                ty::InstanceKind::Item(_) => {}
                other => v.push(("inst", J::s(format!("{:?}", other).chars().take(60).collect::<String>()))),
            }
        } else if tcx.trait_of_assoc(def_id).is_some() {
            v.push(("unresolved_trait_method", J::B(true)));
        }
        if let Some(tr) = tcx.trait_of_assoc(def_id) {
            v.push(("trait", J::s(path_of(tcx, tr))));
        }
        v
    }

    fn constant(&self, c: &ConstOperand<'tcx>) -> J {
        let tcx = self.tcx;
        let ty: Ty<'tcx> = c.const_.ty();
        let mut v = vec![("k", J::s("Const")), ("ty", J::s(format!("{}", ty)))];
        match ty.kind() {
            ty::FnDef(def_id, args) => {
                v.extend(self.fn_def_j(*def_id, args));
            }
            ty::Closure(def_id, _) => {
                v.push(("closure", J::s(path_of(tcx, *def_id))));
            }
            _ => {
                if let Some(si) = c.const_.try_eval_scalar_int(tcx, self.env) {
                    let size = si.size();
                    let bits = si.to_bits(size);
                    if ty.is_bool() {
                        v.push(("val", J::B(bits != 0)));
                    } else if ty.is_signed() {
                        let sv = size.sign_extend(bits) as i128;
                        v.push(("val", J::I(sv)));
                    } else if ty.is_char() {
                        v.push(("val", J::U(bits)));
                        if let Some(ch) = char::from_u32(bits as u32) {
                            v.push(("chr", J::s(ch.to_string())));
                        }
                    } else {
                        v.push(("val", J::U(bits)));
                    }
                } else {
                    v.push(("text", J::s(format!("{}", c.const_))));
                }
            }
        }
        J::obj(v)
    }

    fn operand(&self, o: &Operand<'tcx>) -> J {
        match o {
            Operand::Copy(p) => {
                let mut j = vec![("k", J::s("Copy"))];
                j.push(("place", self.place(p)));
                J::obj(j)
            }
            Operand::Move(p) => J::obj(vec![("k", J::s("Move")), ("place", self.place(p))]),
            Operand::Constant(c) => self.constant(c),
            #[allow(unreachable_patterns)]
            _ => J::obj(vec![("k", J::s("OtherOperand")), ("text", J::s(format!("{:?}", o)))]),
        }
    }

    fn rvalue(&self, r: &Rvalue<'tcx>) -> J {
        let tcx = self.tcx;
        match r {
            Rvalue::Use(o, ..) => J::obj(vec![("k", J::s("Use")), ("op", self.operand(o))]),
            Rvalue::Repeat(o, n) => J::obj(vec![
                ("k", J::s("Repeat")),
                ("op", self.operand(o)),
                ("n", J::s(format!("{}", n))),
            ]),
            Rvalue::Ref(_, bk, p) => J::obj(vec![
                ("k", J::s("Ref")),
                ("mut", J::B(matches!(bk, BorrowKind::Mut { .. }))),
                ("place", self.place(p)),
            ]),
            Rvalue::ThreadLocalRef(d) => J::obj(vec![
                ("k", J::s("ThreadLocalRef")),
                ("def", J::s(path_of(tcx, *d))),
            ]),
            Rvalue::RawPtr(_, p) => J::obj(vec![("k", J::s("RawPtr")), ("place", self.place(p))]),
            Rvalue::Cast(kind, o, ty) => J::obj(vec![
                ("k", J::s("Cast")),
                ("cast", J::s(format!("{:?}", kind))),
                ("op", self.operand(o)),
                ("ty", J::s(format!("{}", ty))),
            ]),
            Rvalue::BinaryOp(op, ab) => J::obj(vec![
                ("k", J::s("BinaryOp")),
                ("op", J::s(format!("{:?}", op))),
                ("a", self.operand(&ab.0)),
                ("b", self.operand(&ab.1)),
            ]),
            Rvalue::UnaryOp(op, a) => J::obj(vec![
                ("k", J::s("UnaryOp")),
                ("op", J::s(format!("{:?}", op))),
                ("a", self.operand(a)),
            ]),
            Rvalue::Discriminant(p) => {
                let mut v = vec![("k", J::s("Discriminant")), ("place", self.place(p))];
                let pty = p.ty(self.body, tcx).ty;
                if let ty::Adt(def, _) = pty.kind() {
                    v.push(("adt", J::s(path_of(tcx, def.did()))));
                }
                J::obj(v)
            }
            Rvalue::Aggregate(kind, ops) => {
                let mut v = vec![("k", J::s("Aggregate"))];
                match &**kind {
                    AggregateKind::Array(_) => v.push(("agg", J::s("Array"))),
                    AggregateKind::Tuple => v.push(("agg", J::s("Tuple"))),
                    AggregateKind::Adt(did, vi, _, _, _) => {
                        let def = tcx.adt_def(*did);
                        let variant = def.variant(*vi);
                        v.push(("agg", J::s("Adt")));
                        v.push(("adt", J::s(path_of(tcx, *did))));
                        v.push(("variant", J::s(variant.name.to_string())));
                        let names: Vec<J> = variant
                            .fields
                            .iter()
                            .map(|f| J::s(f.name.to_string()))
                            .collect();
                        v.push(("fields", J::A(names)));
                    }
                    AggregateKind::Closure(did, _) => {
                        v.push(("agg", J::s("Closure")));
                        v.push(("closure", J::s(path_of(tcx, *did))));
                    }
                    other => {
                        v.push(("agg", J::s(format!("{:?}", other).chars().take(40).collect::<String>())));
                    }
                }
                v.push(("ops", J::A(ops.iter().map(|o| self.operand(o)).collect())));
                J::obj(v)
            }
            Rvalue::CopyForDeref(p) => J::obj(vec![
                ("k", J::s("Use")),
                ("op", J::obj(vec![("k", J::s("Copy")), ("place", self.place(p))])),
            ]),
            other => J::obj(vec![
                ("k", J::s("Other")),
                ("text", J::s(format!("{:?}", other).chars().take(80).collect::<String>())),
            ]),
        }
    }

    fn stmt(&self, st: &Statement<'tcx>) -> Option<J> {
        match &st.kind {
            StatementKind::Assign(b) => {
                let (place, rv) = &**b;
                Some(J::obj(vec![
                    ("k", J::s("Assign")),
                    ("place", self.place(place)),
                    ("rv", self.rvalue(rv)),
                    ("span", span_j(self.tcx, st.source_info.span)),
                ]))
            }
            StatementKind::SetDiscriminant {
                place,
                variant_index,
            } => Some(J::obj(vec![
                ("k", J::s("SetDiscriminant")),
                ("place", self.place(place)),
                ("vi", J::U(variant_index.as_usize() as u128)),
                ("span", span_j(self.tcx, st.source_info.span)),
            ])),
            StatementKind::Intrinsic(i) => Some(J::obj(vec![
                ("k", J::s("Intrinsic")),
                ("text", J::s(format!("{:?}", i).chars().take(80).collect::<String>())),
                ("span", span_j(self.tcx, st.source_info.span)),
            ])),
            _ => None,
        }
    }

    fn term(&self, t: &Terminator<'tcx>) -> J {
        let tcx = self.tcx;
        let bbj = |b: BasicBlock| J::U(b.as_usize() as u128);
        let mut v: Vec<(&'static str, J)> = Vec::new();
        match &t.kind {
            TerminatorKind::Goto { target } => {
                v.push(("k", J::s("Goto")));
                v.push(("target", bbj(*target)));
            }
            TerminatorKind::SwitchInt { discr, targets } => {
                v.push(("k", J::s("SwitchInt")));
                v.push(("discr", self.operand(discr)));
                let ts: Vec<J> = targets
                    .iter()
                    .map(|(val, bb)| J::A(vec![J::U(val), bbj(bb)]))
                    .collect();
                v.push(("targets", J::A(ts)));
                v.push(("otherwise", bbj(targets.otherwise())));
            }
            TerminatorKind::Return => v.push(("k", J::s("Return"))),
            TerminatorKind::Unreachable => v.push(("k", J::s("Unreachable"))),
            TerminatorKind::UnwindResume => v.push(("k", J::s("UnwindResume"))),
            TerminatorKind::UnwindTerminate(_) => v.push(("k", J::s("UnwindTerminate"))),
            TerminatorKind::Drop { place, target, .. } => {
                v.push(("k", J::s("Drop")));
                v.push(("place", self.place(place)));
                v.push(("target", bbj(*target)));
            }
            TerminatorKind::Call {
                func,
                args,
                destination,
                target,
                fn_span,
                ..
            } => {
                v.push(("k", J::s("Call")));
                v.push(("func", self.operand(func)));
                v.push((
                    "args",
                    J::A(args.iter().map(|a| self.operand(&a.node)).collect()),
                ));
                v.push(("dest", self.place(destination)));
                if let Some(tg) = target {
                    v.push(("target", bbj(*tg)));
                }
                v.push(("fn_span", span_j(tcx, *fn_span)));
            }
            TerminatorKind::TailCall { func, args, .. } => {
                v.push(("k", J::s("TailCall")));
                v.push(("func", self.operand(func)));
                v.push((
                    "args",
                    J::A(args.iter().map(|a| self.operand(&a.node)).collect()),
                ));
            }
            TerminatorKind::Assert {
                cond,
                expected,
                msg,
                target,
                ..
            } => {
                v.push(("k", J::s("Assert")));
                v.push(("cond", self.operand(cond)));
                v.push(("expected", J::B(*expected)));
                v.push(("target", bbj(*target)));
                let (kind, ops): (String, Vec<J>) = match &**msg {
                    AssertKind::BoundsCheck { len, index } => (
                        "BoundsCheck".into(),
                        vec![self.operand(len), self.operand(index)],
                    ),
                    AssertKind::Overflow(op, a, b) => (
                        format!("Overflow:{:?}", op),
                        vec![self.operand(a), self.operand(b)],
                    ),
                    AssertKind::OverflowNeg(a) => ("OverflowNeg".into(), vec![self.operand(a)]),
                    AssertKind::DivisionByZero(a) => {
                        ("DivisionByZero".into(), vec![self.operand(a)])
                    }
                    AssertKind::RemainderByZero(a) => {
                        ("RemainderByZero".into(), vec![self.operand(a)])
                    }
                    AssertKind::MisalignedPointerDereference { .. } => {
                        ("MisalignedPointerDereference".into(), vec![])
                    }
                    AssertKind::NullPointerDereference => ("NullPointerDereference".into(), vec![]),
                    other => (
                        format!("Other:{:?}", other).chars().take(40).collect(),
                        vec![],
                    ),
                };
                v.push(("msg", J::s(kind)));
                v.push(("ops", J::A(ops)));
            }
            other => {
                v.push(("k", J::s("OtherTerm")));
                v.push(("text", J::s(format!("{:?}", other).chars().take(80).collect::<String>())));
                let succ: Vec<J> = t.successors().map(bbj).collect();
                v.push(("succ", J::A(succ)));
            }
        }
        v.push(("span", span_j(tcx, t.source_info.span)));
        J::obj(v)
    }
}
