//! frx-facts: a generic fact dumper for one crate (fancy-regex), used by /verif's rule engine.
//!
//! It is injected with RUSTC_WORKSPACE_WRAPPER under `cargo +nightly check`; for the crate named
//! in FRX_FACTS_CRATE (default `fancy_regex`) it writes one JSON file (FRX_FACTS_OUT) containing
//! MIR bodies with resolved callees, HIR trees with type-check resolution, ADTs, impls, statics
//! and unsafe items.  It contains no property knowledge.
#![feature(rustc_private)]
#![allow(clippy::all)]

extern crate rustc_abi;
extern crate rustc_ast;
extern crate rustc_driver;
extern crate rustc_hir;
extern crate rustc_interface;
extern crate rustc_middle;
extern crate rustc_session;
extern crate rustc_span;

mod hirdump;
mod items;
mod json;
mod mirdump;

use json::J;
use rustc_driver::Compilation;
use rustc_interface::interface::Compiler;
use rustc_middle::ty::TyCtxt;
use rustc_span::Span;

pub struct Cb {
    target_crate: String,
    out: Option<String>,
}

pub fn span_j(tcx: TyCtxt<'_>, span: Span) -> J {
    // Report the call-site position for macro expansions, plus the macro name chain.
    let sm = tcx.sess.source_map();
    let cs = span.source_callsite();
    let lo = sm.lookup_char_pos(cs.lo());
    let hi = sm.lookup_char_pos(cs.hi());
    let file = match &lo.file.name {
        rustc_span::FileName::Real(r) => match r.local_path() {
            Some(p) => p.to_string_lossy().to_string(),
            None => format!("{:?}", r),
        },
        other => format!("{:?}", other),
    };
    let mut v = vec![
        ("file", J::s(file)),
        ("line", J::U(lo.line as u128)),
        ("col", J::U(lo.col.0 as u128)),
        ("eline", J::U(hi.line as u128)),
    ];
    if span.from_expansion() {
        let mut macs = Vec::new();
        let mut s = span;
        let mut guard = 0;
        while s.from_expansion() && guard < 16 {
            let ed = s.ctxt().outer_expn_data();
            let name = match ed.kind {
                rustc_span::ExpnKind::Macro(_, name) => format!("{}", name),
                rustc_span::ExpnKind::Desugaring(d) => format!("desugar:{:?}", d),
                rustc_span::ExpnKind::AstPass(p) => format!("astpass:{:?}", p),
                rustc_span::ExpnKind::Root => "root".to_string(),
            };
            macs.push(J::s(name));
            s = ed.call_site;
            guard += 1;
        }
        v.push(("exp", J::A(macs)));
    }
    J::obj(v)
}

impl rustc_driver::Callbacks for Cb {
    fn after_analysis<'tcx>(&mut self, _compiler: &Compiler, tcx: TyCtxt<'tcx>) -> Compilation {
        let name = tcx.crate_name(rustc_span::def_id::LOCAL_CRATE).to_string();
        if name != self.target_crate {
            return Compilation::Continue;
        }
        let Some(out) = self.out.clone() else {
            return Compilation::Continue;
        };
        // only the library target
        let is_test = tcx.sess.opts.test;
        if is_test && std::env::var("FRX_FACTS_TESTS").is_err() {
            return Compilation::Continue;
        }
        let mut root = vec![("crate", J::s(name))];
        let cfgs: Vec<J> = {
            let mut v: Vec<String> = tcx
                .sess
                .config
                .iter()
                .filter_map(|(k, val)| {
                    if k.as_str() == "feature" {
                        val.map(|v| v.to_string())
                    } else {
                        None
                    }
                })
                .collect();
            v.sort();
            v.into_iter().map(J::S).collect()
        };
        root.push(("features", J::A(cfgs)));
        root.push(("items", items::dump_items(tcx)));
        root.push(("mir", mirdump::dump_all(tcx)));
        root.push(("hir", hirdump::dump_all(tcx)));
        let mut s = String::new();
        J::obj(root).write(&mut s);
        // one write per process
        let tmp = format!("{}.tmp{}", out, std::process::id());
        std::fs::write(&tmp, s).expect("write facts");
        std::fs::rename(&tmp, &out).expect("rename facts");
        Compilation::Continue
    }
}

fn main() {
    let mut args: Vec<String> = std::env::args().collect();
    // As RUSTC_WORKSPACE_WRAPPER we are called as `<driver> <rustc> <args..>`.
    if args.len() > 1 && (args[1].ends_with("rustc") || args[1].contains("/rustc")) {
        args.remove(1);
    }
    let mut cb = Cb {
        target_crate: std::env::var("FRX_FACTS_CRATE").unwrap_or_else(|_| "fancy_regex".into()),
        out: std::env::var("FRX_FACTS_OUT").ok(),
    };
    rustc_driver::run_compiler(&args, &mut cb);
}
