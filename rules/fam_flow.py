"""FLOW family (C14): provenance of option values reaching the engines; option field consumers."""
import hirlib as H
import mirlib as M
import shape as S
from facts import strip_generics

PASS_THROUGH = ("::clone", "::to_owned", "::as_ref", "::borrow", "::deref", "::into", "::from", "::as_mut")


class Prov:
    def __init__(self, ctx):
        self.ctx = ctx
        self.cg = ctx.cg
        self.callers = {}
        for caller, calls in self.cg.calls.items():
            for callee, bi, t in calls:
                self.callers.setdefault(callee, []).append((caller, bi, t))
        # constructors / field writes per (adt, field)
        self.ctors = {}
        self.fwrites = {}
        for path, body in self.cg.bodies.items():
            for bi, b in enumerate(body.blocks):
                for st in b["stmts"]:
                    if st["k"] != "Assign":
                        continue
                    rv = st["rv"]
                    if rv["k"] == "Aggregate" and rv.get("agg") == "Adt":
                        for i, fn in enumerate(rv.get("fields", [])):
                            self.ctors.setdefault((rv["adt"], fn), []).append((path, rv["ops"][i]))
                    pl = st["place"]
                    prj = pl.get("p") or []
                    fl = [x for x in prj if x["k"] == "Field"]
                    if fl:
                        last = fl[-1]
                        self.fwrites.setdefault((last.get("adt", ""), last.get("name", "")), []).append((path, rv))

    def origins(self, fnpath, e, depth=0, seen=None):
        if seen is None:
            seen = set()
        key = (fnpath, M.show(e))
        if key in seen or depth > 14:
            return set()
        seen.add(key)
        body = self.cg.bodies[fnpath]
        fns = strip_generics(fnpath)
        k = e[0]
        out = set()
        if k == "const":
            return {("const", str(e[1]))}
        if k in ("var", "tmp"):
            l = e[2] if k == "var" else e[1]
            if 1 <= l <= body.argc:
                cs = self.callers.get(fnpath, [])
                # trait-method impls are called through the trait item
                if not cs:
                    return {("api-param", fns)}
                for caller, bi, t in cs:
                    cb = self.cg.bodies[caller]
                    if l - 1 < len(t["args"]):
                        out |= self.origins(caller, cb.op(t["args"][l - 1]), depth + 1, seen)
                finfo = self.ctx.facts.fns.get(fnpath, {})
                if finfo.get("exported"):
                    out.add(("api-param", fns))
                return out
            ds = body.defs.get(l, [])
            if not ds:
                return {("unknown", fns)}
            for bi, si, kind, node, proj in ds:
                if proj:
                    continue   # a write to a sub-place does not replace the object
                if kind == "stmt":
                    sav = body.names.pop(l, None)
                    try:
                        rhs = body.rvalue(node["rv"], 1)
                    finally:
                        if sav is not None:
                            body.names[l] = sav
                else:
                    rhs = body.call_expr(node, 1)
                out |= self.origins(fnpath, rhs, depth + 1, seen)
            return out
        if k == "field":
            adt, name = (e[3] if len(e) > 3 else ""), e[2].split(".")[-1]
            found = False
            for (path, op) in self.ctors.get((adt, name), []):
                found = True
                out |= self.origins(path, self.cg.bodies[path].op(op), depth + 1, seen)
            for (path, rv) in self.fwrites.get((adt, name), []):
                found = True
                out |= self.origins(path, self.cg.bodies[path].rvalue(rv, 1), depth + 1, seen)
            if not found:
                # field of a parameter-like object (closure capture, tuple, foreign type): follow the base
                out |= self.origins(fnpath, e[1], depth + 1, seen)
            return out
        if k == "call":
            callee = e[1]
            if callee.endswith("::default") and ("Default" in callee or callee.endswith("Default>::default")):
                return {("default", fns)}
            if any(callee.endswith(p) for p in PASS_THROUGH) and e[2]:
                return self.origins(fnpath, e[2][0], depth + 1, seen)
            # a helper that is not one of the baseline functions is part of its callers: what it returns is
            # judged as if written in the calling function
            unknown = set((getattr(self.ctx.facts, "norm", None) or {}).get("unknown") or [])
            if strip_generics(callee) in unknown:
                hp = [p for p in self.cg.bodies if strip_generics(p) == strip_generics(callee)]
                if len(hp) == 1:
                    sub = self.origins(hp[0], ("var", "_0", 0), depth + 1, seen)
                    hs = strip_generics(hp[0])
                    return {(o[0], fns if o[1] == hs else o[1]) for o in sub}
            return {("call:" + callee, fns)}
        if k == "agg":
            return {("literal:" + e[1], fns)}
        if k in ("index", "cast", "len"):
            return self.origins(fnpath, e[1], depth + 1, seen)
        return {("expr:" + k, fns)}


ALLOWED_OPTION_ORIGINS = {
    ("default", "RegexBuilder::new"): "the builder starts from defaults and its setters mutate that object",
    ("literal:RegexOptions", "Regex::new"): "Regex::new = defaults + pattern",
    ("literal:RegexOptions", "RegexBuilder::new"): "the same starting object written as a struct literal (`RegexOptions { pattern, ..Default::default() }`); the setters mutate it",
}
DEBUG_API = {"compile::compile": "doc(hidden) internal::compile for the toy example: documented to use default options",
             "vm::run_default": "doc(hidden) debugging helper", "vm::run_trace": "doc(hidden) debugging helper"}


def options_provenance(run, ctx):
    fam, label = "FLOW", "options-origin"
    pv = Prov(ctx)
    sinks = [("compile::compile_inner", 1, 2), ("vm::run", 4, 3)]
    n = 0
    for callee_s, argi, floor in sinks:
        callee = [p for p in ctx.cg.bodies if strip_generics(p) == callee_s]
        if len(callee) != 1:
            run.violation(fam, label, "anchor-missing/" + callee_s, "src", "anchor-missing: %s not found" % callee_s)
            continue
        sites = pv.callers.get(callee[0], [])
        run.floor(fam, label, "src", len(sites), floor, "call sites of %s" % callee_s)
        for caller, bi, t in sites:
            cs = strip_generics(caller)
            body = ctx.cg.bodies[caller]
            e = body.op(t["args"][argi])
            og = pv.origins(caller, e)
            where = "%s:%d" % (t["span"]["file"], t["span"]["line"])
            n += 1
            bad = []
            for o in sorted(og):
                if o in ALLOWED_OPTION_ORIGINS:
                    continue
                if o[0] == "default" and o[1] in DEBUG_API:
                    continue
                if o[0] == "api-param":
                    continue
                bad.append(o)
            if bad or not og:
                run.violation(fam, label, "%s/%s/%s" % (callee_s, cs, ",".join("%s@%s" % b for b in bad) or "none"), where,
                              "options passed to %s in %s do not come from the user's RegexOptions: origin %s (builder options would be ignored on this path)"
                              % (callee_s, cs, ", ".join("%s in %s" % b for b in bad) or "unknown"))
            elif len(run.samples) < 30:
                run.samples.append({"rule": "FLOW/options-origin", "where": where, "verdict": "ok",
                                    "obligation": "options argument of %s called from %s originates at %s" % (callee_s, cs, sorted(og))})
    # the debug helpers that manufacture default options must not be used by the library itself
    for helper in DEBUG_API:
        hp = [p for p in ctx.cg.bodies if strip_generics(p) == helper]
        for h in hp:
            for caller, bi, t in pv.callers.get(h, []):
                cs = strip_generics(caller)
                if cs in DEBUG_API:
                    continue
                n += 1
                run.violation(fam, label, "debug-helper/%s/%s" % (helper, cs), "%s:%d" % (t["span"]["file"], t["span"]["line"]),
                              "%s (which runs with RegexOptions::default()) is called from %s: the user's options (backtrack_limit, delegate limits, syntax) would be ignored there" % (helper, cs))
    run.ok(fam, label, "src", n, "every options argument of compile_inner / vm::run traces back to RegexBuilder::new / Regex::new (debug helpers excepted and unused by the library)")


def option_consumers(run, ctx):
    """Every RegexOptions field a RegexBuilder setter writes is consumed; case-insensitivity reaches the parser."""
    fam, label = "FLOW", "option-consumers"
    facts = ctx.facts
    ro = [a for p, a in facts.adts.items() if strip_generics(p) == "RegexOptions"]
    if len(ro) != 1:
        run.violation(fam, label, "anchor-missing/RegexOptions", "src/lib.rs", "anchor-missing: struct RegexOptions")
        return
    fields = [f["name"] for f in ro[0]["variants"][0]["fields"]]
    # field reads per function (HIR Field nodes on RegexOptions that are not assignment targets)
    reads = {f: set() for f in fields}
    writes = {f: set() for f in fields}
    for path, fn in facts.hir.items():
        sp = strip_generics(path)
        for n in H.walk(fn["body"]):
            if n.get("k") in ("Assign", "AssignOp"):
                l = H.peel(n["l"])
                if l.get("k") == "Field" and l.get("adt", "").endswith("RegexOptions") and l["name"] in writes:
                    writes[l["name"]].add(sp)
        assigned = set()
        for n in H.walk(fn["body"]):
            if n.get("k") == "Assign":
                assigned.add(id(H.peel(n["l"])))
        for n in H.walk(fn["body"]):
            if n.get("k") == "Field" and n.get("adt", "").endswith("RegexOptions") and n["name"] in reads and id(n) not in assigned:
                reads[n["name"]].add(sp)
    setters = {f: sorted(w for w in ws if w.startswith("RegexBuilder::")) for f, ws in writes.items()}
    consumers = {"syntaxc": ["compile::compile_inner", "Regex::new_options"],
                 "backtrack_limit": ["vm::run"],
                 "delegate_size_limit": ["compile::compile_inner"],
                 "delegate_dfa_size_limit": ["compile::compile_inner"]}
    n = 0
    for f, ss in setters.items():
        if not ss:
            continue
        n += 1
        rd = {r for r in reads[f] if not r.startswith("RegexBuilder::")}
        need = consumers.get(f)
        if need is None:
            if not rd:
                run.violation(fam, label, "unread/" + f, "src/lib.rs", "RegexOptions.%s is set by %s but read nowhere: the option has no effect" % (f, ss))
            continue
        for c in need:
            if c not in rd:
                run.violation(fam, label, "consumer/%s/%s" % (f, c), "src/lib.rs",
                              "RegexOptions.%s (set by %s) is not read in %s: the option does not take effect on that path" % (f, ",".join(ss), c))
    run.floor(fam, label, "src/lib.rs", n, 4, "RegexOptions fields written by RegexBuilder setters")
    # ... and consulted nowhere else: an option that some other component also looks at acts differently on the
    # patterns that reach that component (e.g. a VM instruction reading the case-insensitivity bit only sees the
    # builder's setting, never an inline (?i) or (?-i:..))
    allowed = {"syntaxc": {"compile::compile_inner", "Regex::new_options"},
               "backtrack_limit": {"vm::run"},
               "delegate_size_limit": {"compile::compile_inner"},
               "delegate_dfa_size_limit": {"compile::compile_inner"}}
    for f, rd in sorted(reads.items()):
        extra = {r for r in rd if not r.startswith("RegexBuilder::") and not r.startswith("<RegexOptions as ") and "{closure" not in r} - allowed.get(f, set())
        for r in sorted(extra):
            if f not in allowed:
                continue
            run.violation(fam, label, "extra-reader/%s/%s" % (f, r), "src", "RegexOptions.%s is also consulted in %s (expected only %s): the option would act differently depending on which component handles the pattern" % (f, r, sorted(allowed[f])))
    # size limits reach the regex-automata config; syntax config is passed on
    ci = S.get_fn(run, ctx, "compile::compile_inner", fam, label)
    if ci is not None:
        c = H.canon(ci["body"])
        for fld, meth in (("delegate_size_limit", "nfa_size_limit"), ("delegate_dfa_size_limit", "dfa_size_limit")):
            ok, _why = S.option_forwarding(ci, fld, meth)
            n += 1
            if not ok:
                run.violation(fam, label, "limit/" + fld, H.where(ci), "compile_inner does not forward %s to the inner engine's %s" % (fld, meth))
        syn = [nd for nd in H.walk(ci["body"]) if nd.get("k") == "MethodCall" and nd["name"] == "syntax"]
        n += 1
        if len(syn) != 1:
            run.violation(fam, label, "syntax-call", H.where(ci), "anchor-missing: compile_inner should configure the syntax exactly once")
        else:
            a = H.canon(syn[0]["args"][0])
            params = [p.get("name") for p in ci["params"]]
            O = params[1] if len(params) > 1 else "options"
            if a == "%s.syntaxc" % O:
                run.violation(fam, label, "syntax-casei-twice", H.where(syn[0]),
                              "compile_inner lets the inner engine apply the builder's case-insensitivity to the re-serialised pattern, which no longer carries (?-i:..) scopes: `(?-i:a)b` would match \"Ab\"")
            elif a != "%s.syntaxc.case_insensitive(false)" % O:
                run.violation(fam, label, "syntax-arg", H.where(syn[0]), "compile_inner passes %s as syntax config, expected the user's syntaxc with case folding left to the tree" % a)
    # case-insensitivity is folded in at parse time on the construction path
    no = S.get_fn(run, ctx, "Regex::new_options", fam, label)
    if no is not None:
        O = [p.get("name") for p in no["params"]][0]
        calls = [nd for nd in H.walk(no["body"]) if nd.get("k") == "Call" and H.canon(nd).startswith("Parser::parse")]
        n += 1
        ok = False
        lets = {}
        for nd in H.walk(no["body"]):
            if nd.get("k") == "Let" and nd["pat"].get("k") == "Binding" and nd.get("init") is not None:
                lets[nd["pat"]["name"]] = H.canon(nd["init"])
        for cnd in calls:
            args = [H.canon(a) for a in cnd["args"]]
            if len(args) == 2 and lets.get(args[1], args[1]) == "%s.syntaxc.get_case_insensitive()" % O and args[0] == "%s.pattern" % O:
                ok = True
        if not ok:
            run.violation(fam, label, "casei-not-parsed", H.where(no),
                          "Regex::new_options does not hand the builder's case-insensitive setting to the parser: the VM compares literals byte-wise, so on fancy patterns the option would be ignored (found %s)" % [H.canon(c)[:60] for c in calls])
        # both construction paths use the same options object
        ci_calls = [nd for nd in H.walk(no["body"]) if nd.get("k") == "Call" and H.canon(nd).startswith("compile_inner(")]
        cw = [nd for nd in H.walk(no["body"]) if nd.get("k") == "Call" and H.canon(nd).startswith("compile_with_options(")]
        n += 2
        if not ci_calls or H.canon(ci_calls[0]["args"][1]) != O:
            run.violation(fam, label, "wrap-options", H.where(no), "whole-pattern hand-off is not compiled with the user's options")
        if not cw or H.canon(cw[0]["args"][1]) != O:
            run.violation(fam, label, "fancy-options", H.where(no), "the VM program is not compiled with the user's options (found %s)" % [H.canon(c)[:50] for c in cw])
    # parser seeds its flags from the argument
    pc = S.get_fn(run, ctx, "Parser::parse_with_casei", fam, label)
    if pc is not None:
        ps = [p.get("name") for p in pc["params"]]
        ok = False
        for nd in H.walk(pc["body"]):
            if nd.get("k") == "If" and H.canon(nd["cond"]) == ps[1]:
                t = H.canon(nd["then"])
                if H.pat_match("{p}.flags |= FLAG_CASEI", t):
                    ok = True
        n += 1
        if not ok:
            run.violation(fam, label, "parser-seed", H.where(pc), "parse_with_casei does not set FLAG_CASEI when asked to")
    run.ok(fam, label, "src/lib.rs", n, "setters %s; every set field has its consumer on both construction paths" % {k: v for k, v in setters.items() if v})


def limit_provenance(run, ctx):
    """The limit operand of vm::run comes from the user's options on all entry points (shares options_provenance)."""
    fam, label = "FLOW", "limit-origin"
    pv = Prov(ctx)
    callee = [p for p in ctx.cg.bodies if strip_generics(p) == "vm::run"]
    if len(callee) != 1:
        run.violation(fam, label, "anchor-missing/vm::run", "src/vm.rs", "anchor-missing: vm::run")
        return
    n = 0
    for caller, bi, t in pv.callers.get(callee[0], []):
        cs = strip_generics(caller)
        body = ctx.cg.bodies[caller]
        og = pv.origins(caller, body.op(t["args"][4]))
        n += 1
        bad = [o for o in og if not (o in ALLOWED_OPTION_ORIGINS or (o[0] == "default" and o[1] in DEBUG_API) or o[0] == "api-param")]
        if bad or not og:
            run.violation(fam, label, "%s/%s" % (cs, ",".join("%s@%s" % b for b in bad) or "none"), "%s:%d" % (t["span"]["file"], t["span"]["line"]),
                          "vm::run called from %s with options of origin %s: the user's backtrack_limit would not apply" % (cs, bad))
    # the helpers that run with default options are not used by the library itself
    for helper in ("vm::run_default", "vm::run_trace"):
        for h in [p for p in ctx.cg.bodies if strip_generics(p) == helper]:
            for caller, bi, t in pv.callers.get(h, []):
                cs = strip_generics(caller)
                if cs in DEBUG_API:
                    continue
                run.violation(fam, label, "debug-helper/%s/%s" % (helper, cs), "%s:%d" % (t["span"]["file"], t["span"]["line"]),
                              "%s (which runs with the default backtrack limit) is called from %s: the user's backtrack_limit would not apply there" % (helper, cs))
    run.floor(fam, label, "src/lib.rs", n, 3, "vm::run call sites")
    run.ok(fam, label, "src/lib.rs", n, "backtrack_limit operand of every vm::run call comes from the user's options")
