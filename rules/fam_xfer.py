"""XFER: soundness of the analyser's transfer functions (min_size / const_size / hard).

The arms of `Analyzer::visit` are *extracted* into formulas over the facts of their children by a
small abstract interpreter of the HIR (no repository code is executed); the formulas are then compared
with the reference lattice semantics over a finite grid of child facts."""
import itertools

import hirlib as H
import shape as S
from facts import strip_generics

MAXI = (1 << 64) - 1


class Unanalysable(Exception):
    pass


class ArmEval:
    def __init__(self, ctx, init_state, n_for=2):
        self.ctx = ctx
        self.state = dict(init_state)   # var -> expr tree
        self.env = {}
        self.children = []              # order of visit() calls: (symbol index, canon of visited expr)
        self.pushed = []                # order of children.push
        self.assumed_false = []         # conditions leading to `return Err`
        self.n_for = n_for
        self.binds = {}                 # pattern-bound names (lo, hi, size, group, ...)
        self.group_incs = 0
        self.group_inc_before_visit = None

    # ---- expressions ----
    def ex(self, e):
        e = H.peel(e)
        k = e.get("k")
        if k == "Lit":
            l = e["lit"]
            if l["t"] in ("int", "bool"):
                return ("c", l["v"])
            raise Unanalysable("literal " + H.canon(e))
        if k == "Path":
            if e.get("res") == "Local":
                n = e["name"]
                if n in self.state:
                    return self.state[n]
                if n in self.env:
                    return self.env[n]
                if n in self.binds:
                    return ("p", n)
                raise Unanalysable("unknown local " + n)
            if "val" in e:
                return ("c", e["val"])
            raise Unanalysable("path " + H.canon(e))
        if k == "Field":
            b = H.peel(e["e"])
            if b.get("k") == "Path" and b.get("res") == "Local" and b["name"] in self.env and self.env[b["name"]][0] == "child":
                i = self.env[b["name"]][1]
                f = e["name"]
                if f in ("min_size", "const_size", "hard"):
                    return ({"min_size": "m", "const_size": "k", "hard": "h"}[f], i)
                if f in ("start_group", "end_group"):
                    return ("g", i, f)
            if H.canon(e) == "self.group_ix":
                return ("p", "group_ix")
            raise Unanalysable("field " + H.canon(e))
        if k == "Binary":
            op = e["op"]
            a, b = self.ex(e["l"]), self.ex(e["r"])
            return (op, a, b)
        if k == "Unary" and e["op"] == "Not":
            return ("Not", self.ex(e["e"]))
        if k == "If" and e.get("else") is not None:
            return ("ite", self.ex(e["cond"]), self.ex(e["then"]), self.ex(e["else"]))
        if k == "Block" and not e.get("stmts") and e.get("expr") is not None:
            return self.ex(e["expr"])
        if k == "Block" and e.get("expr") is not None and not e.get("label"):
            # a block used as a value (e.g. an inlined helper): its statements take effect, its tail is the value
            for s_ in e.get("stmts", []):
                self.stmt(s_)
            return self.ex(e["expr"])
        if k == "Call":
            f = H.peel(e["f"])
            name = H.path_canon(f) if f.get("k") == "Path" else H.canon(f)
            if name.endswith("min") and len(e["args"]) == 2:
                return ("min", self.ex(e["args"][0]), self.ex(e["args"][1]))
            if name.endswith("max") and len(e["args"]) == 2:
                return ("max", self.ex(e["args"][0]), self.ex(e["args"][1]))
            # a local function whose body is a constant
            d = f.get("def", "")
            for p, fn in self.ctx.facts.hir.items():
                if p == d:
                    b = H.peel(fn["body"])
                    if b.get("k") == "Lit" and b["lit"]["t"] == "bool":
                        return ("c", b["lit"]["v"])
            return ("opaque", H.canon(e))
        if k == "MethodCall":
            n = e["name"]
            if n in ("saturating_add", "saturating_mul", "saturating_sub", "min", "max", "wrapping_add", "wrapping_mul") and len(e["args"]) == 1:
                a, b = self.ex(e["recv"]), self.ex(e["args"][0])
                return ({"saturating_add": "SAdd", "saturating_mul": "SMul", "saturating_sub": "SSub", "min": "min", "max": "max",
                         "wrapping_add": "WAdd", "wrapping_mul": "WMul"}[n], a, b)
            if n in ("checked_add", "checked_mul"):
                raise Unanalysable("checked arithmetic " + H.canon(e))
            return ("opaque", H.canon(e))
        raise Unanalysable(k + ": " + H.canon(e)[:60])

    # ---- statements ----
    def block(self, b):
        b = b if b.get("k") == "Block" else {"k": "Block", "stmts": [], "expr": b}
        for s in b.get("stmts", []):
            self.stmt(s)
        if b.get("expr") is not None:
            self.stmt({"k": "ExprStmt", "e": b["expr"]})

    def stmt(self, s):
        k = s["k"]
        if k == "Let":
            pat = s["pat"]
            if pat.get("k") != "Binding":
                raise Unanalysable("let pattern " + H.pat_canon(pat))
            name = pat["name"]
            init = H.peel(s.get("init")) if s.get("init") is not None else None
            if init is None:
                raise Unanalysable("let without init")
            v = self.visit_call(init)
            if v is not None:
                self.env[name] = v
                return
            self.env[name] = self.ex(init)
            return
        e = H.peel(s["e"])
        ek = e.get("k")
        if ek == "Assign" or ek == "AssignOp":
            l = H.peel(e["l"])
            lc = H.canon(l)
            if lc == "self.group_ix":
                if ek == "AssignOp" and e["op"].startswith("Add") and H.canon(e["r"]) == "1":
                    self.group_incs += 1
                    self.group_inc_before_visit = (len(self.children) == 0)
                    return
                raise Unanalysable("write to group_ix: " + H.canon(e))
            if l.get("k") == "Path" and l.get("res") == "Local" and l["name"] in self.state:
                r = self.ex(e["r"])
                if ek == "Assign":
                    self.state[l["name"]] = r
                else:
                    op = e["op"].replace("Assign", "")
                    self.state[l["name"]] = (op, self.state[l["name"]], r)
                return
            raise Unanalysable("assignment to " + lc)
        if ek == "MethodCall" and e["name"] == "push" and H.canon(e["recv"]) == "children":
            a = H.peel(e["args"][0])
            if a.get("k") == "Path" and a["name"] in self.env and self.env[a["name"]][0] == "child":
                self.pushed.append(self.env[a["name"]][1])
                return
            raise Unanalysable("children.push of " + H.canon(a))
        if ek == "If":
            th = H.peel(e["then"])
            thc = H.canon(th)
            if thc.startswith("return Err(") and e.get("else") is None:
                self.assumed_false.append(H.canon(e["cond"]))
                return
            if e.get("else") is not None:
                elc = H.canon(H.peel(e["else"]))
                if elc.startswith("return Err("):
                    # `if ok { .. } else { return Err(..) }`: the rest runs under the condition; what is rejected is its negation
                    cc = H.peel(e["cond"])
                    neg = {"Lt": "Ge", "Le": "Gt", "Gt": "Le", "Ge": "Lt", "Eq": "Ne", "Ne": "Eq"}
                    if cc.get("k") == "Binary" and cc.get("op") in neg:
                        self.assumed_false.append(H.canon(dict(cc, op=neg[cc["op"]])))
                    else:
                        self.assumed_false.append("!" + H.canon(e["cond"]))
                    self.stmt({"k": "ExprStmt", "e": th})
                    return
                if thc.startswith("return Err("):
                    self.assumed_false.append(H.canon(e["cond"]))
                    self.stmt({"k": "ExprStmt", "e": H.peel(e["else"])})
                    return
            # branches that only update the accumulators: merge the two outcomes under the condition
            try:
                cnd = self.ex(e["cond"])
            except Unanalysable:
                raise Unanalysable("if: " + H.canon(e)[:80])
            base = dict(self.state)
            npush = len(self.pushed)
            self.stmt({"k": "ExprStmt", "e": th})
            st_then = dict(self.state)
            self.state = dict(base)
            if e.get("else") is not None:
                self.stmt({"k": "ExprStmt", "e": H.peel(e["else"])})
            st_else = dict(self.state)
            if len(self.pushed) != npush or "__err__" in st_then or "__err__" in st_else:
                raise Unanalysable("if with pushes / errors: " + H.canon(e)[:80])
            merged = {}
            for k_ in set(st_then) | set(st_else):
                a_, b_ = st_then.get(k_, base.get(k_)), st_else.get(k_, base.get(k_))
                merged[k_] = a_ if a_ == b_ else ("ite", cnd, a_, b_)
            self.state = merged
            return
        if ek == "For":
            it = H.canon(e["iter"])
            pat = e["pat"]
            if pat.get("k") != "Binding":
                raise Unanalysable("for pattern")
            for i in range(self.n_for):
                self.env[pat["name"]] = ("elem", it, i)
                self.block(e["body"])
            return
        if ek == "Ret":
            c = H.canon(e)
            if c.startswith("return Err("):
                self.state["__err__"] = ("c", 1)
                return
            raise Unanalysable("return " + c[:50])
        if ek == "Block":
            self.block(e)
            return
        if ek == "Tup" and not e["es"]:
            return
        raise Unanalysable("statement " + H.canon(e)[:80])

    def visit_call(self, init):
        """`self.visit(x)?` -> new child symbol."""
        if init.get("k") == "Try":
            inner = H.peel(init["e"])
            if inner.get("k") == "MethodCall" and inner["name"] == "visit" and H.canon(inner["recv"]) == "self":
                idx = len(self.children)
                self.children.append((idx, H.canon(inner["args"][0])))
                return ("child", idx)
        return None


# ---------------------------------------------------------------------------------------------
# evaluation of extracted formulas
# ---------------------------------------------------------------------------------------------

def ev(e, val):
    k = e[0]
    if k == "c":
        return e[1]
    if k in ("m", "k", "h"):
        return val[(k, e[1])]
    if k == "g":
        return val.get(("g", e[1], e[2]), 0)
    if k == "p":
        return val[("p", e[1])]
    if k == "opaque":
        return val[("o", e[1])]
    if k == "Not":
        return not ev(e[1], val)
    if k == "ite":
        return ev(e[2], val) if ev(e[1], val) else ev(e[3], val)
    a, b = ev(e[1], val), ev(e[2], val)
    if k in ("Add", "WAdd"):
        return a + b
    if k == "SAdd":
        return min(a + b, MAXI)
    if k == "Sub":
        return a - b
    if k == "SSub":
        return max(a - b, 0)
    if k in ("Mul", "WMul"):
        return a * b
    if k == "SMul":
        return min(a * b, MAXI)
    if k == "min":
        return min(a, b)
    if k == "max":
        return max(a, b)
    if k == "Eq":
        return a == b
    if k == "Ne":
        return a != b
    if k == "Lt":
        return a < b
    if k == "Le":
        return a <= b
    if k == "Gt":
        return a > b
    if k == "Ge":
        return a >= b
    if k in ("And", "BitAnd"):
        return bool(a) and bool(b) if isinstance(a, bool) or isinstance(b, bool) else a & b
    if k in ("Or", "BitOr"):
        return bool(a) or bool(b) if isinstance(a, bool) or isinstance(b, bool) else a | b
    raise Unanalysable("eval " + k)


def show(e):
    k = e[0]
    if k == "c":
        return "MAX" if e[1] == MAXI else str(e[1])
    if k in ("m", "k", "h"):
        return "c%d.%s" % (e[1], {"m": "min", "k": "const", "h": "hard"}[k])
    if k == "g":
        return "c%d.%s" % (e[1], e[2])
    if k == "p":
        return e[1]
    if k == "opaque":
        return e[1]
    if k == "Not":
        return "!" + show(e[1])
    if k == "ite":
        return "if %s {%s} else {%s}" % (show(e[1]), show(e[2]), show(e[3]))
    return "%s(%s, %s)" % (k, show(e[1]), show(e[2]))


def syms(e, acc):
    k = e[0]
    if k in ("m", "k", "h"):
        acc.add((k, e[1]))
    elif k == "g":
        pass
    elif k == "p":
        acc.add(("p", e[1]))
    elif k == "opaque":
        acc.add(("o", e[1]))
    elif k == "c":
        pass
    else:
        for x in e[1:]:
            if isinstance(x, tuple):
                syms(x, acc)
    return acc


# ---------------------------------------------------------------------------------------------
# reference semantics: sets of possible match lengths (in characters), capped
# ---------------------------------------------------------------------------------------------

CAP = 7
LSETS = [frozenset(s) for r in (1, 2) for s in itertools.combinations((0, 1, 2), r)] + [frozenset((0, 1, 2))]


def sumset(a, b):
    return frozenset(min(x + y, CAP) for x in a for y in b)


def rep_set(L, lo, hi):
    if hi < lo:
        # reversed bounds are accepted by the parser; the VM's repeat instructions then run the body exactly
        # `hi` times (the counter reaches hi before it reaches lo) -- the automata engine rejects such a pattern
        cur = frozenset((0,))
        for _ in range(hi):
            cur = sumset(cur, L)
        return cur
    hi_eff = min(hi, lo + 2, 3)
    out = set()
    cur = frozenset((0,))
    for n in range(0, hi_eff + 1):
        if n >= lo:
            out |= cur
        cur = sumset(cur, L)
    return frozenset(out)


def parent_lengths(variant, Ls, params):
    if variant in ("Empty", "Assertion", "KeepOut", "ContinueFromPreviousMatchEnd", "BackrefExistsCondition", "LookAround"):
        return frozenset((0,))
    if variant in ("Any", "Literal"):
        return frozenset((1,))
    if variant == "Delegate":
        return frozenset((min(params.get("size", 0), CAP),))
    if variant == "Concat":
        cur = frozenset((0,))
        for L in Ls:
            cur = sumset(cur, L)
        return cur
    if variant == "Alt":
        out = set()
        for L in Ls:
            out |= L
        return frozenset(out)
    if variant in ("Group",):
        return Ls[0]
    if variant == "AtomicGroup":
        return Ls[0]     # checked additionally against every non-empty subset
    if variant == "Repeat":
        return rep_set(Ls[0], params["lo"], params["hi"])
    if variant == "Conditional":
        return frozenset(sumset(Ls[0], Ls[1]) | Ls[2])
    if variant == "Backref":
        return None      # any length
    raise Unanalysable("no reference semantics for " + variant)


def consistent_child_facts(L):
    """(m, k) pairs the induction hypothesis allows for a child with length set L."""
    out = []
    for m in range(0, min(L) + 1):
        out.append((m, False))
    if len(L) == 1:
        out.append((min(L), True))
    return out


# ---------------------------------------------------------------------------------------------

NCHILD = {"Concat": 2, "Alt": 3, "Group": 1, "LookAround": 1, "Repeat": 1, "AtomicGroup": 1, "Conditional": 3}
MUST_BE_HARD = {"LookAround", "Backref", "AtomicGroup", "KeepOut", "ContinueFromPreviousMatchEnd", "BackrefExistsCondition", "Conditional"}


def _role_names(body):
    """Rename the accumulators of Analyzer::visit to the names of the Info fields they end up in, and the analyser's
    own two fields to group_ix / backrefs (by the role they play), whatever the source calls them."""
    infos = [nd for nd in H.walk(body) if nd.get("k") == "Struct" and nd.get("adt", "").endswith("analyze::Info")]
    if len(infos) != 1:
        return body
    loc, fld = {}, {}
    for f in infos[0]["fields"]:
        e = H.peel(f["e"])
        if f["name"] in ("min_size", "const_size", "hard", "children", "start_group") and e.get("k") == "Path" and e.get("res") == "Local" and e["name"] != f["name"]:
            loc[e["name"]] = f["name"]
        if f["name"] == "end_group" and e.get("k") == "Field" and H.canon(e["e"]) == "self" and e["name"] != "group_ix":
            fld[e["name"]] = "group_ix"
    # the other field of the analyser is the set of referenced groups: the one `.contains(..)` is called on
    for nd in H.walk(body):
        if nd.get("k") == "MethodCall" and nd["name"] == "contains":
            r = H.peel(nd["recv"])
            if r.get("k") == "Field" and H.canon(r["e"]) == "self" and r["name"] != "backrefs":
                fld[r["name"]] = "backrefs"
    if not loc and not fld:
        return body
    return H.rename(body, loc, fld)


def analyzer_rule(run, ctx):
    global LSETS
    if getattr(run, "tier", "quick") == "thorough":
        LSETS = [frozenset(s_) for r in (1, 2, 3) for s_ in itertools.combinations((0, 1, 2, 3), r)]
    else:
        LSETS = [frozenset(s_) for r in (1, 2) for s_ in itertools.combinations((0, 1, 2), r)] + [frozenset((0, 1, 2))]
    fam, label = "XFER", "Analyzer::visit"
    fn = S.get_fn(run, ctx, "analyze::Analyzer::visit", fam, label)
    if fn is None:
        return
    w = H.where(fn)
    body = _role_names(fn["body"])
    # initial accumulator values
    init = {}
    for s in body.get("stmts", []):
        if s["k"] == "Let" and s["pat"].get("k") == "Binding" and s["pat"].get("mut") and s.get("init") is not None:
            i = H.peel(s["init"])
            if i.get("k") == "Lit" and i["lit"]["t"] in ("int", "bool"):
                init[s["pat"]["name"]] = ("c", i["lit"]["v"])
    for v in ("min_size", "const_size", "hard"):
        if v not in init:
            run.violation(fam, label, "anchor-missing/acc-" + v, w, "anchor-missing: accumulator `let mut %s = <literal>` in Analyzer::visit" % v)
            return
    # the final struct must take the accumulators
    infos = [nd for nd in H.walk(body) if nd.get("k") == "Struct" and nd.get("adt", "").endswith("analyze::Info")]
    if len(infos) != 1:
        run.violation(fam, label, "anchor-missing/Info", w, "anchor-missing: exactly one Info{..} construction expected")
        return
    fields = {f["name"]: H.canon(f["e"]) for f in infos[0]["fields"]}
    # a field taken from an immutable local declared after the match (`let end_group = self.group_ix;`) reads through
    tail_lets = {}
    seen_match = False
    for s_ in body.get("stmts", []):
        if any(nd.get("k") == "Match" and len(nd.get("arms", [])) > 8 for nd in H.walk(s_)):
            seen_match = True
            continue
        if not seen_match:
            continue
        if s_["k"] == "Let" and s_["pat"].get("k") == "Binding" and not s_["pat"].get("mut") and s_.get("init") is not None:
            tail_lets[s_["pat"]["name"]] = H.canon(s_["init"])
    for f_ in ("start_group", "end_group"):
        if fields.get(f_) in tail_lets and tail_lets[fields[f_]].startswith("self."):
            if f_ == "end_group":
                fields[f_] = tail_lets[fields[f_]]
    for f in ("min_size", "const_size", "hard", "children"):
        if fields.get(f) != f:
            run.violation(fam, label, "info-field/" + f, H.where(infos[0]), "Info.%s must be the accumulated %s, found %s" % (f, f, fields.get(f)))
    if fields.get("start_group") not in ("start_group",) or fields.get("end_group") != "self.group_ix":
        run.violation(fam, label, "info-groups", H.where(infos[0]), "Info.start_group/end_group must be the group counter before/after the visit, found %s / %s" % (fields.get("start_group"), fields.get("end_group")))
    ms = H.match_arms_on(body, "Expr")
    if not ms:
        run.violation(fam, label, "anchor-missing/match", w, "anchor-missing: match on Expr")
        return
    m = max(ms, key=lambda x: len(x["arms"]))
    seen_variants = set()
    n_arms = 0
    n_grid = 0
    for arm in m["arms"]:
        vs = H.arm_variants(arm, "Expr")
        if H.is_wild_arm(arm):
            run.violation(fam, label, "wildcard-arm", H.where(arm), "wildcard arm in Analyzer::visit: a new Expr variant would silently get default facts")
            continue
        guard = H.canon(arm["guard"]) if arm.get("guard") else None
        for variant in vs:
            n_arms += 1
            seen_variants.add(variant)
            nfor = 2
            ae = ArmEval(ctx, init, n_for=nfor)
            for pn in H.walk(arm["pat"]):
                if pn.get("k") == "Binding":
                    ae.binds[pn["name"]] = True
            try:
                ae.block(arm["body"])
            except Unanalysable as ex:
                run.violation(fam, label, "unanalysable/%s" % variant, H.where(arm), "arm for Expr::%s cannot be extracted (%s): fail closed" % (variant, ex))
                continue
            key = variant + ("[%s]" % guard if guard else "")
            if "__err__" in ae.state:
                continue   # arm always rejects (SubroutineCall)
            nchild = len(ae.children)
            if ae.pushed != list(range(nchild)):
                run.violation(fam, label, "children-order/" + key, H.where(arm), "Expr::%s: every visited child must be pushed to `children` in visit order (visited %d, pushed %s)" % (variant, nchild, ae.pushed))
            want_n = NCHILD.get(variant, 0)
            if nchild != want_n:
                run.violation(fam, label, "children-count/" + key, H.where(arm), "Expr::%s: expected %d children in the extracted arm, found %d" % (variant, want_n, nchild))
                continue
            if variant == "Group":
                if ae.group_incs != 1 or not ae.group_inc_before_visit:
                    run.violation(fam, label, "group-count", H.where(arm), "Expr::Group must increment group_ix exactly once, before visiting its child (C16 counting agreement)")
            elif ae.group_incs:
                run.violation(fam, label, "group-count/" + key, H.where(arm), "Expr::%s increments group_ix: only capture groups are counted" % variant)
            M_, K_, Hd = ae.state["min_size"], ae.state["const_size"], ae.state["hard"]
            sy = set()
            for e in (M_, K_, Hd):
                syms(e, sy)
            for bn in ("lo", "hi", "size"):
                if bn in ae.binds or variant in ("Repeat",) and bn in ("lo", "hi") or variant == "Delegate" and bn == "size":
                    sy.add(("p", bn))
            ps = sorted(x for x in sy if x[0] == "p")
            os_ = sorted(x for x in sy if x[0] == "o")
            # hard: (any child hard) => hard ; and unconditional for variants to_str cannot print
            cex = None
            pvals = {"lo": (0, 1, 2), "hi": (0, 1, 2, MAXI), "size": (0, 1), "group": (0, 1), "group_ix": (1, 2)}
            if getattr(run, "tier", "quick") == "thorough":
                pvals["lo"] = (0, 1, 2, 3)
                pvals["hi"] = (0, 1, 2, 3, MAXI)
            pgrid = list(itertools.product(*[pvals.get(p[1], (0, 1)) for p in ps])) or [()]
            ogrid = list(itertools.product(*[(False, True) for _ in os_])) or [()]
            for pv in pgrid:
                params = {p[1]: v for p, v in zip(ps, pv)}
                for Ls in itertools.product(LSETS, repeat=nchild):
                    variants_L = [Ls]
                    try:
                        Lp = parent_lengths(variant, list(Ls), params)
                    except Unanalysable as ex:
                        run.violation(fam, label, "no-spec/" + variant, H.where(arm), str(ex))
                        Lp = "skip"
                        break
                    cf = [consistent_child_facts(L) for L in Ls]
                    for facts in itertools.product(*cf):
                        for ov in ogrid:
                            for hs in itertools.product((False, True), repeat=nchild):
                                val = {}
                                for i, (mm, kk) in enumerate(facts):
                                    val[("m", i)] = mm
                                    val[("k", i)] = kk
                                    val[("h", i)] = hs[i]
                                for p, v in zip(ps, pv):
                                    val[p] = v
                                for o, v in zip(os_, ov):
                                    val[o] = v
                                n_grid += 1
                                try:
                                    rm, rk, rh = ev(M_, val), bool(ev(K_, val)), bool(ev(Hd, val))
                                except Unanalysable as ex:
                                    cex = ("eval", str(ex), val)
                                    break
                                if any(hs) and not rh:
                                    cex = ("hard", "a hard child does not make the parent hard", val)
                                    break
                                if Lp is None:
                                    if rm != 0 or rk:
                                        cex = ("backref", "a backreference can match any length: min must be 0 and const_size false (got %s, %s)" % (rm, rk), val)
                                        break
                                    continue
                                cands = [Lp]
                                if variant == "AtomicGroup":
                                    cands = [frozenset(c) for r in range(1, len(Lp) + 1) for c in itertools.combinations(sorted(Lp), r)]
                                for LL in cands:
                                    tm = min(LL)
                                    if tm < CAP and rm > tm:
                                        cex = ("min", "min_size %s exceeds a possible match length %s" % (rm, tm), val, LL)
                                        break
                                    if rk and not (len(LL) == 1 and (rm == tm or tm >= CAP)):
                                        cex = ("const", "const_size is true but match lengths %s are possible with min_size %s" % (sorted(LL), rm), val, LL)
                                        break
                                if cex:
                                    break
                            if cex:
                                break
                        if cex:
                            break
                    if cex:
                        break
                if cex or Lp == "skip":
                    break
            if cex:
                vs_ = ", ".join("%s=%s" % ("c%d.%s" % (k[1], k[0]) if k[0] in "mkh" else str(k[1]), v) for k, v in sorted(cex[2].items(), key=str)
                                if k[0] in ("m", "k", "p") or (k[0] == "h" and cex[0] == "hard"))
                what = {"min": "min", "const": "const", "hard": "hard", "backref": "min", "eval": "eval"}[cex[0]]
                run.violation(fam, label, "%s/%s" % (key, what), H.where(arm),
                              "Expr::%s: unsound transfer function: %s.  Extracted min=%s, const=%s, hard=%s; child facts %s%s" %
                              (variant, cex[1], show(M_), show(K_), show(Hd), vs_, (" (child match lengths consistent with these facts give parent lengths %s)" % sorted(cex[3])) if len(cex) > 3 else ""),
                              {"valuation": vs_})
            # a `{0}` repeat is dropped by the inner engine together with the capture groups inside it: it must
            # not be delegated when its child contains groups (group counts of the two engines would differ)
            if variant == "Repeat":
                bad = None
                for lo_ in (0,):
                    for kk in (False, True):
                        val = {("m", 0): 1, ("k", 0): kk, ("h", 0): False, ("p", "lo"): 0, ("p", "hi"): 0,
                               ("g", 0, "start_group"): 1, ("g", 0, "end_group"): 2}
                        for o in os_:
                            val[o] = False
                        try:
                            if not bool(ev(Hd, val)):
                                bad = val
                        except Exception:
                            bad = val
                if bad is not None:
                    run.violation(fam, label, "Repeat/zero-with-groups", H.where(arm),
                                  "Expr::Repeat with hi == 0 whose child contains capture groups is not marked hard (hard=%s): the inner engine drops `(a){0}` together with its group, so captures_len / capture_names / Captures::len of a delegated pattern disagree with the pattern's groups and with the VM" % show(Hd))
            # a group that some backreference / group condition refers to must be interpreted by the VM whatever
            # its child looks like: inside a delegate the engine could not backtrack into it (`(x|xy)\\1`) nor
            # tell the VM which of several alternatives set it (`(?:(a)|(.))\\2`)
            if variant == "Group":
                refd = [o for o in os_ if "backrefs.contains" in str(o[1])]
                if not refd:
                    run.violation(fam, label, "Group/referenced-not-consulted", H.where(arm),
                                  "Expr::Group: hardness does not depend on whether the group is referenced (hard=%s)" % show(Hd))
                else:
                    bad = None
                    for kk in (False, True):
                        for mm_ in (0, 1):
                            val = {s_: (False if s_[0] in "hk" else 0) for s_ in sy}
                            val.update({("m", 0): mm_, ("k", 0): kk, ("h", 0): False})
                            for o in os_:
                                val[o] = o in refd
                            try:
                                if not bool(ev(Hd, val)):
                                    bad = val
                            except Exception:
                                bad = val
                    if bad is not None:
                        run.violation(fam, label, "Group/referenced-not-hard", H.where(arm),
                                      "Expr::Group: a group that is referenced by a backreference or group condition is not always marked hard (hard=%s): it could be swallowed into an automata delegate, which cannot be backtracked into and does not tell the VM which alternative set the group" % show(Hd))
            # unconditional hardness for what to_str cannot print
            if variant in MUST_BE_HARD:
                try:
                    ok = all(bool(ev(Hd, dict({s_: (False if s_[0] in "hk" else 0) for s_ in sy}, **{o: ov_ for o, ov_ in zip(os_, ovs)})))
                             for ovs in (ogrid))
                except Exception:
                    ok = False
                if not ok:
                    run.violation(fam, label, "%s/not-hard" % key, H.where(arm), "Expr::%s must be marked hard unconditionally (Expr::to_str cannot print it; the VM must interpret it), extracted hard=%s" % (variant, show(Hd)))
            if len(run.samples) < 30:
                run.samples.append({"rule": "XFER/Analyzer::visit", "where": H.where(arm), "verdict": "sound" if not cex else "unsound",
                                    "obligation": "Expr::%s: min=%s const=%s hard=%s" % (key, show(M_), show(K_), show(Hd))})
    # exhaustiveness against the Expr ADT
    expr_adt = [a for p, a in ctx.facts.adts.items() if strip_generics(p) == "Expr"]
    if expr_adt:
        allv = {v["name"] for v in expr_adt[0]["variants"]}
        missing = allv - seen_variants
        if missing:
            run.violation(fam, label, "missing-variants", w, "Analyzer::visit has no explicit arm for Expr variants %s" % sorted(missing))
    # the Assertion arm with the is_hard guard
    run.floor(fam, label, w, n_arms, 17, "Expr variant arms of Analyzer::visit")
    run.count("xfer_grid_valuations", n_grid)
    run.ok(fam, label, w, n_arms, "%d arms extracted; lower-bound / constancy / hardness checked on %d child-fact valuations" % (n_arms, n_grid))


def backref_validity(run, ctx):
    """Backref / BackrefExistsCondition arms reject forward references identically (sibling contradiction)."""
    fam, label = "XFER", "backref-validity"
    fn = S.get_fn(run, ctx, "analyze::Analyzer::visit", fam, label)
    if fn is None:
        return
    ms = H.match_arms_on(_role_names(fn["body"]), "Expr")
    m = max(ms, key=lambda x: len(x["arms"]))
    conds = {}
    for arm in m["arms"]:
        for v in H.arm_variants(arm, "Expr"):
            if v in ("Backref", "BackrefExistsCondition"):
                ifs = [nd for nd in H.walk(arm["body"]) if nd.get("k") == "If" and H.canon(nd["then"]).startswith("return Err(")]
                g = [p_["name"] for p_ in H.walk(arm["pat"]) if p_.get("k") == "Binding"]
                rej, errv = (H.canon(ifs[0]["cond"]), H.canon(ifs[0]["then"])) if ifs else (None, None)
                if not ifs:
                    # `if ok { .. } else { return Err(..) }`: what is rejected is the negation of the condition
                    ifs2 = [nd for nd in H.walk(arm["body"]) if nd.get("k") == "If" and nd.get("else") is not None and H.canon(H.peel(nd["else"])).startswith("return Err(")]
                    if ifs2:
                        cc = H.peel(ifs2[0]["cond"])
                        neg = {"Lt": "Ge", "Le": "Gt", "Gt": "Le", "Ge": "Lt", "Eq": "Ne", "Ne": "Eq"}
                        if cc.get("k") == "Binary" and cc.get("op") in neg:
                            rej, errv = H.canon(dict(cc, op=neg[cc["op"]])), H.canon(H.peel(ifs2[0]["else"]))
                            ifs = ifs2
                conds[v] = (__import__("re").sub(r"(?<![\w.])%s(?!\w)" % __import__("re").escape(g[0]), "G", rej) if ifs and g else None, errv if ifs else None, H.where(arm))
    for v in ("Backref", "BackrefExistsCondition"):
        if v not in conds or conds[v][0] is None:
            run.violation(fam, label, "no-check/" + v, conds.get(v, (None, None, H.where(fn)))[2], "Expr::%s: no validity check of the referenced group against the groups opened so far" % v)
            continue
        c, th, wh = conds[v]
        if c != "(self.group_ix <= G)":
            run.violation(fam, label, "check/" + v, wh, "Expr::%s must reject exactly `group >= group_ix` (a reference to a group not opened yet would read a slot pair outside the allocated captures / of a later group); found %s" % (v, c))
        elif "InvalidBackref" not in th:
            run.violation(fam, label, "error/" + v, wh, "Expr::%s must fail with InvalidBackref" % v)
    run.ok(fam, label, H.where(fn), 2, "both reject group >= group_ix with InvalidBackref")
