"""Self-tests of the rules: seeded variants of /repo on which a named rule must fire, and
behaviour-preserving variants on which every rule must stay silent (thorough tier)."""
import json
import os
import shutil
import subprocess
import tempfile

from facts import VERIF, REPO


def _load():
    p = os.path.join(VERIF, "selftest", "variants.json")
    out = []
    if os.path.exists(p):
        with open(p) as fh:
            out = json.load(fh)["variants"]
    # seeded changes written by independent sub-agents: every check recorded as catching one must keep doing so
    sd = os.path.join(VERIF, "seeded")
    if os.path.isdir(sd):
        for sid in sorted(os.listdir(sd)):
            mp = os.path.join(sd, sid, "meta.json")
            if not os.path.exists(mp):
                continue
            try:
                meta = json.load(open(mp))
            except ValueError:
                continue
            if not meta.get("confirmed"):
                continue
            out.append({"id": "seed-" + sid, "patch": os.path.join("seeded", sid, "patch.diff"),
                        "must_fire": list(meta.get("checks_reporting_a_violation", [])), "expect": ""})
    return out


def _copy_repo(dst):
    for item in ("src", "Cargo.toml", "Cargo.lock", "benches", "examples", "tests"):
        s = os.path.join(REPO, item)
        if os.path.isdir(s):
            shutil.copytree(s, os.path.join(dst, item))
        elif os.path.exists(s):
            shutil.copy(s, os.path.join(dst, item))


def _apply(d, edits):
    import re as _re
    for e in edits:
        p = os.path.join(d, e["file"])
        s = open(p).read()
        if "regex" in e:
            s2, n = _re.subn(e["regex"], e["repl"], s, flags=_re.S)
            if n < e.get("min", 1):
                return False
            open(p, "w").write(s2)
            continue
        old, new = e["old"], e["new"]
        occ = e.get("occurrence")
        n = s.count(old)
        if n == 0 or (occ is None and n != 1) or (occ is not None and occ >= n):
            return False
        if occ is None:
            s = s.replace(old, new)
        else:
            parts = s.split(old)
            s = old.join(parts[:occ + 1]) + new + old.join(parts[occ + 1:])
        open(p, "w").write(s)
    return True


def run_variant(v, props):
    """Returns dict prop -> (exit code, violation lines)."""
    d = tempfile.mkdtemp(prefix="frx-selftest.")
    try:
        _copy_repo(d)
        if v.get("patch"):
            r = subprocess.run(["patch", "-p1", "-s", "-d", d, "-i", os.path.join(VERIF, v["patch"])],
                               stdout=subprocess.PIPE, stderr=subprocess.STDOUT, text=True)
            if r.returncode != 0:
                return None
        elif not _apply(d, v["edits"]):
            return None
        out = {}
        env = dict(os.environ, FRX_REPO=d, VERIF_TIER="quick")
        for pr in props:
            r = subprocess.run([os.path.join(VERIF, "check"), pr], env=env, stdout=subprocess.PIPE,
                               stderr=subprocess.STDOUT, text=True)
            out[pr] = (r.returncode, [l for l in r.stdout.split("\n") if "VIOLATION" in l and l.startswith("RULE")],
                       r.stdout[-600:] if r.returncode == 2 else "")
        return out
    finally:
        shutil.rmtree(d, ignore_errors=True)


def run_for(prop, jobs=8):
    from concurrent.futures import ThreadPoolExecutor
    vs = [v for v in _load() if prop in v.get("must_fire", []) or prop in v.get("must_stay_silent", [])]
    res = {"variants": len(vs), "fired": [], "silent": [], "skipped": [], "failed": []}
    if not vs:
        return res

    def one(v):
        return v, run_variant(v, [prop])
    with ThreadPoolExecutor(max_workers=jobs) as ex:
        for v, out in ex.map(one, vs):
            if out is None:
                res["skipped"].append(v["id"])
                continue
            code, lines, tail = out[prop]
            if code == 2:
                # the variant does not compile or the engine broke: not a verdict
                res["failed"].append(v["id"] + ":analysis-error")
                continue
            if prop in v.get("must_fire", []):
                want = v.get("expect", "")
                hit = [l for l in lines if want in l]
                if code == 1 and hit:
                    res["fired"].append(v["id"])
                else:
                    res["failed"].append(v["id"] + ":did-not-fire")
            else:
                if code == 0:
                    res["silent"].append(v["id"])
                else:
                    res["failed"].append(v["id"] + ":false-alarm")
    return res
