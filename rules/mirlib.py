"""MIR helpers: CFG, dominators, expression reconstruction, edge facts, prover, call graph."""
from facts import strip_generics

LEN_FNS = ("core::str::<impl str>::len", "core::slice::<impl [T]>::len", "std::vec::Vec::<T, A>::len",
           "std::string::String::len", "alloc::vec::Vec::<T, A>::len", "alloc::string::String::len")
TRANSPARENT_FNS = (
    "core::str::<impl str>::as_bytes", "std::string::String::as_str", "std::string::String::as_bytes",
    "std::vec::Vec::<T, A>::as_slice", "std::ops::Deref::deref", "std::ops::DerefMut::deref_mut",
    "std::convert::AsRef::as_ref", "std::borrow::Borrow::borrow", "alloc::string::String::as_str",
    "alloc::vec::Vec::<T, A>::as_slice", "std::vec::Vec::<T, A>::as_mut_slice",
)


def is_len_fn(path):
    p = path
    return p.endswith("::len") and ("str" in p or "slice" in p or "Vec" in p or "String" in p or "[T]" in p)


def is_transparent_fn(callee):
    fn = callee.get("fn", "")
    res = callee.get("resolved", "")
    for p in (fn, res):
        if p in TRANSPARENT_FNS:
            return True
    if fn in ("std::ops::Deref::deref", "std::ops::DerefMut::deref_mut", "std::convert::AsRef::as_ref"):
        return True
    return False


class Body:
    def __init__(self, raw):
        self.raw = raw
        self.path = raw["path"]
        self.blocks = raw["blocks"]
        self.n = len(self.blocks)
        self.argc = raw["argc"]
        self.local_ty = {l["i"]: l["ty"] for l in raw["locals"]}
        self.names = {}
        self.upvars = {}          # closure bodies: captured variable index -> its name in the enclosing function
        for nm in raw["names"]:
            pl = nm["place"]
            if not pl.get("p"):
                self.names.setdefault(pl["l"], nm["name"])
            elif pl["l"] == 1 and "{closure" in raw["path"]:
                fl = [p for p in pl["p"] if p["k"] != "Deref"]
                if len(fl) == 1 and fl[0]["k"] == "Field":
                    self.upvars.setdefault(fl[0]["i"], nm["name"])
        self.succ = [self._succ(b["term"]) for b in self.blocks]
        self.pred = [[] for _ in range(self.n)]
        for i, ss in enumerate(self.succ):
            for s in ss:
                self.pred[s].append(i)
        self.cleanup = [bool(b.get("cleanup")) for b in self.blocks]
        self._defs = None
        self._dom = None
        self._reach_cache = {}
        self._expr_cache = {}
        self._alias_cache = {}

    def _succ(self, t):
        k = t["k"]
        if k == "Goto":
            return [t["target"]]
        if k == "SwitchInt":
            return [x[1] for x in t["targets"]] + [t["otherwise"]]
        if k in ("Call", "Drop", "Assert"):
            return [t["target"]] if "target" in t else []
        if k == "OtherTerm":
            return t.get("succ", [])
        return []

    # ---- definitions ------------------------------------------------------------------
    @property
    def defs(self):
        if self._defs is None:
            d = {}
            for bi, b in enumerate(self.blocks):
                for si, s in enumerate(b["stmts"]):
                    if s["k"] == "Assign":
                        pl = s["place"]
                        d.setdefault(pl["l"], []).append((bi, si, "stmt", s, bool(pl.get("p"))))
                t = b["term"]
                if t["k"] == "Call":
                    pl = t["dest"]
                    d.setdefault(pl["l"], []).append((bi, len(b["stmts"]), "call", t, bool(pl.get("p"))))
            self._defs = d
        return self._defs

    def single_def(self, l):
        ds = self.defs.get(l, [])
        if len(ds) == 1 and not ds[0][4]:
            return ds[0]
        return None

    # ---- dominators ------------------------------------------------------------------
    @property
    def dom(self):
        if self._dom is None:
            n = self.n
            full = (1 << n) - 1
            dom = [full] * n
            dom[0] = 1
            # reverse postorder
            order = self.rpo()
            changed = True
            while changed:
                changed = False
                for b in order:
                    if b == 0:
                        continue
                    ps = [p for p in self.pred[b]]
                    if not ps:
                        nd = 1 << b
                    else:
                        nd = full
                        for p in ps:
                            nd &= dom[p]
                        nd |= 1 << b
                    if nd != dom[b]:
                        dom[b] = nd
                        changed = True
            self._dom = dom
        return self._dom

    def rpo(self):
        seen = [False] * self.n
        out = []
        stack = [(0, 0)]
        seen[0] = True
        while stack:
            b, i = stack.pop()
            if i < len(self.succ[b]):
                stack.append((b, i + 1))
                s = self.succ[b][i]
                if not seen[s]:
                    seen[s] = True
                    stack.append((s, 0))
            else:
                out.append(b)
        out.reverse()
        return out

    def dominates(self, a, b):
        return bool(self.dom[b] >> a & 1)

    def reachable_from(self, b, stop=None):
        key = (b, stop)
        if key in self._reach_cache:
            return self._reach_cache[key]
        seen = set()
        st = [b]
        while st:
            x = st.pop()
            if x in seen:
                continue
            seen.add(x)
            if x == stop:
                continue
            st.extend(self.succ[x])
        self._reach_cache[key] = seen
        return seen

    def can_reach(self, target, stop=None):
        key = ("rev", target, stop)
        if key in self._reach_cache:
            return self._reach_cache[key]
        seen = set()
        st = [target]
        while st:
            x = st.pop()
            if x in seen:
                continue
            seen.add(x)
            if x == stop:
                continue
            st.extend(self.pred[x])
        self._reach_cache[key] = seen
        return seen

    # ---- expression reconstruction ------------------------------------------------------
    def op(self, o, depth=0):
        k = o["k"]
        if k == "Const":
            if "fn" in o:
                return ("fn", o.get("resolved") or o["fn"])
            if "val" in o:
                return ("const", o["val"])
            return ("const", o.get("text", "?"))
        if k in ("Copy", "Move"):
            return self.place(o["place"], depth)
        return ("?",)

    def place(self, pl, depth=0):
        base = self.local(pl["l"], depth)
        first = True
        for pr in pl.get("p") or []:
            k = pr["k"]
            if k == "Deref":
                continue
            if k == "Field" and first and pl["l"] == 1 and self.upvars and pr["i"] in self.upvars and base[0] in ("var", "tmp"):
                # a captured variable: call it by the name it has in the enclosing function
                base = ("var", self.upvars[pr["i"]], ("upvar", pr["i"]))
                first = False
                continue
            first = False
            if k == "Field":
                name = pr.get("name", str(pr["i"]))
                if base and base[0] in ("AddWithOverflow", "SubWithOverflow", "MulWithOverflow") and pr["i"] == 0:
                    base = (base[0].replace("WithOverflow", ""), base[1], base[2])
                elif base and base[0] == "tuple" and pr["i"] < len(base[1]):
                    base = base[1][pr["i"]]
                else:
                    if pr.get("variant"):
                        name = pr["variant"] + "." + name
                    base = ("field", base, name, pr.get("adt", ""))
            elif k == "Index":
                base = ("index", base, self.local(pr["local"], depth))
            elif k == "ConstantIndex":
                base = ("index", base, ("const", pr["offset"]))
            elif k == "Downcast":
                continue
            elif k == "Subslice":
                base = ("subslice", base, pr["from"], pr["to"])
        return base

    def all_written_paths(self):
        if getattr(self, "_awp", None) is None:
            w = set()
            for b in self.blocks:
                for st in b["stmts"]:
                    if st["k"] == "Assign":
                        w.add(self._raw_path(st["place"]))
                        rv = st["rv"]
                        if rv["k"] == "Ref" and rv.get("mut"):
                            w.add(self._raw_path(rv["place"]))
                t = b["term"]
                if t["k"] == "Call":
                    w.add(self._raw_path(t["dest"]))
            self._awp = w
        return self._awp

    def _raw_path(self, pl):
        path = [pl["l"]]
        for pr in pl.get("p") or []:
            if pr["k"] == "Field":
                path.append(pr.get("name", str(pr["i"])))
            elif pr["k"] in ("Deref", "Downcast"):
                continue
            else:
                break
        return tuple(path)

    def alias_of(self, l):
        """If user variable l is a single-assignment alias of a pure path / length that is never
        written in this body, return that expression."""
        if l in self._alias_cache:
            return self._alias_cache[l]
        self._alias_cache[l] = None
        d = self.single_def(l)
        r = None
        if d is not None and l > self.argc:
            bi, si, kind, node, _ = d
            nm = self.names.pop(l)
            try:
                rhs = self.rvalue(node["rv"], 1) if kind == "stmt" else self.call_expr(node, 1)
            finally:
                self.names[l] = nm
            if rhs[0] in ("var", "field", "len") and self._pure_path(rhs):
                aps = access_paths(rhs)
                wp = self.all_written_paths()
                # the root must be a never-reassigned local and no prefix/extension of the path is written
                ok = True
                for ap in aps:
                    for w in wp:
                        if len(w) == 1 and w[0] == ap[0] and ap[0] <= self.argc:
                            continue  # argument locals are initialised by the caller, not assigned
                        if paths_conflict(ap, w):
                            ok = False
                if ok:
                    r = rhs
        self._alias_cache[l] = r
        return r

    def _pure_path(self, e):
        if e[0] == "var":
            return True
        if e[0] in ("field", "len"):
            return isinstance(e[1], tuple) and self._pure_path(e[1])
        return False

    def local(self, l, depth=0):
        if l in self.names:
            a = self.alias_of(l)
            if a is not None:
                return a
            return ("var", self.names[l], l)
        if depth > 12:
            return ("tmp", l)
        key = l
        if key in self._expr_cache:
            return self._expr_cache[key]
        d = self.single_def(l)
        if d is None:
            r = ("tmp", l)
        else:
            self._expr_cache[key] = ("tmp", l)  # cycle guard
            bi, si, kind, node, _ = d
            if kind == "stmt":
                r = self.rvalue(node["rv"], depth + 1)
            else:
                r = self.call_expr(node, depth + 1)
        self._expr_cache[key] = r
        return r

    def call_expr(self, t, depth=0):
        f = t["func"]
        args = [self.op(a, depth) for a in t["args"]]
        if f["k"] == "Const" and "fn" in f:
            name = f.get("resolved") or f["fn"]
            if is_len_fn(f["fn"]) or is_len_fn(name):
                return ("len", args[0])
            if is_transparent_fn(f) and len(args) == 1:
                return args[0]
            if f["fn"] == "std::ops::Index::index" or f["fn"] == "std::ops::IndexMut::index_mut":
                return ("index", args[0], args[1])
            return ("call", strip_generics(name), tuple(args))
        return ("call", "<indirect>", tuple([self.op(f, depth)] + args))

    def rvalue(self, rv, depth=0):
        k = rv["k"]
        if k == "Use":
            return self.op(rv["op"], depth)
        if k == "Ref" or k == "RawPtr":
            return self.place(rv["place"], depth)
        if k == "BinaryOp":
            return (rv["op"], self.op(rv["a"], depth), self.op(rv["b"], depth))
        if k == "UnaryOp":
            if rv["op"] == "PtrMetadata":
                return ("len", self.op(rv["a"], depth))
            return (rv["op"], self.op(rv["a"], depth))
        if k == "Cast":
            inner = self.op(rv["op"], depth)
            if rv["cast"].startswith("PointerCoercion") or rv["cast"] in ("Transmute", "PtrToPtr"):
                return inner
            return ("cast", inner, rv["ty"])
        if k == "Discriminant":
            return ("discr", self.place(rv["place"], depth))
        if k == "Aggregate":
            ops = tuple(self.op(o, depth) for o in rv["ops"])
            if rv["agg"] == "Tuple":
                return ("tuple", ops)
            if rv["agg"] == "Adt":
                nm = rv["adt"].split("::")[-1]
                if rv["variant"] != nm:
                    nm = nm + "::" + rv["variant"]
                return ("agg", nm, ops, tuple(rv.get("fields", [])))
            if rv["agg"] == "Closure":
                return ("closure", rv["closure"])
            return ("agg", rv["agg"], ops, ())
        if k == "Repeat":
            return ("repeat", self.op(rv["op"], depth))
        return ("?", rv.get("text", k))

    # ---- branch facts ---------------------------------------------------------------------
    def edge_facts(self):
        """List of (from_bb, to_bb, fact) for SwitchInt edges.  fact = (rel, a, b) or ('not', fact)."""
        out = []
        for bi, b in enumerate(self.blocks):
            t = b["term"]
            if t["k"] != "SwitchInt":
                continue
            d = self.op(t["discr"])
            tg = t["targets"]
            if d[0] in ("Lt", "Le", "Gt", "Ge", "Eq", "Ne") or d[0] in ("Not", "var", "call", "field", "tmp", "BitAnd", "BitOr") or True:
                # boolean switch: targets [[0, F]] otherwise T
                vals = [x[0] for x in tg]
                if vals == [0]:
                    out.append((bi, tg[0][1], ("false", d)))
                    out.append((bi, t["otherwise"], ("true", d)))
                    continue
                # integer / discriminant switch
                for v, bb in tg:
                    out.append((bi, bb, ("eqc", d, v)))
                out.append((bi, t["otherwise"], ("nec", d, tuple(vals))))
        return out


def show(e):
    if not isinstance(e, tuple):
        return str(e)
    k = e[0]
    if k == "var":
        return e[1]
    if k == "tmp":
        return "_%d" % e[1]
    if k == "const":
        v = e[1]
        if v == (1 << 64) - 1:
            return "MAX"
        return str(v)
    if k == "fn":
        return "fn:" + strip_generics(e[1])
    if k == "field":
        return "%s.%s" % (show(e[1]), e[2])
    if k == "index":
        return "%s[%s]" % (show(e[1]), show(e[2]))
    if k == "len":
        return "len(%s)" % show(e[1])
    if k == "call":
        return "%s(%s)" % (e[1], ", ".join(show(a) for a in e[2]))
    if k == "cast":
        return "(%s as %s)" % (show(e[1]), e[2])
    if k == "tuple":
        return "(%s)" % ", ".join(show(a) for a in e[1])
    if k == "agg":
        return "%s{%s}" % (e[1], ", ".join(show(a) for a in e[2]))
    if k == "discr":
        return "discr(%s)" % show(e[1])
    if k == "closure":
        return "closure:" + e[1]
    if len(e) == 3:
        return "%s(%s, %s)" % (k, show(e[1]), show(e[2]))
    if len(e) == 2:
        return "%s(%s)" % (k, show(e[1]))
    return str(e)


def roots(e, acc=None):
    """Root locals (ids) of variables mentioned in an expression."""
    if acc is None:
        acc = set()
    if isinstance(e, tuple):
        if e[0] == "var":
            acc.add(e[2])
        elif e[0] == "tmp":
            acc.add(e[1])
        else:
            for x in e[1:]:
                if isinstance(x, tuple):
                    roots(x, acc)
    return acc


def access_paths(e, acc=None):
    """Access paths (root_local, field, field, ...) of the variables / field chains mentioned in e."""
    if acc is None:
        acc = set()
    if isinstance(e, tuple) and e:
        p = _as_path(e)
        if p is not None:
            acc.add(p)
            return acc
        if e[0] in ("index", "subslice"):
            bp = _as_path(e[1])
            if bp is not None:
                acc.add(bp)
            else:
                access_paths(e[1], acc)
            for x in e[2:]:
                if isinstance(x, tuple):
                    access_paths(x, acc)
            return acc
        for x in e[1:]:
            if isinstance(x, tuple):
                if x and isinstance(x[0], tuple):
                    for y in x:
                        access_paths(y, acc)
                else:
                    access_paths(x, acc)
    return acc


def _as_path(e):
    if e[0] == "var":
        return (e[2],)
    if e[0] == "tmp":
        return (e[1],)
    if e[0] == "field":
        b = _as_path(e[1]) if isinstance(e[1], tuple) else None
        if b is None:
            return None
        return b + (e[2].split(".")[-1],)
    return None


def paths_conflict(a, b):
    n = min(len(a), len(b))
    return a[:n] == b[:n]


# ---------------------------------------------------------------------------------------------
# linear forms and a small difference-constraint prover over unsigned integers
# ---------------------------------------------------------------------------------------------

TERM_EXPR = {}


def _term(e):
    k = show(e)
    TERM_EXPR.setdefault(k, e)
    return k


def lin(e):
    """(terms dict str->coeff, const) for an integer expression."""
    if not isinstance(e, tuple):
        return ({}, 0)
    k = e[0]
    if k == "const" and isinstance(e[1], int):
        return ({}, e[1])
    if k in ("Add", "AddUnchecked", "AddWithOverflow", "Sub", "SubUnchecked", "SubWithOverflow"):
        a, b = lin(e[1]), lin(e[2])
        sign = 1 if k.startswith("Add") else -1
        t = dict(a[0])
        for kk, v in b[0].items():
            t[kk] = t.get(kk, 0) + sign * v
        return ({kk: v for kk, v in t.items() if v}, a[1] + sign * b[1])
    if k in ("Mul", "MulUnchecked", "MulWithOverflow"):
        a, b = lin(e[1]), lin(e[2])
        if not a[0]:
            a, b = b, a
        if not b[0]:
            m = b[1]
            return ({kk: v * m for kk, v in a[0].items() if v * m}, a[1] * m)
        return ({_term(e): 1}, 0)
    if k == "cast" and isinstance(e[1], tuple):
        # widening casts of unsigned ints preserve value
        return lin(e[1]) if ("usize" in e[2] or "u64" in e[2]) else ({_term(e): 1}, 0)
    return ({_term(e): 1}, 0)


def _norm(rel, a, b):
    """Return list of constraints (terms, c) meaning  sum(terms) <= c."""
    la, lb = lin(a), lin(b)
    t = dict(la[0])
    for kk, v in lb[0].items():
        t[kk] = t.get(kk, 0) - v
    t = {kk: v for kk, v in t.items() if v}
    c = lb[1] - la[1]
    neg = {kk: -v for kk, v in t.items()}
    if rel == "Lt":
        return [(t, c - 1)]
    if rel == "Le":
        return [(t, c)]
    if rel == "Gt":
        return [(neg, -c - 1)]
    if rel == "Ge":
        return [(neg, -c)]
    if rel == "Eq":
        return [(t, c), (neg, -c)]
    return []


def fact_constraints(fact):
    """Translate an edge fact into difference constraints (list of (terms, c)); also returns ne-facts."""
    kind = fact[0]
    cons, nes = [], []
    if kind in ("true", "false"):
        d = fact[1]
        pol = kind == "true"
        while isinstance(d, tuple) and d[0] == "Not":
            d = d[1]
            pol = not pol
        if isinstance(d, tuple) and d[0] in ("Lt", "Le", "Gt", "Ge", "Eq", "Ne"):
            rel = d[0]
            if not pol:
                rel = {"Lt": "Ge", "Le": "Gt", "Gt": "Le", "Ge": "Lt", "Eq": "Ne", "Ne": "Eq"}[rel]
            if rel == "Ne":
                nes.append((d[1], d[2]))
            else:
                cons.extend(_norm(rel, d[1], d[2]))
    elif kind == "eqc":
        cons.extend(_norm("Eq", fact[1], ("const", fact[2])))
    elif kind == "nec":
        for v in fact[2]:
            nes.append((fact[1], ("const", v)))
    return cons, nes


def prove(cons, nes, goal_rel, a, b, nonneg=True):
    """Does the conjunction of constraints imply `a goal_rel b` over non-negative integers?

    Handles constraints with at most two terms with coefficients +1/-1 (difference constraints) via
    Bellman-Ford; anything else participates only by syntactic identity."""
    goals = _norm(goal_rel, a, b) if goal_rel != "Ne" else None
    if goal_rel == "Ne":
        for (x, y) in nes:
            if _norm("Eq", x, y) == _norm("Eq", a, b) or _norm("Eq", y, x) == _norm("Eq", a, b):
                return True
        return prove_goals(cons, nes, _norm("Lt", a, b), nonneg) or prove_goals(cons, nes, _norm("Gt", a, b), nonneg)
    return prove_goals(cons, nes, goals, nonneg)


def prove_goals(cons, nes, goals, nonneg=True, ne_zero_terms=()):
    """Core: constraints and goals are lists of (terms dict, c) meaning sum(terms) <= c."""
    goal_rel = None
    if goal_rel == "Ne":
        # Ne provable from a stated Ne or from strict inequality either way
        for (x, y) in nes:
            if (show(x) == show(a) and show(y) == show(b)) or (show(x) == show(b) and show(y) == show(a)):
                return True
            # x != c with same linear difference
            if _norm("Eq", x, y) == _norm("Eq", a, b):
                return True
        return prove(cons, nes, "Lt", a, b, nonneg) or prove(cons, nes, "Gt", a, b, nonneg)
    # graph over variables; node "0" is the zero constant.  edge u->v weight w means v - u <= w.
    edges = []
    nodes = {"0"}

    def add(t, c):
        ks = list(t.items())
        if len(ks) == 0:
            return c >= 0  # trivially true/false
        if len(ks) == 1:
            (x, v), = ks
            nodes.add(x)
            if v == 1:
                edges.append(("0", x, c))       # x - 0 <= c
            elif v == -1:
                edges.append((x, "0", c))       # 0 - x <= c
            elif v > 1:
                edges.append(("0", x, c // v))
            elif v < -1:
                edges.append((x, "0", -((-c) // v)) if False else (x, "0", c // (-v)))
            return None
        if len(ks) == 2:
            (x, vx), (y, vy) = ks
            if vx == 1 and vy == -1:
                nodes.update((x, y))
                edges.append((y, x, c))         # x - y <= c
                return None
            if vx == -1 and vy == 1:
                nodes.update((x, y))
                edges.append((x, y, c))
                return None
        return None

    def add_relaxed(t, c):
        if len(t) <= 2:
            add(t, c)
            return
        if not nonneg:
            return
        # dropping a term with a positive coefficient weakens  sum <= c  soundly (all terms are >= 0)
        pos = [k for k, v in t.items() if v > 0]
        import itertools
        for r in range(1, len(pos) + 1):
            for drop in itertools.combinations(pos, r):
                t2 = {k: v for k, v in t.items() if k not in drop}
                if 1 <= len(t2) <= 2:
                    add(t2, c)

    for t, c in cons:
        add_relaxed(t, c)
    for t, c in goals:
        for x in t:
            nodes.add(x)
    if nonneg:
        for x in list(nodes):
            if x != "0":
                edges.append((x, "0", 0))      # 0 - x <= 0
    # Ne facts x != y combined with x <= y give x < y:  handled for the common pattern x != 0
    ne_zero = set(ne_zero_terms)
    for (x, y) in nes:
        lx, ly = lin(x), lin(y)
        if not ly[0] and ly[1] == 0 and len(lx[0]) == 1 and lx[1] == 0 and list(lx[0].values())[0] == 1:
            ne_zero.add(list(lx[0].keys())[0])
    if nonneg:
        for x in ne_zero:
            nodes.add(x)
            edges.append((x, "0", -1))         # 0 - x <= -1  i.e. x >= 1

    def shortest(src):
        dist = {n: float("inf") for n in nodes}
        dist[src] = 0
        for _ in range(len(nodes)):
            ch = False
            for u, v, w in edges:
                if dist[u] + w < dist[v]:
                    dist[v] = dist[u] + w
                    ch = True
            if not ch:
                break
        return dist

    for t, c in goals:
        ks = list(t.items())
        if not ks:
            if c < 0:
                return False
            continue
        if len(ks) == 1:
            (x, v), = ks
            if v == 1:
                if shortest("0")[x] > c:
                    return False
            elif v == -1:
                if shortest(x)["0"] > c:
                    return False
            else:
                return False
        elif len(ks) == 2:
            (x, vx), (y, vy) = ks
            if vx == 1 and vy == -1:
                if shortest(y)[x] > c:
                    return False
            elif vx == -1 and vy == 1:
                if shortest(x)[y] > c:
                    return False
            else:
                return False
        else:
            # syntactic: same constraint present
            if not any(t == t2 and c2 <= c for t2, c2 in cons):
                return False
    return True


# ---------------------------------------------------------------------------------------------
# facts that hold at a program point
# ---------------------------------------------------------------------------------------------

class PointFacts:
    def __init__(self, body):
        self.body = body
        self.edges = body.edge_facts()
        self._kill_cache = {}
        self._w_cache = {}

    def _place_path(self, pl):
        path = [pl["l"]]
        for pr in pl.get("p") or []:
            if pr["k"] == "Field":
                path.append(pr.get("name", str(pr["i"])))
            elif pr["k"] in ("Deref", "Downcast"):
                # a deref of a reference local: the write goes to what the reference points to
                if pr["k"] == "Deref" and len(path) == 1:
                    tgt = self.body.local(pl["l"]) if pl["l"] not in self.body.names else None
                    if tgt is not None:
                        tp = _as_path(tgt) if tgt[0] in ("var", "tmp", "field") else None
                        if tp is not None:
                            path = list(tp)
                continue
            else:
                break
        return tuple(path)

    def _writes_in_block(self, bi, lo=0, hi=None):
        """Access paths written (assigned, mutably borrowed, or passed as &mut) in statements [lo,hi)
        and, when hi is None, by the terminator."""
        key = (bi, lo, hi)
        if key in self._w_cache:
            return self._w_cache[key]
        b = self.body.blocks[bi]
        w = set()
        stmts = b["stmts"]
        hi_eff = len(stmts) if hi is None else hi
        for s in stmts[lo:hi_eff]:
            if s["k"] == "Assign":
                w.add(self._place_path(s["place"]))
        if hi is None:
            t = b["term"]
            if t["k"] == "Call":
                w.add(self._place_path(t["dest"]))
                for a in t["args"]:
                    if a["k"] in ("Copy", "Move"):
                        l = a["place"]["l"]
                        ty = self.body.local_ty.get(l, "")
                        if ty.startswith("&mut"):
                            src = self.body.local(l) if not a["place"].get("p") else self.body.place(a["place"])
                            w |= access_paths(src)
                            w.add((l,))
        self._w_cache[key] = w
        return w

    def holds_at(self, bi, si=None, _depth=0):
        """Collect (cons, nes, used_facts) valid at block bi before statement si (None = terminator)."""
        body = self.body
        cons, nes, used = [], [], []
        for (a, b, fact) in self.edges:
            if not body.dominates(b, bi):
                continue
            # edge must be the only way into b (ignoring back edges from blocks b dominates)
            ok = True
            for p in body.pred[b]:
                if p == a:
                    continue
                if body.dominates(b, p):
                    continue
                ok = False
                break
            # the same block may be the target of several edges of one switch: require uniqueness
            if not ok:
                continue
            if body.succ[a].count(b) > 1:
                continue
            if self._killed(fact, b, bi, si):
                continue
            c, n = fact_constraints(fact)
            if c or n:
                cons.extend(c)
                nes.extend(n)
                used.append((a, b, fact))
        # definitions of single-assignment user variables as equalities
        for l, nm in body.names.items():
            d = body.single_def(l)
            if d is None:
                continue
            dbi, dsi, kind, node, _ = d
            if not (body.dominates(dbi, bi) and (dbi != bi or (si is None or dsi < si))):
                continue
            rhs = body.rvalue(node["rv"]) if kind == "stmt" else body.call_expr(node)
            if rhs[0] in ("Add", "Sub", "AddWithOverflow", "SubWithOverflow", "Mul", "const", "len", "var", "field", "cast"):
                fact = ("def", ("var", nm, l), rhs)
                if self._killed(("true", ("Eq", ("var", nm, l), rhs)), dbi, bi, si, start_stmt=dsi + 1, ignore={l}):
                    # the operands change later: transfer what was known at the definition point
                    if _depth < 1:
                        tag = "@def%d" % l
                        dc, dn, _ = self.holds_at(dbi, dsi, _depth + 1)
                        v = ("var", nm, l)
                        vk = show(v)
                        kc = {}

                        def rn(k):
                            if k == vk or "@def" in k:
                                return k
                            if k not in kc:
                                ex = TERM_EXPR.get(k)
                                kc[k] = ex is None or self._killed(("true", ex), dbi, bi, si, start_stmt=dsi + 1)
                            return k + tag if kc[k] else k
                        for t, c in dc:
                            cons.append(({rn(k): cv for k, cv in t.items()}, c))
                        for t, c in _norm("Eq", v, rhs):
                            cons.append(({rn(k): cv for k, cv in t.items()}, c))
                        used.append((dbi, dbi, fact))
                    continue
                cons.extend(_norm("Eq", ("var", nm, l), rhs))
                used.append((dbi, dbi, fact))
        return cons, nes, used

    def _killed(self, fact, from_b, to_b, to_si, start_stmt=0, ignore=()):
        """Is a fact established on entry to from_b (or after statement start_stmt-1 of from_b) possibly
        invalidated before the program point (to_b, to_si)?  from_b dominates to_b, so any path that
        leaves the region re-enters through from_b and re-establishes the fact."""
        body = self.body
        exprs = [x for x in fact[1:] if isinstance(x, tuple)]
        rs = set()
        for e in exprs:
            access_paths(e, rs)
        rs = {p for p in rs if not (len(p) == 1 and p[0] in ignore)}
        if not rs:
            return False
        key = (from_b, to_b)
        reg = self._kill_cache.get(key)
        if reg is None:
            fwd = body.reachable_from(from_b, stop=to_b)
            back = body.can_reach(to_b, stop=from_b)
            region = fwd & back
            # cycles through to_b that avoid from_b: the rest of to_b and the cycle body also run
            cyc = False
            extra = set()
            if to_b != from_b:
                for s in body.succ[to_b]:
                    r = body.reachable_from(s, stop=from_b)
                    if to_b in r and s != from_b:
                        cyc = True
                        extra |= (r & body.can_reach(to_b, stop=from_b))
            else:
                cyc = to_b in body.reachable_from_succ(to_b) if hasattr(body, "reachable_from_succ") else False
            reg = (region | extra, cyc)
            self._kill_cache[key] = reg
        region, cyc = reg
        nst = len(body.blocks[to_b]["stmts"])
        for bi in region:
            if bi == to_b and bi == from_b:
                if cyc:
                    w = self._writes_in_block(bi)
                else:
                    w = self._writes_in_block(bi, start_stmt, to_si if to_si is not None else nst)
            elif bi == to_b:
                w = self._writes_in_block(bi) if cyc else self._writes_in_block(bi, 0, to_si if to_si is not None else nst)
            elif bi == from_b:
                w = self._writes_in_block(bi, start_stmt)
            else:
                w = self._writes_in_block(bi)
            for wp in w:
                for rp in rs:
                    if paths_conflict(wp, rp):
                        return True
        return False


# ---------------------------------------------------------------------------------------------
# call graph
# ---------------------------------------------------------------------------------------------

class CallGraph:
    def __init__(self, facts):
        self.facts = facts
        self.bodies = {p: Body(b) for p, b in facts.mir.items()}
        # trait method -> local impls
        self.trait_impls = {}
        for im in facts.impls:
            for it in im["items"]:
                ti = it.get("trait_item")
                if ti:
                    self.trait_impls.setdefault(ti, []).append(it["path"])
        self.edges = {}
        self.calls = {}   # caller -> list of (callee path (local or not), bb index, term)
        for p, body in self.bodies.items():
            es = set()
            cl = []
            for bi, b in enumerate(body.blocks):
                for s in b["stmts"]:
                    if s["k"] == "Assign":
                        rv = s["rv"]
                        if rv["k"] == "Aggregate" and rv.get("agg") == "Closure":
                            es.add(rv["closure"])
                        # function items used as values (fn pointers / passed to higher-order fns)
                        for o in self._operands(rv):
                            if o.get("k") == "Const" and "fn" in o and o.get("local"):
                                es.add(o.get("resolved") or o["fn"])
                t = b["term"]
                if t["k"] in ("Call", "TailCall"):
                    f = t["func"]
                    if f["k"] == "Const" and "fn" in f:
                        tgt = f.get("resolved") or f["fn"]
                        cl.append((tgt, bi, t))
                        if f.get("resolved"):
                            if f.get("resolved_local"):
                                es.add(f["resolved"])
                        elif f.get("local"):
                            if f.get("unresolved_trait_method") or (f.get("trait") and f["fn"] in self.trait_impls and f["fn"] not in self.bodies):
                                for im in self.trait_impls.get(f["fn"], []):
                                    es.add(im)
                                if f["fn"] in self.bodies:
                                    es.add(f["fn"])
                            else:
                                es.add(f["fn"])
                                if f["fn"] in self.trait_impls:
                                    for im in self.trait_impls[f["fn"]]:
                                        es.add(im)
                    for a in t["args"]:
                        if a.get("k") == "Const" and "fn" in a and a.get("local"):
                            es.add(a.get("resolved") or a["fn"])
                        if a.get("k") == "Const" and "closure" in a:
                            es.add(a["closure"])
            self.edges[p] = {e for e in es if e in self.bodies}
            self.calls[p] = cl

    @staticmethod
    def _operands(rv):
        for key in ("op", "a", "b"):
            if key in rv and isinstance(rv[key], dict):
                yield rv[key]
        for o in rv.get("ops", []) or []:
            yield o

    def reachable(self, entries):
        seen = set()
        st = [e for e in entries if e in self.bodies]
        while st:
            x = st.pop()
            if x in seen:
                continue
            seen.add(x)
            st.extend(self.edges.get(x, ()))
        return seen

    def sccs(self):
        """Tarjan SCCs (iterative) over local bodies."""
        index = {}
        low = {}
        onstack = set()
        stack = []
        out = []
        counter = [0]
        for root in self.bodies:
            if root in index:
                continue
            work = [(root, iter(sorted(self.edges.get(root, ()))))]
            index[root] = low[root] = counter[0]
            counter[0] += 1
            stack.append(root)
            onstack.add(root)
            while work:
                v, it = work[-1]
                adv = False
                for w in it:
                    if w not in index:
                        index[w] = low[w] = counter[0]
                        counter[0] += 1
                        stack.append(w)
                        onstack.add(w)
                        work.append((w, iter(sorted(self.edges.get(w, ())))))
                        adv = True
                        break
                    elif w in onstack:
                        low[v] = min(low[v], index[w])
                if adv:
                    continue
                work.pop()
                if work:
                    u = work[-1][0]
                    low[u] = min(low[u], low[v])
                if low[v] == index[v]:
                    comp = []
                    while True:
                        w = stack.pop()
                        onstack.discard(w)
                        comp.append(w)
                        if w == v:
                            break
                    out.append(comp)
        return out
