#!/usr/bin/env python3
"""Debug helper: show canonical form / paths / MIR of a function."""
import sys
sys.path.insert(0, __import__('os').path.dirname(__file__))
from facts import get_facts, strip_generics
import hirlib as H

def main():
    facts, info = get_facts()
    what, name = sys.argv[1], sys.argv[2]
    for p, b in facts.hir.items():
        if strip_generics(p) == name or strip_generics(p).endswith("::" + name):
            print("==", p)
            if what == "canon":
                print(H.canon(b["body"]).replace("; ", ";\n  "))
            elif what == "paths":
                for o in H.enum_paths(b["body"]):
                    print("-", o.show())
if __name__ == "__main__":
    main()
