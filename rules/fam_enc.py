"""ENC / SLOT: tables that must agree across components (C01, C02, C03, C16, C17)."""
import glob
import os
import re

import hirlib as H
import shape as S
import fam_vm
from facts import strip_generics


def _expr_arms(fn):
    ms = H.match_arms_on(fn["body"], "Expr")
    if not ms:
        return None, {}
    m = max(ms, key=lambda x: len(x["arms"]))
    arms = {}
    for a in m["arms"]:
        for v in H.arm_variants(a, "Expr"):
            arms.setdefault(v, []).append(a)
    return m, arms


# ---------------------------------------------------------------------------------------------
# opcodes
# ---------------------------------------------------------------------------------------------

def opcode_rule(run, ctx):
    fam, label = "ENC", "opcodes"
    fn = fam_vm.vm_run(run, ctx, fam, label)
    if fn is None:
        return
    insn = [a for p, a in ctx.facts.adts.items() if strip_generics(p) == "vm::Insn"]
    if len(insn) != 1:
        run.violation(fam, label, "anchor-missing/Insn", "src/vm.rs", "anchor-missing: enum vm::Insn")
        return
    allv = [v["name"] for v in insn[0]["variants"]]
    m = fam_vm.insn_match(fn)
    if m is None:
        run.violation(fam, label, "anchor-missing/match", H.where(fn), "anchor-missing: match on Insn in vm::run")
        return
    handled = set()
    for a in m["arms"]:
        if H.is_wild_arm(a):
            run.violation(fam, label, "wildcard", H.where(a), "wildcard arm in vm::run's match on Insn: an instruction would be silently skipped")
        handled |= set(H.arm_variants(a, "vm::Insn"))
    for v in allv:
        if v not in handled:
            run.violation(fam, label, "unhandled/" + v, H.where(m), "Insn::%s has no arm in vm::run" % v)
    # every variant the compiler constructs is handled
    built = set()
    for path, f2 in ctx.facts.hir.items():
        if not strip_generics(path).startswith("compile::"):
            continue
        for nd in H.walk(f2["body"]):
            if nd.get("k") in ("Struct", "Path") and nd.get("adt", "").endswith("vm::Insn") and nd.get("variant"):
                built.add(nd["variant"])
            if nd.get("k") == "Call":
                f = H.peel(nd["f"])
                if f.get("adt", "").endswith("vm::Insn") and f.get("variant"):
                    built.add(f["variant"])
    for v in sorted(built - handled):
        run.violation(fam, label, "built-unhandled/" + v, "src/compile.rs", "the compiler emits Insn::%s but vm::run does not handle it" % v)
    run.floor(fam, label, H.where(m), len(handled), 20, "Insn variants handled by vm::run")
    run.ok(fam, label, H.where(m), len(allv), "%d Insn variants, all handled without wildcard; compiler emits %d of them" % (len(allv), len(built)))


# ---------------------------------------------------------------------------------------------
# assertions: parser / to_str / VM
# ---------------------------------------------------------------------------------------------

ASSERT_TABLE = {
    # variant canon : (to_str output or None if hard, LookMatcher method)
    "Assertion::StartText": ("^", "is_start"),
    "Assertion::EndText": ("$", "is_end"),
    "Assertion::StartLine{crlf:false}": ("(?m:^)", "is_start_lf"),
    "Assertion::EndLine{crlf:false}": ("(?m:$)", "is_end_lf"),
    "Assertion::StartLine{crlf:true}": ("(?Rm:^)", "is_start_crlf"),
    "Assertion::EndLine{crlf:true}": ("(?Rm:$)", "is_end_crlf"),
    "Assertion::LeftWordBoundary": (None, "is_word_start_unicode"),
    "Assertion::RightWordBoundary": (None, "is_word_end_unicode"),
    "Assertion::WordBoundary": (None, "is_word_unicode"),
    "Assertion::NotWordBoundary": (None, "is_word_unicode_negate"),
}


def assertion_rule(run, ctx):
    fam, label = "ENC", "assertions"
    n = 0
    # VM column
    fn = fam_vm.vm_run(run, ctx, fam, label)
    if fn is None:
        return
    a = fam_vm.insn_arms(fn).get("Assertion")
    if not a:
        run.violation(fam, label, "anchor-missing/vm-arm", H.where(fn), "anchor-missing: Assertion arm in vm::run")
        return
    inner = H.match_arms_on(a[0]["body"], "Assertion")
    if not inner:
        run.violation(fam, label, "anchor-missing/vm-match", H.where(a[0]), "anchor-missing: match on Assertion in vm::run")
        return
    vm_col = {}
    table_form = 0
    for arm in inner[0]["arms"]:
        if H.is_wild_arm(arm):
            run.violation(fam, label, "vm-wildcard", H.where(arm), "wildcard arm in the VM's match on Assertion")
            continue
        vm_col[H.pat_canon(arm["pat"])] = (H.canon(arm["body"]), arm)
    for var, (ts, meth) in ASSERT_TABLE.items():
        if var not in vm_col:
            # crlf variants may be unreachable if the parser never builds them, but the VM must not lack an arm
            run.violation(fam, label, "vm-missing/" + var, H.where(inner[0]), "the VM has no arm for %s" % var)
            continue
        body, arm = vm_col[var]
        n += 1
        want = "look_matcher.%s(s,ix)" % meth
        # the same decision as a table entry: the regex-automata `Look` that LookMatcher::matches evaluates
        look = "Look::" + "".join(w_.upper() if w_ in ("lf", "crlf") else w_.capitalize() for w_ in meth[3:].split("_"))
        if body == look or body.endswith("::" + look):
            table_form += 1
            continue
        if not (body == want or body == want + ".unwrap()"):
            run.violation(fam, label, "vm/" + var, H.where(arm), "%s must be decided by LookMatcher::%s at (s, ix) (or its table entry %s), found %s" % (var, meth, look, body))
    if table_form:
        # the table's value must be what the matcher is asked, at (s, ix)
        calls = [H.canon(nd) for nd in H.walk(a[0]["body"]) if nd.get("k") == "MethodCall" and nd["name"] == "matches" and H.canon(nd["recv"]) == "look_matcher"]
        okc = len(calls) == 1 and re.match(r"^look_matcher\.matches\((.*),s,ix\)$", calls[0])
        src = okc.group(1) if okc else None
        mt = H.canon(inner[0])
        lets_ = {nd["pat"]["name"]: H.canon(nd["init"]) for nd in H.walk(a[0]["body"]) if nd.get("k") == "Let" and nd["pat"].get("k") == "Binding" and nd.get("init") is not None}
        if not okc or not (src == mt or lets_.get(src) == mt):
            run.violation(fam, label, "vm-table-use", H.where(a[0]), "the Look chosen for the assertion must be what look_matcher.matches is asked at (s, ix), found %s" % calls)
    # the VM fails the thread iff the assertion is false
    c = H.canon(a[0]["body"])
    # path-based: on every path the look-matcher's answer decides: false -> fail, true -> go on
    pol = {True: 0, False: 0}
    pbad = None
    for p in S.paths_of(a[0]["body"]):
        sm = S.Summary(p)
        ans = [(t, tr) for t, tr, _, _ in sm.conds if "look_matcher." in t]
        if not ans:
            pbad = "a path does not consult the look-matcher"
            break
        t, tr = ans[-1]
        failing = p.exit == "break" and p.label == "'fail"
        if (tr and failing) or (not tr and not failing) or any(ev.kind == "assign" for ev in p.events):
            pbad = "polarity: %s is %s but the thread %s" % (t[:40], tr, "fails" if failing else "continues")
            break
        pol[bool(tr)] += 1
    if pbad or min(pol.values()) < 1:
        run.violation(fam, label, "vm-polarity", H.where(a[0]), "the Assertion arm must fail exactly when the look-matcher answers false (%s; found %s...)" % (pbad or pol, c[:60]))
    # to_str column
    ts_fn = S.get_fn(run, ctx, "Expr::to_str", fam, label)
    if ts_fn is None:
        return
    m = max(H.match_arms_on(ts_fn["body"], "Expr"), key=lambda x: len(x["arms"]))
    ts_col = {}
    for arm in m["arms"]:
        pc = H.pat_canon(arm["pat"])
        mm = re.match(r"^Expr::Assertion\((.*)\)$", pc)
        if mm:
            for alt in mm.group(1).split("|"):
                mv = re.match(r"^(Assertion::\w+)\{crlf:([a-z_]\w*)\}$", alt)
                if mv and mv.group(2) not in ("true", "false"):
                    # one arm for both line-ending modes, decided by a test of the bound field
                    for p in S.paths_of(arm["body"]):
                        tr = [ev.b for ev in p.events if ev.kind == "cond" and ev.a == mv.group(2)]
                        calls = [ev.a for ev in p.events if ev.kind == "call" and ev.a.startswith("buf.push")]
                        if tr and calls:
                            ts_col["%s{crlf:%s}" % (mv.group(1), "true" if tr[-1] else "false")] = (calls[-1], arm)
                else:
                    ts_col[alt] = (H.canon(arm["body"]), arm)
    is_hard = S.get_fn(run, ctx, "Assertion::is_hard", fam, label)
    hard_set = set()
    if is_hard is not None:
        for nd in H.walk(is_hard["body"]):
            if nd.get("k") == "Match":
                for arm in nd["arms"]:
                    if H.canon(arm["body"]) == "true":
                        for pv in H.pat_canon(arm["pat"]).split("|"):
                            hard_set.add(pv)
    for var, (ts, meth) in ASSERT_TABLE.items():
        n += 1
        short = var
        if ts is None:
            if short not in hard_set and short.split("{")[0] not in hard_set:
                run.violation(fam, label, "not-hard/" + var, H.where(is_hard) if is_hard else "src/lib.rs", "%s is not printable by to_str and must be reported hard by Assertion::is_hard" % var)
            continue
        if short in hard_set:
            continue  # conservatively interpreted by the VM: fine
        if var not in ts_col:
            run.violation(fam, label, "to_str-missing/" + var, H.where(ts_fn), "%s is not hard but Expr::to_str has no arm for it (panic `attempting to format hard expr`)" % var)
            continue
        body, arm = ts_col[var]
        want1 = "buf.push('%s')" % ts
        want2 = 'buf.push_str("%s")' % ts
        if body not in (want1, want2):
            run.violation(fam, label, "to_str/" + var, H.where(arm), "%s must be re-serialised as `%s` for the automata engine (which gives it the meaning LookMatcher::%s has in the VM), found %s" % (var, ts, meth, body))
    run.ok(fam, label, "src/vm.rs", n, "%d assertion kinds x {to_str / is_hard, LookMatcher method} agree" % len(ASSERT_TABLE))

    # Any / AnyNoNL
    anys = [arm for arm in m["arms"] if H.pat_canon(arm["pat"]).startswith("Expr::Any")]
    ok = False
    for arm in anys:
        b = H.canon(arm["body"])
        if H.pat_match('buf.push_str(if {n} {"(?s:.)"} else {"."})', b):
            ok = True
    if not ok:
        run.violation(fam, "any", "to_str", H.where(ts_fn), "Expr::Any{newline} must be re-serialised as (?s:.) / . (found %s)" % [H.canon(a_["body"]) for a_ in anys])
    else:
        run.ok(fam, "any", H.where(ts_fn), 1, "Any{newline:true} <-> (?s:.) <-> Insn::Any;  Any{newline:false} <-> . <-> Insn::AnyNoNL")


def any_arms_rule(run, ctx):
    """VM arms Any / AnyNoNL / Lit / GoBack / ContinueFromPreviousMatchEnd / BackrefExistsCondition (C05/C13/C15)."""
    fam, label = "VMARM", "stepping"
    fn = fam_vm.vm_run(run, ctx, fam, label)
    if fn is None:
        return
    arms = fam_vm.insn_arms(fn)
    POS = [p.get("name") for p in fn["params"]][2]
    n = 0
    for var, extra in (("Any", None), ("AnyNoNL", "s[ix] != b'\\n'")):
        a = arms.get(var)
        if not a:
            run.violation(fam, label, "anchor-missing/" + var, H.where(fn), "anchor-missing: %s arm" % var)
            continue
        for p in fam_vm.fpaths(a[0]["body"]):
            n += 1
            adv = [ev for ev in p.events if ev.kind == "assign" and ev.a == "ix"]
            first_adv = next((i for i, ev in enumerate(p.events) if ev.kind == "assign" and ev.a == "ix"), None)
            pf = S.PathFacts(p.events, first_adv)
            inside = pf.proves("Lt", "ix", ({"len(s)": 1}, 0))
            outside = pf.proves("Ge", "ix", ({"len(s)": 1}, 0))
            # newline test, any spelling of  s.as_bytes()[ix] ==/!= b'\n'
            isnl = None
            for ev in p.events:
                if ev.kind == "cond":
                    m_ = re.match(r"^\((.*) (==|!=) (.*)\)$", ev.a or "")
                    if m_ and {m_.group(1), m_.group(3)} == {"b'\\x0a'", "s[ix]"}:
                        isnl = ev.b if m_.group(2) == "==" else (not ev.b)
            failed = p.exit == "break"
            if not inside and not outside:
                run.violation(fam, label, var + "/no-bound", H.where(a[0]), "Insn::%s must test ix < s.len()" % var)
                continue
            if var == "AnyNoNL" and inside and isnl is None:
                run.violation(fam, label, var + "/no-newline-test", H.where(a[0]), "Insn::AnyNoNL must reject a newline byte")
                continue
            should_match = inside and (var == "Any" or isnl is False)
            if should_match:
                if failed or len(adv) != 1 or adv[0].b != "+=" or adv[0].c not in ("codepoint_len_at(s,ix)", "codepoint_len(s[ix])"):
                    run.violation(fam, label, var + "/step", H.where(a[0]), "Insn::%s must advance ix by the code point length at ix (found %s)" % (var, [(e.b, e.c) for e in adv]))
            else:
                if not failed or adv:
                    run.violation(fam, label, var + "/fail", H.where(a[0]), "Insn::%s must fail without moving at the end of the text%s" % (var, " or on a newline" if var == "AnyNoNL" else ""))
    # Lit / Backref: compare byte-wise at ix with matches_literal(s, ix, ix + len(L), L); on success ix = that end, on
    # failure fail without moving (path summaries: independent of statement order, temporaries, parameter order)
    def compare_advance(arm, var, lit_ok):
        nonlocal n
        okp = {"match": 0, "fail": 0}
        for p in fam_vm.fpaths(arm["body"]):
            sm = S.Summary(p, ("state.",))
            cmp_ = None
            for text, truth, node, env in sm.conds:
                for nd in H.walk(node):
                    if nd.get("k") == "Call" and str(H.peel(nd["f"]).get("def", "")).endswith("matches_literal"):
                        cmp_ = (S.named_args(ctx, nd, env), truth, env)
            failing = p.exit == "break" and p.label == "'fail"
            if cmp_ is None:
                if not failing or "ix" in sm.final:
                    run.violation(fam, label, var + "/no-compare", H.where(arm), "Insn::%s: a path continues without comparing the text at ix (%s)" % (var, p.show()[:140]))
                    return
                continue
            na, truth, env = cmp_
            if na is None or na.get("s") != "s" or na.get("ix") != "ix" or na.get("end") not in ("(ix + len(%s))" % na.get("literal"), "(len(%s) + ix)" % na.get("literal")) or not lit_ok(na.get("literal"), sm):
                run.violation(fam, label, var + "/compare-args", H.where(arm), "Insn::%s must compare the %s byte-wise at ix over exactly its length: matches_literal(s, ix, ix + len(L), L); found %s" % (var, "literal" if var == "Lit" else "referenced text", na))
                return
            if truth:
                if failing or sm.final.get("ix") != na["end"]:
                    run.violation(fam, label, var + "/advance", H.where(arm), "Insn::%s must advance ix to the end of the compared text after a successful comparison (found ix = %s)" % (var, sm.final.get("ix")))
                    return
                okp["match"] += 1
            else:
                if not failing or "ix" in sm.final:
                    run.violation(fam, label, var + "/mismatch", H.where(arm), "Insn::%s must fail without moving ix when the text differs" % var)
                    return
                okp["fail"] += 1
        n += 1
        if min(okp.values()) < 1:
            run.violation(fam, label, var + "/anchor-missing", H.where(arm), "anchor-missing: Insn::%s needs a matching and a failing outcome (found %s)" % (var, okp))

    a = arms.get("Lit")
    if a:
        v = H.pat_match("Insn::Lit({v})", H.pat_canon(a[0]["pat"]))
        V = v.group("v") if v else "val"
        compare_advance(a[0], "Lit", lambda lit, sm: lit == V)
    else:
        run.violation(fam, label, "anchor-missing/Lit", H.where(fn), "anchor-missing: Lit arm")
    ml = S.get_fn(run, ctx, "vm::matches_literal", fam, label)
    if ml is not None:
        c = H.canon(H.peel(ml["body"]))
        n += 1
        if c not in ("((end <= len(s)) && (s[ix..end] == literal))", "((end <= len(s)) && (literal == s[ix..end]))"):
            run.violation(fam, label, "matches_literal", H.where(ml), "matches_literal must be `end <= s.len() && s.as_bytes()[ix..end] == literal.as_bytes()`, found %s" % c)
    # Backref: the referenced text is s[state.get(slot)..state.get(slot + 1)], both slots tested against the unset marker
    a = arms.get("Backref")
    if a:
        slot = H.pat_match("Insn::Backref({s})", H.pat_canon(a[0]["pat"]))
        S_ = slot.group("s") if slot else "slot"
        LO, HI = "state.get(%s)" % S_, "state.get((1 + %s))" % S_

        def backref_lit(lit, sm):
            if lit != "s[%s..%s]" % (LO, HI):
                return False
            falses = {t for t, tr, _, _ in sm.conds if tr is False}
            return ("(MAX == %s)" % LO) in falses and ("(MAX == %s)" % HI) in falses
        compare_advance(a[0], "Backref", backref_lit)
    else:
        run.violation(fam, label, "anchor-missing/Backref", H.where(fn), "anchor-missing: Backref arm")
    # BackrefExistsCondition tests the start slot 2*group
    a = arms.get("BackrefExistsCondition")
    if a:
        g = H.pat_match("Insn::BackrefExistsCondition({g})", H.pat_canon(a[0]["pat"]))
        c = H.canon(a[0]["body"])
        n += 1
        if not g or not H.pat_match("let {lo} = state.get((2 * %s)); if (MAX == {lo}) {break 'fail}" % g.group("g"), c):
            run.violation(fam, label, "BackrefExistsCondition", H.where(a[0]), "BackrefExistsCondition(group) must test the group's start slot 2*group against the unset marker, found %s" % c)
    else:
        run.violation(fam, label, "anchor-missing/BackrefExistsCondition", H.where(fn), "anchor-missing: BackrefExistsCondition arm")
    # GoBack
    a = arms.get("GoBack")
    if a:
        g = H.pat_match("Insn::GoBack({n})", H.pat_canon(a[0]["pat"]))
        c = H.canon(a[0]["body"])
        n += 1
        if not g or c != "for _ in 0..%s {if (0 == ix) {break 'fail}; ix = prev_codepoint_ix(s,ix)}" % g.group("n"):
            run.violation(fam, label, "GoBack", H.where(a[0]), "GoBack(n) must step back n code points, failing at the start of the text, found %s" % c)
    else:
        run.violation(fam, label, "anchor-missing/GoBack", H.where(fn), "anchor-missing: GoBack arm")
    # \G
    a = arms.get("ContinueFromPreviousMatchEnd")
    if a:
        c = H.canon(a[0]["body"])
        n += 1
        good = True
        kinds_ = set()
        for p in S.paths_of(a[0]["body"]):
            pf = S.PathFacts(p.events)
            after = pf.proves("Gt", "ix", POS)
            notafter = pf.proves("Le", "ix", POS)
            flag = None
            for ev in p.events:
                if ev.kind == "cond" and "OPTION_SKIPPED_EMPTY_MATCH" in (ev.a or "") and "option_flags" in ev.a:
                    m_ = re.match(r"^\((.*) (==|!=) (.*)\)$", ev.a)
                    if m_ and "0" in (m_.group(1), m_.group(3)):
                        flag = ev.b if m_.group(2) == "!=" else (not ev.b)
            failing = p.exit == "break" and p.label == "'fail"
            if failing:
                good = good and (after or flag is True)
            else:
                good = good and p.exit == "fall" and notafter and flag is False
            kinds_.add(failing)
            good = good and not any(ev.kind == "assign" for ev in p.events)
        if not good or kinds_ != {True, False}:
            run.violation(fam, label, "ContinueFromPreviousMatchEnd", H.where(a[0]), "\\G must hold exactly at the search start position and never after a skipped empty match, found %s" % c)
    else:
        run.violation(fam, label, "anchor-missing/ContinueFromPreviousMatchEnd", H.where(fn), "anchor-missing: \\G arm")
    run.ok(fam, label, H.where(fn), n, "Any/AnyNoNL step by code point under ix < len; Lit/Backref byte compare; GoBack; BackrefExistsCondition; \\G")


def byte_class_tables(run, ctx):
    """codepoint_len / prev_codepoint_ix / is_digit / is_hex_digit decision tables over all byte values."""
    fam, label = "ENC", "byte-classes"
    n = 0

    def eval_int(e, env):
        e = H.peel(e)
        k = e.get("k")
        if k == "Lit":
            return e["lit"]["v"] if e["lit"]["t"] != "bool" else bool(e["lit"]["v"])
        if k == "Path":
            if e.get("res") == "Local":
                return env[e["name"]]
            raise ValueError("path")
        if k == "Cast":
            v = eval_int(e["e"], env)
            ty = e.get("ty", "")
            if ty == "i8":
                v &= 0xff
                return v - 256 if v >= 128 else v
            if ty == "u8":
                return v & 0xff
            return v
        if k == "Unary" and e["op"] == "Neg":
            return -eval_int(e["e"], env)
        if k == "Unary" and e["op"] == "Not":
            return not eval_int(e["e"], env)
        if k == "Binary":
            a = eval_int(e["l"], env)
            op = e["op"]
            if op == "And":
                return bool(a) and bool(eval_int(e["r"], env))
            if op == "Or":
                return bool(a) or bool(eval_int(e["r"], env))
            b = eval_int(e["r"], env)
            return {"Lt": a < b, "Le": a <= b, "Gt": a > b, "Ge": a >= b, "Eq": a == b, "Ne": a != b,
                    "BitOr": a | b if not isinstance(a, bool) else a or b, "BitAnd": a & b if not isinstance(a, bool) else a and b,
                    "Add": a + b, "Sub": a - b}[op]
        if k == "Call":
            f = H.peel(e["f"])
            d = f.get("def", "")
            for p, fn2 in ctx.facts.hir.items():
                if p == d:
                    ps = [x.get("name") for x in fn2["params"]]
                    env2 = {ps[i]: eval_int(a, env) for i, a in enumerate(e["args"])}
                    return eval_body(fn2["body"], env2)
            raise ValueError("call " + d)
        if k == "Block":
            return eval_body(e, env)
        if k == "Match":
            sv = eval_int(e["scrut"], env)
            def pm(p, env2):
                if p["k"] == "Binding":
                    env2[p["name"]] = sv
                    return True
                if p["k"] == "Wild":
                    return True
                if p["k"] == "ExprPat" and "lit" in p:
                    return p["lit"]["v"] == sv
                if p["k"] == "RangePat":
                    lo = p["lo"]["lit"]["v"] if p.get("lo") else None
                    hi = p["hi"]["lit"]["v"] if p.get("hi") else None
                    if lo is not None and p["lo"].get("neg"):
                        lo = -lo
                    if hi is not None and p["hi"].get("neg"):
                        hi = -hi
                    return (lo is None or lo <= sv) and (hi is None or (sv <= hi if p.get("inclusive") else sv < hi))
                if p["k"] == "OrPat":
                    return any(pm(q, env2) for q in p["pats"])
                raise ValueError("pattern " + p["k"])
            for arm in e["arms"]:
                p = arm["pat"]
                env2 = dict(env)
                if not pm(p, env2):
                    continue
                if arm.get("guard") is not None and not eval_int(arm["guard"], env2):
                    continue
                return eval_int(arm["body"], env2)
            raise ValueError("no arm")
        if k == "If":
            return eval_int(e["then"], env) if eval_int(e["cond"], env) else eval_int(e["else"], env)
        raise ValueError(k)

    def eval_body(b, env):
        b = H.peel(b)
        if b.get("k") == "Block":
            if b.get("stmts"):
                raise ValueError("statements")
            return eval_int(b["expr"], env)
        return eval_int(b, env)

    # codepoint_len: for every byte that can start a UTF-8 sequence
    fn = S.get_fn(run, ctx, "codepoint_len", fam, label)
    if fn is not None:
        P = fn["params"][0].get("name")
        bad = []
        try:
            for b in list(range(0x00, 0x80)) + list(range(0xC2, 0xF5)):
                want = 1 if b < 0x80 else 2 if b < 0xE0 else 3 if b < 0xF0 else 4
                got = eval_body(fn["body"], {P: b})
                n += 1
                if got != want:
                    bad.append((b, got, want))
        except (ValueError, KeyError) as ex:
            run.violation(fam, label, "codepoint_len/unanalysable", H.where(fn), "codepoint_len's decision table cannot be extracted (%s)" % ex)
        if bad:
            b, got, want = bad[0]
            run.violation(fam, label, "codepoint_len/table", H.where(fn), "codepoint_len(0x%02x) is %s, the UTF-8 sequence length for that lead byte is %d (%d lead bytes differ)" % (b, got, want, len(bad)))
    # prev_codepoint_ix: the stop test must accept exactly non-continuation bytes
    fn = S.get_fn(run, ctx, "prev_codepoint_ix", fam, label)
    if fn is not None:
        ifs = [nd for nd in H.walk(fn["body"]) if nd.get("k") == "If" and ("break" in H.canon(nd["then"]) or "return" in H.canon(nd["then"]))]
        c = H.canon(fn["body"])
        if len(ifs) != 1 or "ix -= 1" not in c:
            run.violation(fam, label, "prev_codepoint_ix/shape", H.where(fn), "anchor-missing: prev_codepoint_ix should decrement ix and stop at a non-continuation byte")
        else:
            cond = ifs[0]["cond"]
            # substitute bytes[ix] by a variable
            def subst(e):
                e2 = H.peel(e)
                if e2.get("k") == "Index":
                    return {"k": "Path", "res": "Local", "name": "__b"}
                if isinstance(e, dict):
                    return {k_: (subst(v) if isinstance(v, dict) else [subst(x) if isinstance(x, dict) else x for x in v] if isinstance(v, list) else v) for k_, v in e.items()}
                return e
            c2 = subst(cond)
            bad = []
            try:
                for b in list(range(0x00, 0xC0)) + list(range(0xC2, 0xF5)):
                    want = not (0x80 <= b < 0xC0)
                    got = bool(eval_int(c2, {"__b": b}))
                    n += 1
                    if got != want:
                        bad.append(b)
            except (ValueError, KeyError) as ex:
                run.violation(fam, label, "prev_codepoint_ix/unanalysable", H.where(fn), "stop test cannot be extracted (%s)" % ex)
            if bad:
                run.violation(fam, label, "prev_codepoint_ix/table", H.where(fn), "prev_codepoint_ix stops/continues wrongly on byte 0x%02x (must stop exactly on non-continuation bytes)" % bad[0])
            # the stop test is the only way out: no iteration bound, no other exit (a 4-byte character needs 4 steps)
            stop = H.canon(cond)
            nexit = 0
            for p in S.paths_of(fn["body"]):
                if p.exit not in ("fall", "return"):
                    continue
                nexit += 1
                cs = [ev for ev in p.events if ev.kind == "cond"]
                if not cs or cs[-1].a != stop or cs[-1].b is not True:
                    run.violation(fam, label, "prev_codepoint_ix/other-exit", H.where(fn), "prev_codepoint_ix can return without having found a non-continuation byte (path: %s): the index could be left inside a character" % p.show()[:160])
                    break
            if nexit < 1:
                run.violation(fam, label, "prev_codepoint_ix/no-exit", H.where(fn), "anchor-missing: no returning path of prev_codepoint_ix")
    for name, want in (("parse::is_digit", lambda b: 0x30 <= b <= 0x39),
                       ("parse::is_hex_digit", lambda b: 0x30 <= b <= 0x39 or 0x41 <= b <= 0x46 or 0x61 <= b <= 0x66)):
        fn = S.get_fn(run, ctx, name, fam, label)
        if fn is None:
            continue
        P = fn["params"][0].get("name")
        try:
            bad = [b for b in range(256) if bool(eval_body(fn["body"], {P: b})) != want(b)]
            n += 256
        except (ValueError, KeyError) as ex:
            run.violation(fam, label, name + "/unanalysable", H.where(fn), "%s cannot be evaluated symbolically (%s)" % (name, ex))
            continue
        if bad:
            run.violation(fam, label, name + "/table", H.where(fn), "%s classifies byte 0x%02x wrongly" % (name, bad[0]))
    run.ok(fam, label, "src/lib.rs", n, "codepoint_len / prev_codepoint_ix / is_digit / is_hex_digit agree with UTF-8 / ASCII over all relevant byte values")


# ---------------------------------------------------------------------------------------------
# hard vs printable
# ---------------------------------------------------------------------------------------------

def printable_rule(run, ctx):
    fam, label = "ENC", "hard-vs-printable"
    ts_fn = S.get_fn(run, ctx, "Expr::to_str", fam, label)
    if ts_fn is None:
        return
    m, arms = _expr_arms(ts_fn)
    printed = set(arms.keys())
    wild = [a for a in m["arms"] if H.is_wild_arm(a)]
    import fam_xfer
    expr_adt = [a for p, a in ctx.facts.adts.items() if strip_generics(p) == "Expr"]
    allv = {v["name"] for v in expr_adt[0]["variants"]}
    rejected = {"SubroutineCall"}
    un = allv - printed - fam_xfer.MUST_BE_HARD - rejected
    for v in sorted(un):
        run.violation(fam, label, "neither/" + v, H.where(ts_fn), "Expr::%s is neither printed by Expr::to_str nor unconditionally hard: delegating it reaches `panic!(\"attempting to format hard expr\")`" % v)
    # precedence symmetry: every open paren has its close paren under the same condition
    n = 0
    for v, al in arms.items():
        for a in al:
            opens = []
            closes = []
            for nd in H.walk(a["body"]):
                if nd.get("k") == "If" and nd.get("else") is None:
                    t = H.canon(nd["then"])
                    if t in ('buf.push_str("(?:")', 'buf.push_str("(?i:")'):
                        opens.append(H.canon(nd["cond"]))
                    if t in ("buf.push(')')", 'buf.push_str(")")'):
                        closes.append(H.canon(nd["cond"]))
            n += 1
            if sorted(opens) != sorted(closes):
                run.violation(fam, label, "paren/" + v, H.where(a), "Expr::%s: opening and closing parentheses are emitted under different conditions (%s vs %s)" % (v, opens, closes))
    # what each arm may write into the pattern text handed to the inner engine: its own structural tokens, its
    # children (to_str), quoted literal text, numbers.  Any other write (e.g. an alternation rendered as a bracket
    # class) changes what the delegated pattern means
    TOK = {
        "Empty": set(), "Any": {'"(?s:.)"', '"."'},
        "Literal": {'"(?i:"', "')'", '")"'}, "Delegate": {'"(?i:"', "')'", '")"'},
        "Assertion": {"'^'", "'$'", '"(?m:^)"', '"(?m:$)"', '"(?Rm:^)"', '"(?Rm:$)"', '"^"', '"$"'},
        "Concat": {'"(?:"', "')'", '")"'}, "Alt": {'"(?:"', "'|'", '"|"', "')'", '")"'}, "Group": {"'('", "')'", '"("', '")"'},
        "Repeat": {'"(?:"', "')'", '")"', "'?'", "'*'", "'+'", "'{'", "','", "'}'", '"?"', '"*"', '"+"', '"{"', '","', '"}"'},
    }
    nw = 0
    for v, al in arms.items():
        for a in al:
            binds = {p_["name"] for p_ in H.walk(a["pat"]) if p_.get("k") == "Binding"}
            for nd in H.walk(a["body"]):
                bad = None
                if nd.get("k") == "MethodCall" and H.canon(nd["recv"]) == "buf":
                    nw += 1
                    arg = H.canon(nd["args"][0]) if nd.get("args") else ""
                    if nd["name"] in ("push", "push_str"):
                        argn = H.peel(nd["args"][0]) if nd.get("args") else {}
                        consts = set()
                        if argn.get("k") == "Lit":
                            consts = {arg}
                        elif argn.get("k") == "If":
                            consts = {H.canon(H.peel(x)) for x in (argn.get("then"), argn.get("else")) if x is not None}
                            consts = {c_ for c_ in consts}
                        if consts and consts <= TOK.get(v, set()):
                            continue
                        if v in ("Delegate",) and arg in binds:
                            continue
                        bad = "buf.%s(%s)" % (nd["name"], arg)
                    else:
                        bad = "buf.%s(..)" % nd["name"]
                elif nd.get("k") == "Call" and any(H.canon(a_) == "buf" for a_ in nd.get("args") or []):
                    nw += 1
                    fnm = H.canon(H.peel(nd["f"]))
                    if fnm.endswith("push_quoted") and v in ("Literal",):
                        continue
                    if fnm.endswith("push_usize") and v == "Repeat":
                        continue
                    bad = H.canon(nd)[:60]
                elif nd.get("k") == "MethodCall" and nd["name"] == "to_str" and any(H.canon(a_) == "buf" for a_ in nd.get("args") or []):
                    nw += 1
                    if v in ("Concat", "Alt", "Group", "Repeat"):
                        continue
                    bad = H.canon(nd)[:60]
                if bad:
                    run.violation(fam, label, "write/%s/%s" % (v, bad), H.where(nd), "Expr::%s arm of to_str writes %s: not one of the tokens that arm may contribute to the delegated pattern text (a different rendering -- e.g. single-character alternatives as a bracket class -- changes what the pattern means: `a|-|z` is not `[a-z]`)" % (v, bad))
    run.floor(fam, label, H.where(ts_fn), nw, 25, "writes into the pattern text in to_str")
    # precedence levels
    prec = {"Concat": ("(1 < precedence)", "2"), "Alt": ("(0 < precedence)", "1"), "Repeat": ("(2 < precedence)", "3")}
    for v, (cond, childp) in prec.items():
        for a in arms.get(v, []):
            conds = [H.canon(nd["cond"]) for nd in H.walk(a["body"]) if nd.get("k") == "If" and H.canon(nd["then"]) == 'buf.push_str("(?:")']
            kids = [H.canon(nd["args"][1]) for nd in H.walk(a["body"]) if nd.get("k") == "MethodCall" and nd["name"] == "to_str"]
            n += 1
            if conds != [cond] or any(k != childp for k in kids):
                run.violation(fam, label, "precedence/" + v, H.where(a), "Expr::%s must group under `%s` and print its children at precedence %s (found %s / %s): otherwise the re-serialised pattern parses differently" % (v, cond, childp, conds, kids))
    for a in arms.get("Group", []):
        c = H.canon(a["body"])
        n += 1
        if not H.pat_match("buf.push('('); {c}.to_str(buf,0); buf.push(')')", c):
            run.violation(fam, label, "group", H.where(a), "Expr::Group must be printed as a plain capture group `(` child `)` so that group numbering is preserved, found %s" % c)
    # what each arm prints, decided per path under sample valuations of the arm's scalar fields: the samples are the
    # boundary values of every integer constant the arm mentions (and their neighbours), so any code that decides
    # by comparing those fields with constants or with each other is covered region by region
    BUF = ts_fn["params"][1].get("name") or "buf"
    PREC = ts_fn["params"][2].get("name") or "precedence"

    def fieldnames(a):
        out = {}
        for p_ in H.walk(a["pat"]):
            if p_.get("k") == "StructPat":
                for f_ in p_.get("fields") or []:
                    if (f_.get("pat") or {}).get("k") == "Binding":
                        out[f_["name"]] = f_["pat"]["name"]
        return out

    def printed_text(p):
        sm = S.Summary(p)
        out = ""
        for c_ in sm.calls:
            m_ = re.match(r"^%s\.push\('(.*)'\)$" % re.escape(BUF), c_) or re.match(r'^%s\.push_str\("(.*)"\)$' % re.escape(BUF), c_)
            if m_:
                out += m_.group(1)
                continue
            m_ = re.match(r"^%s\.push_str\((.*)\)$" % re.escape(BUF), c_)
            if m_:
                out += "<str %s>" % m_.group(1).lstrip("&")
                continue
            m_ = re.match(r"^(?:\w+::)*push_usize\(%s,(.*)\)$" % re.escape(BUF), c_)
            if m_:
                out += "<num %s>" % m_.group(1)
                continue
            m_ = re.match(r"^(?:\w+::)*push_quoted\(%s,(.*)\)$" % re.escape(BUF), c_)
            if m_:
                out += "<quoted %s>" % m_.group(1).lstrip("&")
                continue
            m_ = re.match(r"^(.*)\.to_str\(%s,(.*)\)$" % re.escape(BUF), c_)
            if m_:
                out += "<expr %s @%s>" % (m_.group(1), m_.group(2))
                continue
            if BUF in re.findall(r"\w+", c_):
                out += "<?%s>" % c_
        return out

    def decide(a, val, what):
        got = [p for p in S.paths_of(a["body"]) if S.consistent(p, val) is not False]
        sure = [p for p in got if S.consistent(p, val) is True]
        if len(got) != 1 or len(sure) != 1:
            return None
        return printed_text(got[0])

    for v_, fld, form in (("Literal", "val", "<quoted %s>"), ("Delegate", "inner", "<str %s>")):
        for a in arms.get(v_, []):
            n += 1
            fn_ = fieldnames(a)
            ci, vv = fn_.get("casei"), fn_.get(fld)
            if ci is None or vv is None:
                run.violation(fam, label, v_.lower(), H.where(a), "anchor-missing: Expr::%s arm of to_str does not bind %s and casei" % (v_, fld))
                continue
            for casei in (True, False):
                got = decide(a, {ci: casei}, v_)
                want = ("(?i:%s)" if casei else "%s") % (form % vv)
                if got != want:
                    run.violation(fam, label, v_.lower(), H.where(a), "Expr::%s must be printed %s and wrapped in (?i:..) iff case-insensitive: for casei=%s expected %s, found %s" % (v_, "quoted (push_quoted)" if v_ == "Literal" else "as its inner pattern", casei, want, got))
                    break
    # repeat suffix table
    for a in arms.get("Repeat", []):
        n += 1
        fn_ = fieldnames(a)
        if not all(k_ in fn_ for k_ in ("child", "lo", "hi", "greedy")):
            run.violation(fam, label, "repeat/anchor", H.where(a), "anchor-missing: Expr::Repeat arm of to_str does not bind child, lo, hi, greedy")
            continue
        LO, HI, GR, CH = fn_["lo"], fn_["hi"], fn_["greedy"], fn_["child"]
        consts = {0, 1, 2, S.UMAX}
        for c_ in S.int_constants(a["body"]):
            consts |= {c_, c_ + 1, max(0, c_ - 1)}
        consts |= {S.UMAX - 1}
        vals = sorted(x for x in consts if 0 <= x <= S.UMAX)
        bad = {}
        nsamp = 0
        for lo_ in vals:
            for hi_ in vals:
                for gr_ in (True, False):
                    for pr_ in (0, 1, 2, 3, 4):
                        nsamp += 1
                        got = decide(a, {LO: lo_, HI: hi_, GR: gr_, PREC: pr_}, "Repeat")
                        suffix = {(0, 1): "?", (0, S.UMAX): "*", (1, S.UMAX): "+"}.get((lo_, hi_))
                        key = "(%s,%s)" % (lo_ if lo_ != S.UMAX else "MAX", hi_ if hi_ != S.UMAX else "MAX")
                        if suffix is None:
                            suffix = "{<num %s>" % LO + ("" if lo_ == hi_ else "," + ("" if hi_ == S.UMAX else "<num %s>" % HI)) + "}"
                            key = "general"
                        want = ("(?:" if pr_ > 2 else "") + "<expr %s @3>" % CH + suffix + ("" if gr_ else "?") + (")" if pr_ > 2 else "")
                        g2 = got
                        if got is not None and lo_ == hi_:
                            g2 = got.replace("<num %s>" % HI, "<num %s>" % LO)
                        if g2 != want:
                            kind = "lazy" if (got is not None and not gr_ and got.replace("?", "") == want.replace("?", "")) else key
                            bad.setdefault(kind, (lo_, hi_, gr_, pr_, want, got))
        for kind, (lo_, hi_, gr_, pr_, want, got) in sorted(bad.items()):
            msg = {"lazy": "a lazy repeat must print a trailing `?`", "general": "general repeat must print {lo}, {lo,} or {lo,hi} (every bound pair other than ?, *, + -- a special case changes what the trailing lazy `?` applies to)"}.get(kind, "Repeat %s must print its one-character suffix" % kind)
            run.violation(fam, label, "repeat/" + kind, H.where(a), "%s: for lo=%s hi=%s greedy=%s precedence=%s expected %s, found %s" % (msg, lo_, "MAX" if hi_ == S.UMAX else hi_, gr_, pr_, want, got))
        run.floor(fam, label + "/repeat-samples", H.where(a), nsamp, 250, "sample valuations of (lo, hi, greedy, precedence) decided for the Repeat arm")
    run.ok(fam, label, H.where(ts_fn), n + len(allv), "%d Expr variants: printed %s; hard %s" % (len(allv), sorted(printed), sorted(allv - printed)))
    # push_usize prints decimal digits
    fn = S.get_fn(run, ctx, "push_usize", fam, "push_usize")
    if fn is not None:
        c = H.canon(fn["body"])
        X = fn["params"][1].get("name")
        Sb = fn["params"][0].get("name")
        # under sample values of x: exactly one path is feasible; it prints x / 10 first (when x >= 10) and then the
        # last digit -- the arguments are evaluated, so `x`, `x % 10` for x < 10, a hoisted common tail all agree
        good = True
        kinds_ = set()
        for x_ in (0, 3, 9, 10, 11, 42, 99, 100, 12345):
            vals = {X: x_}
            feas = [p for p in S.paths_of(fn["body"]) if S.consistent(p, vals) is not False]
            if len(feas) != 1 or S.consistent(feas[0], vals) is not True:
                good = False
                break
            outs = []
            vals = S.run_path(feas[0], vals)[1]        # named temporaries (`let digit = x % 10`) are followed
            for ev in feas[0].events:
                if ev.kind != "call" or ev.node is None:
                    continue
                nd = H.peel(ev.node)
                if nd.get("k") == "Call" and (ev.b or "").endswith("push_usize") and len(nd.get("args") or []) == 2 and H.canon(nd["args"][0]) == Sb:
                    outs.append(("rec", S.eval_node(nd["args"][1], vals)))
                elif nd.get("k") == "MethodCall" and nd.get("name") == "push" and H.canon(nd["recv"]) == Sb and len(nd.get("args") or []) == 1:
                    outs.append(("chr", S.eval_node(nd["args"][0], vals)))
                elif nd.get("k") == "MethodCall" and H.canon(nd["recv"]) == Sb:
                    outs.append(("?", nd.get("name")))
            want = ([("rec", x_ // 10)] if x_ >= 10 else []) + [("chr", 48 + x_ % 10)]
            good = good and outs == want
            kinds_.add(x_ < 10)
        if not good or kinds_ != {True, False}:
            run.violation(fam, "push_usize", "shape", H.where(fn), "push_usize must print the decimal digits of x most-significant first, found %s" % c)
        else:
            run.ok(fam, "push_usize", H.where(fn), 1, "decimal digits, most significant first")


# ---------------------------------------------------------------------------------------------
# escape table (C17)
# ---------------------------------------------------------------------------------------------

def _regex_syntax_meta(ctx):
    lock = os.path.join(ctx.facts.repo, "Cargo.lock")
    ver = None
    try:
        txt = open(lock).read()
        m = re.search(r'name = "regex-syntax"\nversion = "([^"]+)"', txt)
        if m:
            ver = m.group(1)
    except OSError:
        pass
    cands = glob.glob(os.path.expanduser("~/.cargo/registry/src/*/regex-syntax-%s/src/lib.rs" % (ver or "*")))
    for c in cands:
        src = open(c).read()
        m = re.search(r"pub fn is_meta_character\(c: char\) -> bool \{\s*match c \{(.*?)=> true", src, re.S)
        if m:
            chars = re.findall(r"'(\\\\|\\'|[^'])'", m.group(1))
            return ver, {c_.replace("\\\\", "\\").replace("\\'", "'") for c_ in chars}
    return ver, None


def escape_rule(run, ctx):
    fam, label = "ENC", "escape-table"
    fn = S.get_fn(run, ctx, "is_special", fam, label)
    if fn is None:
        return
    special = set()
    for nd in H.walk(fn["body"]):
        if nd.get("k") == "Match":
            for arm in nd["arms"]:
                if H.canon(arm["body"]) == "true":
                    for p in H.walk(arm["pat"]):
                        if p.get("k") == "ExprPat" and "lit" in p and p["lit"]["t"] == "char":
                            special.add(chr(p["lit"]["v"]))
        if nd.get("k") == "MethodCall" and nd["name"] == "contains" and H.peel(nd["recv"]).get("k") == "Lit":
            special |= set(H.peel(nd["recv"])["lit"]["v"])
    if not special:
        run.violation(fam, label, "anchor-missing/set", H.where(fn), "anchor-missing: cannot extract the set of special characters from is_special")
        return
    # parser dispatch bytes
    need = {}
    for name in ("parse::Parser::parse_atom", "parse::Parser::parse_piece", "parse::Parser::optional_whitespace"):
        f2 = S.get_fn(run, ctx, name, fam, label)
        if f2 is None:
            continue
        for nd in H.walk(f2["body"]):
            if nd.get("k") == "Match" and "u8" in nd.get("scrut_ty", ""):
                for arm in nd["arms"]:
                    for p in H.walk(arm["pat"]):
                        if p.get("k") == "ExprPat" and "lit" in p and p["lit"]["t"] == "byte":
                            ch = chr(p["lit"]["v"])
                            if ch not in " \r\n\t":
                                need.setdefault(ch, set()).add(name.split("::")[-1])
    run.floor(fam, label, "src/parse.rs", len(need), 10, "bytes the parser dispatches on")
    for ch, wh in sorted(need.items()):
        if ch not in special:
            run.violation(fam, label, "parser-meta/" + ch, H.where(fn), "`%s` is a meta character for the fancy parser (%s) but is_special does not escape it: escape(\"%s\") would not match literally" % (ch, ",".join(sorted(wh)), ch))
    ver, meta = _regex_syntax_meta(ctx)
    if meta is None:
        run.violation(fam, label, "anchor-missing/regex-syntax", "Cargo.lock", "anchor-missing: cannot read is_meta_character of regex-syntax %s in the cargo registry" % ver)
    else:
        class_only = {"&", "-", "~"}
        literal_when_bare = {"]", "}"}
        xmode_only = {"#"}
        req = meta - class_only - literal_when_bare - xmode_only
        for ch in sorted(req):
            if ch not in special:
                run.violation(fam, label, "ra-meta/" + ch, H.where(fn), "`%s` is a meta character of regex-syntax %s outside classes but is_special does not escape it: a literal containing it would be re-serialised wrongly for the automata engine" % (ch, ver))
    for ch in sorted(special):
        if ch.isalnum() or ch in "<>" or ord(ch) > 127:
            run.violation(fam, label, "overescape/" + ch, H.where(fn), "is_special escapes `%s`, but `\\%s` means something else than the literal character" % (ch, ch))
    run.ok(fam, label, H.where(fn), len(special), "is_special = {%s} covers %d parser dispatch bytes and regex-syntax %s meta characters outside classes; escapes nothing whose escaped form has another meaning" % ("".join(sorted(special)), len(need), ver))
    # users of the table
    label = "escape-users"
    pq = S.get_fn(run, ctx, "push_quoted", fam, label)
    if pq is not None:
        c = H.canon(pq["body"])
        B, S_ = pq["params"][0].get("name"), pq["params"][1].get("name")
        if not H.pat_match("for {c} in %s.chars() {if is_special({c}) {%s.push('\\')}; %s.push({c})}" % (S_, B, B), c):
            run.violation(fam, label, "push_quoted", H.where(pq), "push_quoted must copy every char, preceded by a backslash exactly when is_special, found %s" % c)
    es = S.get_fn(run, ctx, "escape", fam, label)
    if es is not None:
        T = es["params"][0].get("name")
        ps = fam_vm.fpaths(es["body"])
        n = 0
        for p in ps:
            v = S.ret_value(p)
            if v is None:
                continue
            n += 1
            # is the number of special bytes zero on this path?  (`match count {0 => ..}` or `if count == 0`)
            sm = S.Summary(p)
            zero = None
            isc = lambda t: "is_special(" in t and ".count()" in t
            for ev in p.events:
                if ev.kind == "arm" and isc(ev.a or ""):
                    zero = (ev.b == "0")
            for t, tr, _, _ in sm.conds:
                m = re.match(r"^\(0 (==|!=|<) (.*)\)$", t)
                if m and isc(m.group(2)):
                    zero = tr if m.group(1) == "==" else (not tr)
            if zero is None:
                run.violation(fam, label, "escape/count", H.where(es), "escape must decide by counting the special bytes with is_special (path %s)" % p.show()[:160])
                continue
            if zero:
                if not H.pat_match("{*c}Borrowed(%s)" % T, v):
                    run.violation(fam, label, "escape/borrow", H.where(es), "with no special character escape must borrow its input, found %s" % v)
            else:
                if not H.pat_match("{*c}Owned({b})", v) or not any(ev.kind == "call" and H.pat_match("push_quoted({b},%s)" % T, ev.a) for ev in p.events):
                    run.violation(fam, label, "escape/owned", H.where(es), "with special characters escape must build the result with push_quoted(buf, text), found %s" % v)
        run.floor(fam, label, H.where(es), n, 2, "paths of escape")
        run.ok(fam, label, H.where(es), n, "escape borrows iff the is_special count is 0, otherwise push_quoted; to_str quotes literals with the same function")


# ---------------------------------------------------------------------------------------------
# SLOT layout
# ---------------------------------------------------------------------------------------------

def slot_rule(run, ctx):
    fam, label = "SLOT", "layout"
    n = 0
    fn = fam_vm.vm_run(run, ctx, fam, label)
    if fn is None:
        return
    arms = fam_vm.insn_arms(fn)
    a = arms.get("Delegate")
    if not a:
        run.violation(fam, label, "anchor-missing/Delegate", H.where(fn), "anchor-missing: Delegate arm")
    else:
        arm = a[0]
        c = H.canon(arm["body"])
        w = H.where(arm)
        binds = {}
        for pn in H.walk(arm["pat"]):
            if pn.get("k") == "StructPat":
                for f in pn["fields"]:
                    if f["pat"].get("k") == "Binding":
                        binds[f["name"]] = f["pat"]["name"]
        SG, EG, IN = binds.get("start_group", "start_group"), binds.get("end_group", "end_group"), binds.get("inner", "inner")

        def need(cond, key, what):
            nonlocal n
            n += 1
            if not cond:
                run.violation(fam, label, "Delegate/" + key, w, "Insn::Delegate: " + what)
        need("let input = Input::new(s).span(ix..len(s)).anchored(Anchored::Yes)" in c or "Input::new(s).span(ix..len(s)).anchored(Anchored::Yes)" in c,
             "anchored", "the delegate must search s[ix..] anchored at ix (otherwise it would find a later match and skip text)")
        # without groups: search_half; its end offset becomes ix, a failed search fails the thread (path-based)
        ng_ok = {"some": 0, "none": 0}
        ng_bad = None
        for p in fam_vm.fpaths(arm["body"]):
            eqc = [ev for ev in p.events if ev.kind == "cond" and ev.a in ("(%s == %s)" % (EG, SG), "(%s == %s)" % (SG, EG))]
            neq = [ev for ev in p.events if ev.kind == "cond" and ev.a in ("(%s != %s)" % (EG, SG), "(%s != %s)" % (SG, EG))]
            nogroups = (eqc and eqc[0].b is True) or (neq and neq[0].b is False)
            if not nogroups:
                continue
            oc = S.opt_outcomes(p, "%s.search_half({*})" % IN)
            if not oc:
                ng_bad = "no search_half on the no-groups path"
                break
            i0, kind, bound = oc[0]
            asg = [ev for ev in p.events[i0:] if ev.kind == "assign" and ev.a == "ix"]
            if kind == "some":
                m = re.match(r"^Some\((\w+)\)$", bound or "")
                if p.exit == "break" or len(asg) != 1 or asg[0].b != "=" or not m or asg[0].c != "%s.offset()" % m.group(1):
                    ng_bad = "a successful search_half must set ix to its end offset (found %s)" % [(e.b, e.c) for e in asg]
                    break
            else:
                if not (p.exit == "break" and p.label == "'fail") or asg:
                    ng_bad = "a failed search_half must fail the thread without moving ix"
                    break
            ng_ok[kind] += 1
        need(ng_bad is None and ng_ok["some"] >= 1 and ng_ok["none"] >= 1,
             "no-groups", "without groups the delegate's end offset becomes ix, a failed search fails the thread" + (" (%s)" % ng_bad if ng_bad else ""))
        def lin(nd):
            lf = H.linear(nd)
            return (dict(lf[0]), lf[1]) if lf else None
        rs = [nd for nd in H.walk(arm["body"]) if nd.get("k") == "MethodCall" and nd["name"] == "resize" and H.canon(nd["recv"]) == "inner_slots"]
        need(len(rs) == 1, "resize", "inner_slots must be sized before search_slots")
        if rs:
            lf = lin(rs[0]["args"][0])
            ok = lf is not None and lf[0] == {EG: 2, SG: -2} and lf[1] >= 2
            need(ok, "resize-size", "inner_slots needs two slots for the delegate's own group 0 plus two per inner group: (end_group - start_group + 1) * 2 at least, found %s" % H.canon(rs[0]["args"][0]))
        need("for i in 0..(%s - %s)" % (EG, SG) in c, "loop-range", "every inner group start_group..end_group must be copied (loop over 0..end_group - start_group)")
        sl = [nd for nd in H.walk(arm["body"]) if nd.get("k") == "Let" and nd["pat"].get("name") == "slot"]
        need(len(sl) == 1 and lin(sl[0]["init"]) == ({SG: 2, "i": 2}, 0), "outer-slot", "inner group i lands in the outer slot pair 2*(start_group + i), found %s" % (H.canon(sl[0]["init"]) if sl else None))
        idx = [nd for nd in H.walk(arm["body"]) if nd.get("k") == "Index" and H.canon(nd["e"]) == "inner_slots"]
        lfs = sorted((lin(nd["i"]) for nd in idx), key=str)
        need(({"i": 2}, 2) in lfs, "inner-start", "inner group i is read from the delegate's slot pair 2*(i+1) (pair 0 is the delegate's whole match); indices used: %s" % [H.canon(nd["i"]) for nd in idx])
        need(({"i": 2}, 3) in lfs, "inner-end", "the end of inner group i is the delegate's slot 2*(i+1)+1; indices used: %s" % [H.canon(nd["i"]) for nd in idx])
        need(all(l in (({"i": 2}, 2), ({"i": 2}, 3), ({}, 1)) for l in lfs), "inner-other", "unexpected inner_slots index among %s" % [H.canon(nd["i"]) for nd in idx])
        need(re.search(r"if let Some\(start\) = inner_slots\[[^\]]+\] \{let end = inner_slots\[[^\]]+\]\.unwrap\(\); state\.save\(slot,start\.get\(\)\); state\.save\(\(1 \+ slot\),end\.get\(\)\)\}", c) is not None,
             "copy-shape", "matched inner group: start from the even slot, end from the odd slot, written to (slot, slot+1)")
        need("state.save(slot,start.get()); state.save((1 + slot),end.get())" in c, "copy-matched", "a matched inner group writes both slots of its outer pair (start, end)")
        # a group that did not take part in this delegate match keeps what it had (the span of an earlier loop
        # iteration; abandoned iterations are undone by the save log): nothing is written for it
        copy_ifs = [nd for nd in H.walk(arm["body"]) if nd.get("k") == "If" and H.canon(nd["cond"]).startswith("let Some(") and "inner_slots[" in H.canon(nd["cond"])]
        need(len(copy_ifs) == 1 and copy_ifs[0].get("else") is None, "copy-unmatched",
             "a group that does not participate in this match of the delegate must keep its span from an earlier loop iteration: the copy must not write (reset) anything for it")
        saves_in_loop = [nd for nd in H.walk(arm["body"]) if nd.get("k") == "MethodCall" and nd["name"] == "save" and H.canon(nd["recv"]) == "state"]
        inside = [x for ci in copy_ifs for x in H.walk(ci["then"]) if x.get("k") == "MethodCall" and x["name"] == "save"]
        need(len(saves_in_loop) == len(inside) == 2, "copy-writes", "the Delegate arm writes capture slots only for participating groups (exactly the start and end of the pair)")
        need("ix = inner_slots[1].unwrap().get()" in c, "advance", "after a delegate with groups ix becomes the delegate's overall end (slot 1)")
        # path-based: with groups, the outcome of search_slots decides: none -> fail without writing, some -> copy + advance
        sf_ok = {"some": 0, "none": 0}
        sf_bad = None
        for p in fam_vm.fpaths(arm["body"]):
            oc = S.opt_outcomes(p, "%s.search_slots({*})" % IN)
            if not oc:
                continue
            i0, kind, _ = oc[0]
            rest_ = p.events[i0:]
            wrote = any(ev.kind == "assign" and ev.a == "ix" for ev in rest_) or any(ev.kind == "call" and (ev.a or "").startswith("state.save(") for ev in rest_)
            if kind == "none":
                if not (p.exit == "break" and p.label == "'fail") or wrote:
                    sf_bad = "a failed search must fail the thread without touching ix or the slots"
            else:
                if p.exit == "break" or not any(ev.kind == "assign" and ev.a == "ix" for ev in rest_):
                    sf_bad = "a successful search must continue with ix advanced"
            sf_ok[kind] += 1
        need(sf_bad is None and min(sf_ok.values()) >= 1, "search-fail", "a failed delegate search fails the thread" + (" (%s)" % sf_bad if sf_bad else ""))
    # the two representations of captures the rules below know about: a third one needs rules of its own
    ci = [a for p_, a in ctx.facts.adts.items() if strip_generics(p_) == "CapturesImpl"]
    if len(ci) != 1 or {v_["name"] for v_ in ci[0]["variants"]} != {"Wrap", "Fancy"}:
        run.violation(fam, label, "captures-variants", "src/lib.rs", "CapturesImpl should have exactly the variants Wrap and Fancy (found %s): index, length and iteration semantics of another representation are not covered by these rules" % ([v_["name"] for v_ in ci[0]["variants"]] if ci else None))
    # Captures::get / len / truncate
    g = S.get_fn(run, ctx, "Captures::get", fam, label)
    if g is not None:
        I = g["params"][1].get("name")
        m = H.match_arms_on(g["body"], "CapturesImpl")
        fancy = None
        for mm in m:
            for arm in mm["arms"]:
                if H.arm_variants(arm, "CapturesImpl") == ["Fancy"]:
                    fancy = arm
        n += 1
        if fancy is None:
            run.violation(fam, label, "get/anchor", H.where(g), "anchor-missing: CapturesImpl::Fancy arm of Captures::get")
        else:
            okp = {"beyond": 0, "unset": 0, "some": 0}
            # paths of the whole function that go through the Fancy arm (the arm may hand its result on to code after
            # the match, e.g. as a tuple that a common tail turns into the Match)
            fancy_paths = [p for p in fam_vm.fpaths(g["body"]) if any(ev.kind == "arm" and ev.node is fancy for ev in p.events)]
            for p in fancy_paths:
                v = S.ret_value(p)
                if v is not None:
                    v = S.Summary(p).val or v
                    v = re.sub(r"\*(\w)", r"\1", v)
                if v is None:
                    lets0 = {ev.a: ev.b for ev in p.events if ev.kind == "let"}
                    if p.exit == "try-err" and any(ev.kind == "try-err" and H.subst_lets(ev.a or "", lets0) == "saves.get((2 * %s))" % I for ev in p.events):
                        okp["beyond"] += 1       # `saves.get(2i)?` returns None for a slot beyond the saves
                    continue
                lets = {ev.a: ev.b for ev in p.events if ev.kind == "let"}
                rv = H.subst_lets(v, lets)
                mnew = re.match(r"^Some\(Match::new\((\w+),(.*)\.\.(.*)\)\)$", rv)
                if mnew and H._balanced(mnew.group(2)) and H._balanced(mnew.group(3)):
                    rv = "Some(Match{end:%s,start:%s,text:%s})" % (mnew.group(3), mnew.group(2), mnew.group(1))     # the private constructor
                conds = [(H.subst_lets(ev.a, lets), ev.b) for ev in p.events if ev.kind == "cond"]
                SL = "(2 * %s)" % I
                beyond = [t for c_, t in conds if c_ == "(len(saves) <= %s)" % SL]
                # `saves.get(2i)?` decides the same: staying on the path means the slot exists
                if not beyond and any(ev.kind == "try-ok" and H.subst_lets(ev.a or "", lets) == "saves.get(%s)" % SL for ev in p.events):
                    beyond = [False]
                unset = [t for c_, t in conds if c_ == "(MAX == saves[%s])" % SL]
                if rv == "None":
                    if beyond and beyond[0]:
                        okp["beyond"] += 1
                    elif unset and unset[0] and beyond and not beyond[0]:
                        okp["unset"] += 1
                    else:
                        run.violation(fam, label, "get/none", H.where(fancy), "Captures::get answers None on a path that is neither `slot beyond the saves` nor `start slot unset` (conditions %s)" % conds)
                elif rv == "Some(Match{end:saves[(1 + %s)],start:saves[%s],text:text})" % (SL, SL):
                    if not (beyond and not beyond[0] and unset and not unset[0]):
                        run.violation(fam, label, "get/some-unguarded", H.where(fancy), "Captures::get builds a Match without having excluded `beyond the saves` and `unset start` (conditions %s)" % conds)
                    okp["some"] += 1
                else:
                    run.violation(fam, label, "get/shape", H.where(fancy), "Captures::get(i) must read the slot pair (2i, 2i+1): found result %s" % rv)
            if min(okp.values()) < 1:
                run.violation(fam, label, "get/classes", H.where(fancy), "anchor-missing: Captures::get needs the three outcomes beyond / unset / Some (found %s)" % okp)
    ln = S.get_fn(run, ctx, "Captures::len", fam, label)
    if ln is not None:
        c = H.canon(ln["body"])
        n += 1
        if "CapturesImpl::Fancy{saves:saves,..} => (len(saves) / 2)" not in c or "CapturesImpl::Wrap{locations:locations,..} => locations.group_len()" not in c:
            run.violation(fam, label, "len", H.where(ln), "Captures::len must be saves.len()/2 (Fancy) and group_len() (Wrap), found %s" % c)
    cf = S.find_fn(ctx, "Regex::captures_from_pos_with_option_flags") or S.find_fn(ctx, "Regex::captures_from_pos")
    if cf:
        c = H.canon(cf[0]["body"])
        n += 1
        if "saves.truncate((2 * n_groups))" not in c:
            run.violation(fam, label, "truncate", H.where(cf[0]), "the VM's save vector (which also holds counters and the explicit stack) must be truncated to n_groups*2 before it becomes Captures")
    no = S.get_fn(run, ctx, "Regex::new_options", fam, label)
    if no is not None:
        c = H.canon(no["body"])
        n += 2
        if "n_groups:info.end_group" not in c:
            run.violation(fam, label, "n_groups", H.where(no), "n_groups must be the analysed tree's end_group (number of groups incl. group 0)")
        if "let inner_info = info.children[1].children[0]; if !inner_info.hard" not in c and "if !info.children[1].children[0].hard" not in c:
            run.violation(fam, label, "handoff-test", H.where(no), "the whole-pattern hand-off must be decided by the hardness of the user's expression inside wrap_tree's group (info.children[1].children[0])")
        # path-based: what is printed for the inner engine was destructured as Group(..) out of element 1 of the
        # Concat that wrap_tree built around the user's expression (match, if let or let-else alike)
        handoff_ok = False
        for p in S.paths_of(no["body"], max_paths=200000):
            calls = [ev.a for ev in p.events if ev.kind == "call" and H.pat_match("{x}.to_str(re_cooked,0)", ev.a or "")]
            if not calls:
                continue
            env = {}
            for ev in p.events:
                pat_, scr = None, None
                if ev.kind == "arm":
                    pat_, scr = ev.b, ev.a
                elif ev.kind in ("let", "letcond") and (ev.kind == "let" or ev.c):
                    pat_, scr = ev.a, ev.b
                if pat_ is None or scr is None:
                    continue
                scr = H.subst_lets(scr, env)
                m1 = re.match(r"^Expr::Concat\((\w+)\)$", pat_)
                m2 = re.match(r"^Expr::Group\((\w+)\)$", pat_)
                if m1:
                    env[m1.group(1)] = "Concat<%s>" % scr
                elif m2:
                    env[m2.group(1)] = "Group<%s>" % scr
                elif re.match(r"^\w+$", pat_) and ev.kind == "let" and ("Group<" in scr or "Concat<" in scr):
                    env[pat_] = scr
            x = H.pat_match("{x}.to_str(re_cooked,0)", calls[-1]).group("x")
            handoff_ok = H.subst_lets(x, env) == "Group<Concat<tree.expr>[1]>"
            if not handoff_ok:
                break
        if not handoff_ok:
            run.violation(fam, label, "handoff-expr", H.where(no), "the expression handed to the automata engine must be the user's expression (child of wrap_tree's group) printed at precedence 0")
    cl = S.get_fn(run, ctx, "Regex::captures_len", fam, label)
    if cl is not None:
        c = H.canon(cl["body"])
        n += 1
        if "RegexImpl::Fancy{n_groups:n_groups,..} => n_groups" not in c or "RegexImpl::Wrap{inner:inner,..} => inner.captures_len()" not in c:
            run.violation(fam, label, "captures_len", H.where(cl), "captures_len must be n_groups (Fancy) / inner.captures_len() (Wrap), found %s" % c)
    # DelegateBuilder group bookkeeping
    pu = S.get_fn(run, ctx, "compile::DelegateBuilder::push", fam, label)
    if pu is not None:
        c = H.canon(pu["body"])
        INFO = pu["params"][1].get("name")
        n += 2
        if not any(f % INFO in c for f in ("if self.start_group.is_none() {self.start_group = Some(%s.start_group)}",
                                           "self.start_group.get_or_insert(%s.start_group)",
                                           "self.start_group.get_or_insert_with(|| %s.start_group)")):
            run.violation(fam, label, "delegate-start", H.where(pu), "DelegateBuilder must take start_group from the first pushed Info")
        if "self.end_group = %s.end_group" % INFO not in c:
            run.violation(fam, label, "delegate-end", H.where(pu), "DelegateBuilder must take end_group from the last pushed Info")
        if "%s.expr.to_str(self.re,1)" % INFO not in c:
            run.violation(fam, label, "delegate-precedence", H.where(pu), "delegated sub-expressions are concatenated: each must be printed at precedence 1")
        # the delegate's pattern text is produced by Expr::to_str only (quoting, grouping, (?i:..) all live there)
        writers = [H.canon(nd) for nd in H.walk(pu["body"]) if nd.get("k") in ("MethodCall", "Call") and any(H.canon(a) == "self.re" for a in (nd.get("args") or []) + ([nd["recv"]] if nd.get("k") == "MethodCall" else []))]
        n += 1
        if writers != ["%s.expr.to_str(self.re,1)" % INFO]:
            run.violation(fam, label, "delegate-text-writers", H.where(pu), "the delegated pattern text must be produced only by Expr::to_str (which quotes literals and adds grouping / (?i:..)); DelegateBuilder::push also writes it through %s" % [w_ for w_ in writers if w_ != "%s.expr.to_str(self.re,1)" % INFO])
    bu = S.get_fn(run, ctx, "compile::DelegateBuilder::build", fam, label)
    if bu is not None:
        c = H.canon(bu["body"])
        n += 1
        if not re.search(r"Insn::Delegate\{end_group:end_group,inner:compiled,pattern:self\.re\.clone\(\),start_group:start_group\}", c) or "let end_group = self.end_group" not in c or "let compiled = compile_inner(self.re," not in c:
            run.violation(fam, label, "delegate-build", H.where(bu), "DelegateBuilder::build must compile the accumulated pattern and carry (start_group, end_group) into the instruction, found %s" % c[:200])
    run.ok(fam, label, "src/vm.rs", n, "one slot layout: compiler 2g/2g+1, Delegate copy (+1 shift, unset fill), Captures::get/len/truncate, n_groups")


def wrap_tree_rule(run, ctx):
    fam, label = "SLOT", "wrap_tree"
    fn = S.get_fn(run, ctx, "wrap_tree", fam, label)
    if fn is None:
        return
    c = H.canon(fn["body"])
    P = fn["params"][0].get("name")
    want = "return ExprTree{expr:Expr::Concat(<[_]>::into_vec(Box::new([Expr::Repeat{child:Box::new(Expr::Any{newline:true}),greedy:false,hi:MAX,lo:0},Expr::Group(Box::new(%s.expr))]))),..%s}" % (P, P)
    c2 = re.sub(r"(alloc::)?(slice::)?<\[_\]>::into_vec\((alloc::)?(boxed::)?Box::new\(", "VEC(", c)
    ok = "Expr::Repeat{child:Box::new(Expr::Any{newline:true}),greedy:false,hi:MAX,lo:0},Expr::Group(Box::new(%s.expr))]" % P in c and "Expr::Concat(" in c and c.count("Expr::Group(") == 1 and ("..%s}" % P) in c
    if not ok:
        run.violation(fam, label, "shape", H.where(fn), "wrap_tree must be Concat[(?s:.)*? , Group(user expr)] with the remaining fields taken from the parsed tree (leftmost search, group 0 = overall match, no extra group before the user's groups), found %s" % c[:240])
    else:
        run.ok(fam, label, H.where(fn), 1, "Concat[lazy (?s:.)*, Group(raw)]: exactly one group before the user's, in front position")


SLOT_OPERANDS = {"Save": [0], "Save0": [0], "Restore": [0], "Backref": [0],
                 "RepeatGr": ["repeat"], "RepeatNg": ["repeat"], "RepeatEpsilonGr": ["repeat", "check"], "RepeatEpsilonNg": ["repeat", "check"]}


def slot_operands(run, ctx):
    """Every slot operand the compiler puts into an instruction is 2g / 2g+1 of a group number, a fresh
    newsave() slot, or the literal 0 of \\K (supports the audited invariant `slot < saves.len()` of State::get)."""
    fam, label = "SLOT", "operands"
    n = 0
    for path, fn in sorted(ctx.facts.hir.items()):
        sp = strip_generics(path)
        if not sp.startswith("compile::"):
            continue
        lets = {}
        for nd in H.walk(fn["body"]):
            if nd.get("k") == "Let" and nd["pat"].get("k") == "Binding" and nd.get("init") is not None:
                lets.setdefault(nd["pat"]["name"], H.canon(nd["init"]))
        # pattern-bound group numbers of the Expr arms
        groups = set()
        for nd in H.walk(fn["body"]):
            if nd.get("k") == "Match":
                for arm in nd["arms"]:
                    pc = H.pat_canon(arm["pat"])
                    m = re.match(r"^Expr::(Backref|BackrefExistsCondition)\((\w+)\)$", pc)
                    if m:
                        groups.add(m.group(2))
        for nd in H.walk(fn["body"]):
            var = None
            ops = []
            if nd.get("k") == "Call":
                f = H.peel(nd["f"])
                if f.get("adt", "").endswith("vm::Insn") and f.get("variant") in SLOT_OPERANDS:
                    var = f["variant"]
                    ops = [(i, nd["args"][i]) for i in SLOT_OPERANDS[var] if isinstance(i, int) and i < len(nd["args"])]
            elif nd.get("k") == "Struct" and nd.get("adt", "").endswith("vm::Insn") and nd.get("variant") in SLOT_OPERANDS:
                var = nd["variant"]
                fl = {f_["name"]: f_["e"] for f_ in nd["fields"]}
                ops = [(k_, fl[k_]) for k_ in SLOT_OPERANDS[var] if k_ in fl]
            if var is None:
                continue
            for role, e in ops:
                n += 1
                c = H.subst_lets(H.canon(e), lets)
                ok = False
                why = ""
                if c == "self.b.newsave()":
                    ok = True
                elif c == "0" and var == "Save":
                    ok = True
                else:
                    m = re.match(r"^\(2 \* (.+)\)$", c) or re.match(r"^\(1 \+ \(2 \* (.+)\)\)$", c) or re.match(r"^\(\(2 \* (.+)\) \+ 1\)$", c)
                    if m:
                        g = m.group(1)
                        INFO = [p_.get("name") for p_ in fn["params"] if "Info" in p_.get("ty", "")]
                        if g in groups or any(g == "%s.start_group" % i_ for i_ in INFO):
                            ok = True
                        else:
                            why = "group operand %s is neither the analysed start_group nor the referenced group of a Backref" % g
                    else:
                        why = "not of the form 2g / 2g+1 / newsave()"
                if not ok:
                    run.violation(fam, label, "%s/%s/%s" % (sp, var, c), H.where(nd),
                                  "%s emits Insn::%s with slot operand `%s`: %s (a slot outside the save vector panics in State::get; a wrong slot aliases another group or counter)" % (sp, var, c, why))
    run.floor(fam, label, "src/compile.rs", n, 10, "slot operands of emitted instructions")
    run.ok(fam, label, "src/compile.rs", n, "%d slot operands: 2g / 2g+1 of a group number, fresh newsave() slots, or \\K's slot 0" % n)
