"""PANIC family: inventory of potential panic sites and their classification."""
import re
from facts import strip_generics
import mirlib as M

PTR_CHECKS = ("MisalignedPointerDereference", "NullPointerDereference")

# callee (generics-stripped, resolved where possible) -> site kind
PANIC_CALLEES = [
    (re.compile(r"Option::unwrap$"), "unwrap-option"),
    (re.compile(r"Option::expect$"), "expect-option"),
    (re.compile(r"Result::unwrap$"), "unwrap-result"),
    (re.compile(r"Result::expect$"), "expect-result"),
    (re.compile(r"Result::unwrap_err$|Result::expect_err$"), "unwrap-err"),
    (re.compile(r"core::panicking::|std::rt::begin_panic|panic_fmt|panic_display|unreachable_display|panic_explicit|panic_any|core::option::expect_failed|core::result::unwrap_failed"), "panic"),
    (re.compile(r"Vec::remove$|Vec::swap_remove$|Vec::insert$|Vec::drain$|Vec::split_off$|String::remove$|String::insert$|String::insert_str$|String::drain$|String::replace_range$|String::split_off$"), "vec-index-op"),
    (re.compile(r"\[T\]>::swap$|slice::<impl \[T\]>::swap$|::split_at$|::split_at_mut$|copy_from_slice$|clone_from_slice$|::chunks$|::windows$|::rotate_left$|::rotate_right$"), "slice-index-op"),
    (re.compile(r"regex_automata::Input::<'h>::span$|regex_automata::Input::span$|Input::<'h>::range$|Input::set_span$|Input::set_range$|Input::set_start$|Input::set_end$"), "ra-input-span"),
    (re.compile(r"char::from_digit$|::to_digit$"), "radix"),
    (re.compile(r"::step_by$"), "step-by"),
    (re.compile(r"RefCell.*::borrow(_mut)?$"), "refcell"),
]

INDEX_FNS = ("std::ops::Index::index", "std::ops::IndexMut::index_mut")


def classify_index(f):
    g = f.get("gargs") or []
    base = g[0] if g else "?"
    idx = g[1] if len(g) > 1 else "?"
    if idx == "usize":
        ik = "at"
    elif idx.startswith("std::ops::RangeFrom"):
        ik = "from"
    elif idx.startswith("std::ops::RangeTo<"):
        ik = "to"
    elif idx.startswith("std::ops::RangeInclusive") or idx.startswith("std::ops::RangeToInclusive"):
        ik = "incl"
    elif idx.startswith("std::ops::RangeFull"):
        ik = "full"
    elif idx.startswith("std::ops::Range<"):
        ik = "range"
    else:
        ik = "other:" + idx
    if base in ("str", "std::string::String"):
        bk = "str"
    else:
        bk = "slice"
    return bk, ik


class Site:
    def __init__(self, fn, body, bi, kind, ops, term, callee=None):
        self.fn = fn
        self.body = body
        self.bi = bi
        self.kind = kind          # e.g. overflow-add, bounds, str-index-range, unwrap-option, panic, ...
        self.ops = ops            # list of role expressions (tuples)
        self.term = term
        self.callee = callee
        sp = term["span"]
        self.file, self.line = sp["file"], sp["line"]
        self.exp = [m for m in (sp.get("exp") or []) if not m.startswith("desugar:")]
        self.proved = None
        self.proof = ""
        self.unproved_obls = []

    def where(self):
        return "%s:%d" % (self.file, self.line)

    def opstr(self):
        return ", ".join(M.show(o) for o in self.ops)

    def key(self):
        return "%s|%s" % (strip_generics(self.fn), self.kind)


def inventory(cg, fn_paths):
    """All potential panic sites in the given bodies."""
    sites = []
    for p in sorted(fn_paths):
        body = cg.bodies[p]
        for bi, b in enumerate(body.blocks):
            if body.cleanup[bi]:
                continue
            t = b["term"]
            if t["k"] == "Assert":
                msg = t["msg"]
                if msg in PTR_CHECKS:
                    continue
                ops = [body.op(o) for o in t["ops"]]
                cv = _const_fold(body.op(t["cond"]))
                if cv is not None and cv == t["expected"]:
                    continue  # the assertion compares constants and can never fail
                if msg == "BoundsCheck":
                    kind = "bounds"
                elif msg.startswith("Overflow:"):
                    kind = "overflow-" + msg.split(":")[1].lower()
                else:
                    kind = msg.lower()
                sites.append(Site(p, body, bi, kind, ops, t))
            elif t["k"] == "Call":
                f = t["func"]
                if f["k"] != "Const" or "fn" not in f:
                    continue
                fn = f["fn"]
                name = strip_generics(f.get("resolved") or fn)
                args = [body.op(a) for a in t["args"]]
                if fn in INDEX_FNS:
                    bk, ik = classify_index(f)
                    if ik == "full":
                        continue
                    kind = "%s-index-%s" % (bk, ik)
                    base = args[0]
                    idx = args[1] if len(args) > 1 else ("?",)
                    ops = [base]
                    if idx[0] == "agg" and idx[1].startswith("Range"):
                        ops += list(idx[2])
                    else:
                        ops.append(idx)
                    sites.append(Site(p, body, bi, kind, ops, t, name))
                    continue
                for rx, kind in PANIC_CALLEES:
                    if rx.search(name) or rx.search(strip_generics(fn)):
                        sites.append(Site(p, body, bi, kind, args, t, name))
                        break
    return sites


SMALL = 64


def _const_fold(e):
    if not isinstance(e, tuple):
        return None
    if e[0] == "Not":
        v = _const_fold(e[1])
        return None if v is None else (not v)
    if e[0] in ("Eq", "Ne", "Lt", "Le", "Gt", "Ge") and isinstance(e[1], tuple) and isinstance(e[2], tuple) \
            and e[1][0] == "const" and e[2][0] == "const" and isinstance(e[1][1], int) and isinstance(e[2][1], int):
        a, b = e[1][1], e[2][1]
        return {"Eq": a == b, "Ne": a != b, "Lt": a < b, "Le": a <= b, "Gt": a > b, "Ge": a >= b}[e[0]]
    return None


def _is_small_const(e):
    return isinstance(e, tuple) and e[0] == "const" and isinstance(e[1], int) and 0 <= e[1] <= SMALL


def _mentions_len_or_call(e, names=("codepoint_len", "len_utf8")):
    if not isinstance(e, tuple):
        return False
    if e[0] == "len":
        return True
    if e[0] == "call" and any(n in e[1] for n in names):
        return True
    if e[0] == "cast":
        return _mentions_len_or_call(e[1], names)
    return False


def obligations(site):
    """Role-based proof obligations.  Returns (primary, optional): lists of (name, rel, a, b).
    The conjunction of the primary obligations excludes the panic; optional ones are weaker
    statements that an audit entry may require when the primary one rests on an invariant."""
    k, o = site.kind, site.ops
    if k == "bounds":
        return [("index<len", "Lt", o[1], o[0])], [("index!=len", "Ne", o[1], o[0])]
    if k == "overflow-sub":
        return [("b<=a", "Le", o[1], o[0])], [("a!=0", "Ne", o[0], ("const", 0))]
    if k in ("slice-index-at",):
        ln = ("len", o[0])
        return [("index<len", "Lt", o[1], ln)], [("index!=len", "Ne", o[1], ln)]
    if k in ("slice-index-range", "str-index-range"):
        if len(o) < 3:
            return None, []          # the range is a value computed elsewhere (`s[m.range()]`): no general rule
        return [("start<=end", "Le", o[1], o[2]), ("end<=len", "Le", o[2], ("len", o[0]))], []
    if k in ("slice-index-from", "str-index-from"):
        return [("start<=len", "Le", o[1], ("len", o[0]))], []
    if k in ("slice-index-to", "str-index-to"):
        return [("end<=len", "Le", o[1], ("len", o[0]))], []
    return None, []


def try_prove(site, pf):
    """Attempt the general (class 1) discharge.  Sets site.proved / proof / proved_obls / unproved_obls."""
    k, o = site.kind, site.ops
    site.proved_obls = []
    if k == "overflow-add":
        # A-OFFSET: an offset / length / count plus a small constant, a length or a code point length
        a, b = o
        if _is_small_const(a) or _is_small_const(b):
            site.proved, site.proof = True, "A-OFFSET: + small constant"
            return
        if _mentions_len_or_call(a) or _mentions_len_or_call(b):
            site.proved, site.proof = True, "A-OFFSET: + length of in-memory data"
            return
        site.proved = False
        site.unproved_obls = ["no-overflow"]
        return
    prim, opt = obligations(site)
    if prim is None:
        site.proved = False
        site.unproved_obls = ["no-general-rule"]
        return
    cons, nes, used = pf.holds_at(site.bi, None)
    un = []
    if k.startswith("str-index") and len(o) >= 2:
        # a str slice also panics when an end is inside a character: guards cannot show that an offset is a
        # character boundary; only 0 and the string's own length are boundaries by construction
        for op in o[1:]:
            if not (op == ("const", 0) or op == ("len", o[0])):
                un.append("char-boundary")
                break
    for name, rel, a, b in prim:
        if M.prove(cons, nes, rel, a, b):
            site.proved_obls.append(name)
        else:
            un.append(name)
    for name, rel, a, b in opt:
        if M.prove(cons, nes, rel, a, b):
            site.proved_obls.append(name)
    site.unproved_obls = un
    site.proved = not un
    site.proof = "guards: " + "; ".join(sorted(set(_fact_str(u[2]) for u in used)))[:300]


def prove_at_call(body, pf, bi, rel, a, b):
    cons, nes, used = pf.holds_at(bi, None)
    return M.prove(cons, nes, rel, a, b), "; ".join(sorted(set(_fact_str(u[2]) for u in used)))[:300]


def _fact_str(f):
    if f[0] in ("true", "false"):
        return ("" if f[0] == "true" else "!") + M.show(f[1])
    if f[0] == "def":
        return "%s := %s" % (M.show(f[1]), M.show(f[2]))
    if f[0] == "eqc":
        return "%s == %s" % (M.show(f[1]), f[2])
    return "%s not in %s" % (M.show(f[1]), f[2])
