"""PANIC rule: every potential panic site in scope is discharged by guards, required guards hold,
and the rest is covered by a hand-confirmed audit entry."""
import json
import os
import re

from facts import strip_generics
import mirlib as M
import panics as P

VERIF = os.path.dirname(os.path.dirname(os.path.abspath(__file__)))

COMPILE_ENTRIES = {
    "Regex::new", "RegexBuilder::new", "RegexBuilder::build", "RegexBuilder::case_insensitive",
    "RegexBuilder::backtrack_limit", "RegexBuilder::delegate_size_limit",
    "RegexBuilder::delegate_dfa_size_limit", "<Regex as FromStr>::from_str",
    "<Regex as TryFrom>::try_from", "Expr::parse_tree", "Expr::to_str", "analyze::analyze",
    "compile::compile", "wrap_tree", "escape", "<error::Error as Display>::fmt",
    "<error::ParseError as Display>::fmt", "<error::CompileError as Display>::fmt",
    "<error::RuntimeError as Display>::fmt", "Regex::as_str", "Regex::captures_len",
    "Regex::capture_names", "Regex::debug_print", "<Regex as Debug>::fmt", "<Regex as Display>::fmt",
}
# anchors that must exist for the scoping to be meaningful
COMPILE_ANCHORS = ["Regex::new", "RegexBuilder::build", "Expr::parse_tree", "Expr::to_str"]
SEARCH_ANCHORS = ["Regex::is_match", "Regex::find_from_pos", "Regex::captures_from_pos",
                  "<Matches as Iterator>::next", "<CaptureMatches as Iterator>::next",
                  "<Split as Iterator>::next", "<SplitN as Iterator>::next", "Regex::try_replacen",
                  "Captures::get", "Match::as_str"]


def load_table():
    with open(os.path.join(VERIF, "tables", "panic_audit.json")) as fh:
        return json.load(fh)


def entry_sets(ctx):
    """(compile entries, search entries) as lists of def paths."""
    comp, search = [], []
    for p, fn in ctx.facts.fns.items():
        if not fn.get("exported"):
            continue
        sp = strip_generics(p)
        if sp in COMPILE_ENTRIES:
            comp.append(p)
        else:
            search.append(p)
    return comp, search


def scope_fns(ctx, which):
    comp, search = entry_sets(ctx)
    if which == "compile":
        return ctx.cg.reachable(comp), comp
    if which == "search":
        return ctx.cg.reachable(search), search
    raise ValueError(which)


def _match_entries(entries, site, facts=None):
    """Audit entries that can cover a site, best first.  A site inside a closure, or inside a helper that is not in
    the baseline table, is looked up under the baseline function it is part of as well (moving audited code into a
    closure or a private helper, or out of one, does not un-audit it); inside such a helper the indexed value goes
    by the helper's parameter name, so the entry's base is not compared there."""
    fn = strip_generics(site.fn)
    fns = [fn]
    if facts is not None:
        succ = getattr(facts, "successors", {}) or {}
        if fn in succ:
            fns.append(succ[fn])
        fns += sorted(facts.owners_of(fn) - {fn})
    base = M.show(site.ops[0]) if site.ops and "index" in site.kind else ""
    exact, loose = [], []
    for f in fns:
        for e in entries:
            efn = e["fn"]
            if "::{closure" in efn and f != efn:
                efn = efn[:efn.index("::{closure")]
            if efn != f or e["kind"] != site.kind:
                continue
            if "base" in e and e["base"] != base:
                # the name the indexed value goes by is a preference, not a requirement (a renamed or inlined local
                # does not un-audit the site); the per-entry site counts still bound what an entry can cover
                loose.append(e)
                continue
            exact.append(e)
    exact.sort(key=lambda e: 0 if "base" in e else 1)
    return exact + loose


def _subst_arg(spec, args, pnames=None, base_params=None):
    if isinstance(spec, int):
        return ("const", spec)
    if isinstance(spec, str) and spec.startswith("arg"):
        return args[int(spec[3:])]
    if isinstance(spec, str) and spec.startswith("p:"):
        if not pnames or spec[2:] not in pnames:
            # a renamed parameter: fall back to the position the name had in the baseline signature
            if base_params and spec[2:] in base_params and len(base_params) == len(args):
                return args[base_params.index(spec[2:])]
            raise KeyError(spec)
        return args[pnames.index(spec[2:])]
    if isinstance(spec, list):
        return (spec[0],) + tuple(_subst_arg(x, args, pnames, base_params) for x in spec[1:])
    raise ValueError(spec)


def run(run, ctx, fns, label, restrict=None):
    """Evaluate the PANIC rule over the bodies `fns`.  restrict: optional predicate on stripped fn path
    to narrow reporting to a property's own functions."""
    table = load_table()
    entries = table["entries"]
    sites = P.inventory(ctx.cg, fns)
    if restrict:
        sites = [s for s in sites if restrict(strip_generics(s.fn))]
    pfs = {}
    used = {}
    n_general = n_guard = n_audit = 0
    ordinal = {}
    for s in sites:
        pf = pfs.setdefault(s.fn, M.PointFacts(s.body))
        P.try_prove(s, pf)
        # trace-only code
        if s.proved:
            n_general += 1
            if len(run.samples) < 12 and s.kind not in ("overflow-add",):
                run.samples.append({"rule": "PANIC/general", "where": s.where(), "verdict": "discharged",
                                    "obligation": "%s(%s) in %s" % (s.kind, s.opstr(), strip_generics(s.fn)),
                                    "by": s.proof})
            continue
        cands = _match_entries(entries, s, ctx.facts)
        free = [x for x in cands if used.get(id(x), 0) < x["count"]]
        # among entries with room prefer one whose required guards this site establishes, the most demanding first
        fit = sorted([x for x in free if all(m in s.proved_obls for m in x.get("must", []))], key=lambda x: -len(x.get("must", [])))
        e = fit[0] if fit else (free[0] if free else (cands[0] if cands else None))
        fnp = strip_generics(s.fn)
        okey = (fnp, s.kind, s.opstr())
        ordinal[okey] = ordinal.get(okey, 0) + 1
        sk = "%s|%s|%s#%d" % (fnp, s.kind, s.opstr(), ordinal[okey])
        if e is None:
            run.violation("PANIC", label, "unaudited|" + sk, s.where(),
                          "unaudited potential panic: %s(%s) in %s, obligations not provable from guards: %s"
                          % (s.kind, s.opstr(), fnp, ",".join(s.unproved_obls)),
                          {"kind": s.kind, "ops": s.opstr(), "fn": fnp})
            continue
        ek = id(e)
        used[ek] = used.get(ek, 0) + 1
        missing = [m for m in e.get("must", []) if m not in s.proved_obls]
        if missing:
            for m in missing:
                run.violation("PANIC", label, "guard-missing|%s|%s" % (sk, m), s.where(),
                              "required guard not established: %s for %s(%s) in %s (%s)"
                              % (m, s.kind, s.opstr(), fnp, e["reason"][:140]),
                              {"kind": s.kind, "ops": s.opstr(), "fn": fnp, "obligation": m,
                               "facts": s.proof})
        elif e.get("must"):
            n_guard += 1
            if len(run.samples) < 30:
                run.samples.append({"rule": "PANIC/guard", "where": s.where(), "verdict": "required guard holds",
                                    "obligation": "%s for %s(%s) in %s" % (",".join(e["must"]), s.kind, s.opstr(), fnp),
                                    "by": s.proof})
        else:
            n_audit += 1
        if used[ek] > e["count"]:
            run.violation("PANIC", label, "count-exceeded|" + sk, s.where(),
                          "more %s sites in %s than the %d that were audited (%s)" % (s.kind, fnp, e["count"], s.opstr()),
                          {"kind": s.kind, "fn": fnp})
    # preconditions of local callees, checked at their call sites
    n_pre = 0
    pre = {p["callee"]: p for p in table["preconditions"]}
    for fnpath in sorted(fns):
        body = ctx.cg.bodies[fnpath]
        fnp = strip_generics(fnpath)
        if restrict and not restrict(fnp):
            continue
        finfo = ctx.facts.fns.get(fnpath, {})
        for callee, bi, t in ctx.cg.calls.get(fnpath, []):
            cs = strip_generics(callee)
            cs = (getattr(ctx.facts, "successors", {}) or {}).get(cs, cs)
            if cs not in pre:
                continue
            p = pre[cs]
            args = [body.op(a) for a in t["args"]]
            cb = ctx.cg.bodies.get(callee)
            pnames = [cb.names.get(i + 1) for i in range(cb.argc)] if cb is not None else None
            pf = pfs.setdefault(fnpath, M.PointFacts(body))
            for req in p["requires"]:
                rel = req[0]
                try:
                    import norm as _norm
                    _norm.baseline()
                    bp = (_norm._BASE_PARAMS or {}).get(cs)
                    a = _subst_arg(req[1], args, pnames, bp)
                    b = _subst_arg(req[2], args, pnames, bp)
                except KeyError as ex:
                    run.violation("PANIC", label, "precondition-anchor|%s|%s" % (cs, ex), "src", "anchor-missing: %s no longer has the parameter %s its audited precondition is stated over" % (cs, ex))
                    continue
                # a caller that forwards its own parameter unchanged inherits the documented precondition
                if p.get("forwarded_ok"):
                    fa = _subst_arg(req[1], args, pnames, bp)
                    if fa[0] == "var" and fa[2] <= body.argc and finfo.get("exported"):
                        continue
                    if fa == ("const", 0):
                        continue
                ok, how = P.prove_at_call(body, pf, bi, rel, a, b)
                n_pre += 1
                where = "%s:%d" % (t["span"]["file"], t["span"]["line"])
                desc = "%s(%s, %s) at call of %s in %s" % (rel, M.show(a), M.show(b), cs, fnp)
                if ok:
                    n_guard += 1
                    if len(run.samples) < 36:
                        run.samples.append({"rule": "PANIC/precondition", "where": where,
                                            "verdict": "established", "obligation": desc, "by": how})
                else:
                    run.violation("PANIC", label, "precondition|%s|%s|%s(%s,%s)" % (fnp, cs, rel, M.show(a), M.show(b)),
                                  where, "callee precondition not established: " + desc + " (" + p["reason"] + ")",
                                  {"fn": fnp, "callee": cs})
    run.count("panic_sites", len(sites))
    run.count("panic_discharged_general", n_general)
    run.count("panic_required_guards", n_guard)
    run.count("panic_audited_invariant", n_audit)
    run.count("panic_precondition_calls", n_pre)
    run.obligations += n_general + n_guard + n_audit
    run.log("RULE PANIC/%s: %d bodies, %d potential panic sites: %d discharged by guards, %d required guards hold, "
            "%d audited invariants, %d precondition call sites" % (label, len(fns), len(sites), n_general, n_guard, n_audit, n_pre))
    return sites
