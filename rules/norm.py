"""Normalisations applied to the fact file before any rule runs, so that rules see through refactorings that
do not change behaviour.

1. Helper inlining (HIR).  A crate-local function that is not in tables/baseline_fns.json (i.e. one that did not
   exist when the rules were written: the product of an "extract function" refactoring, or new code) is inlined
   at its call sites: parameters are replaced by the arguments (or bound by `let` when an argument is not a
   simple place / literal), `return v` becomes `break 'inlN v` out of a labelled block.  Rules therefore see the
   caller as it would read with the helper's body written in place.  The helper's own body stays in the fact
   file (ownership rules still see who writes what).  Recursive helpers and helpers with more than
   MAX_INLINE_NODES nodes are left alone.
2. Owner map.  For MIR-based rules every such helper and every closure gets an `owner`: the baseline function
   it belongs to (closure -> enclosing function; helper -> its unique baseline caller).
"""
import copy
import json
import os

from facts import strip_generics, VERIF

MAX_INLINE_NODES = 400
MAX_DEPTH = 3
_BASE = None
_BASE_PARAMS = None
SUCCESSORS = {}      # replacement helper -> the small baseline function it stands in for (renamed *and* changed)
_BASE_LOCALS = None


def baseline():
    global _BASE, _BASE_PARAMS, _BASE_LOCALS
    if _BASE is None:
        with open(os.path.join(VERIF, "tables", "baseline_fns.json")) as fh:
            t = json.load(fh)
        _BASE = set(t["fns"])
        _BASE_PARAMS = t.get("params", {})
        _BASE_LOCALS = t.get("locals", {})
    return _BASE


_PURE_METHODS = {"len", "as_bytes", "as_str", "as_ref"}


def _pure_place(e):
    """A side-effect free expression over places: paths, fields, indexing / slicing, references, arithmetic, literals."""
    if not isinstance(e, dict):
        return False
    k = e.get("k")
    if k in ("Path", "Lit"):
        return True
    if k in ("Field", "AddrOf", "DropTemps", "Paren", "Cast"):
        return _pure_place(e.get("e"))
    if k == "Unary":
        return _pure_place(e.get("e"))
    if k == "Index":
        return _pure_place(e.get("e")) and _pure_place(e.get("i"))
    if k == "Binary":
        return _pure_place(e.get("l")) and _pure_place(e.get("r"))
    if k == "Struct" and str(e.get("adt", "")).startswith("std::ops::Range") or k == "Struct" and str(e.get("adt", "")).startswith("core::ops::Range"):
        return all(_pure_place(f.get("e")) for f in e.get("fields", []))
    if k == "MethodCall" and e.get("name") in _PURE_METHODS and not e.get("args"):
        return _pure_place(e.get("recv"))
    if k == "MethodCall" and e.get("name") == "flag" and len(e.get("args") or []) == 1 and str(e.get("def", "")).endswith("Parser::<'a>::flag") | str(e.get("resolved", "")).endswith("::flag"):
        # Parser::flag(&self, bit) only reads self.flags
        return _pure_place(e.get("recv")) and _pure_place(e["args"][0])
    return False


def inline_new_locals(facts):
    """A named temporary that the baseline function did not have (`let rest = &self.re[ix..];`) is read through: its
    uses are replaced by the initialiser, provided nothing the initialiser mentions is assigned in the function."""
    baseline()
    done = []
    for path, fn in facts.hir.items():
        sp = strip_generics(path)
        known = _BASE_LOCALS.get(sp)
        if known is None:
            continue
        known = set(known)
        body = fn["body"]
        have = {n.get("name") for n in _walk(body) if n.get("k") == "Binding"} | {p.get("name") for p in fn.get("params", [])}
        if known - have:
            # a baseline local is gone: the unfamiliar names are probably renames, which the rules' placeholders
            # absorb; reading them through would remove statements the rules expect
            continue
        # everything assigned or mutably borrowed anywhere in the function (by root name / self field)
        written = set()
        for n in _walk(body):
            if n.get("k") in ("Assign", "AssignOp"):
                l = n.get("l")
                while isinstance(l, dict) and l.get("k") in ("Field", "Index", "Unary", "DropTemps", "Paren", "AddrOf"):
                    if l.get("k") == "Field" and isinstance(l.get("e"), dict) and l["e"].get("k") == "Path" and l["e"].get("name") == "self":
                        written.add("self." + str(l.get("name")))
                    l = l.get("e")
                if isinstance(l, dict) and l.get("k") == "Path":
                    written.add(l.get("name"))
        for blk in [n for n in _walk(body) if n.get("k") == "Block" and n.get("stmts")]:
            i = 0
            while i < len(blk["stmts"]):
                st = blk["stmts"][i]
                pat = st.get("pat") or {}
                if (st.get("k") == "Let" and pat.get("k") == "Binding" and not pat.get("mut") and not pat.get("byref")
                        and pat.get("name") not in known and st.get("init") is not None and st.get("else") is None and _pure_place(st["init"])):
                    free = set()
                    for n in _walk(st["init"]):
                        if n.get("k") == "Path" and n.get("res") == "Local":
                            free.add(n.get("name"))
                        if n.get("k") == "Field" and isinstance(n.get("e"), dict) and n["e"].get("k") == "Path" and n["e"].get("name") == "self":
                            free.add("self." + str(n.get("name")))
                        if n.get("k") == "MethodCall" and n.get("name") == "flag":
                            free.add("self.flags")
                    bid = pat.get("id")
                    unsafe = bool(free & written)
                    if unsafe:
                        # written somewhere in the function: still fine if nothing between the `let` and the last use
                        # (in this block) writes it, and the use is not inside a loop that also writes it
                        rest_ = blk["stmts"][i + 1:] + ([blk["expr"]] if blk.get("expr") is not None else [])
                        last = -1
                        for j, r_ in enumerate(rest_):
                            if any(n.get("k") == "Path" and n.get("res") == "Local" and n.get("id") == bid for n in _walk(r_)):
                                last = j
                        span_ = rest_[:last + 1]
                        w2 = set()
                        for n in _walk(span_):
                            if n.get("k") in ("Assign", "AssignOp"):
                                l = n.get("l")
                                while isinstance(l, dict) and l.get("k") in ("Field", "Index", "Unary", "DropTemps", "Paren", "AddrOf"):
                                    if l.get("k") == "Field" and isinstance(l.get("e"), dict) and l["e"].get("k") == "Path" and l["e"].get("name") == "self":
                                        w2.add("self." + str(l.get("name")))
                                    l = l.get("e")
                                if isinstance(l, dict) and l.get("k") == "Path":
                                    w2.add(l.get("name"))
                            if n.get("k") == "MethodCall" and str(n.get("recv_ty", "")).startswith("&mut"):
                                r0 = n.get("recv")
                                while isinstance(r0, dict) and r0.get("k") in ("Field", "Index", "Unary", "DropTemps", "Paren", "AddrOf"):
                                    r0 = r0.get("e")
                                if isinstance(r0, dict) and r0.get("k") == "Path":
                                    w2.add(r0.get("name"))
                        unsafe = bool(free & w2) or last < 0
                    if not unsafe:
                        init = st["init"]

                        def sub(n):
                            if isinstance(n, list):
                                return [sub(x) for x in n]
                            if not isinstance(n, dict):
                                return n
                            if n.get("k") == "Path" and n.get("res") == "Local" and n.get("id") == bid:
                                return copy.deepcopy(init)
                            return {k_: (sub(v) if isinstance(v, (dict, list)) else v) for k_, v in n.items()}
                        rest = blk["stmts"][i + 1:]
                        blk["stmts"][i:] = sub(rest)
                        if blk.get("expr") is not None:
                            blk["expr"] = sub(blk["expr"])
                        done.append((sp, pat.get("name")))
                        continue
                i += 1
    return done


def rename_fns(raw):
    """A private function that was merely renamed (same impl / module, same parameter names, old name gone, exactly
    one candidate) is presented under its baseline name everywhere in the fact file."""
    baseline()
    SUCCESSORS.clear()
    cur = {}
    bodies_now = {}
    for fn in raw.get("hir", []):
        sp = strip_generics(fn["path"])
        if "{closure" in sp or "tests::" in sp:
            continue
        cur[sp] = [p.get("name") for p in fn.get("params", [])]
        bodies_now[sp] = fn.get("body")
    with open(os.path.join(VERIF, "tables", "baseline_fns.json")) as fh:
        small = json.load(fh).get("small_bodies", {})
    exported = {strip_generics(f["path"]) for f in raw["items"]["fns"] if f.get("exported") or f.get("trait_item")}
    missing = [b for b in _BASE if b not in cur and "tests::" not in b and "<" not in b]
    new = [c for c in cur if c not in _BASE and c not in exported and "<" not in c]
    ren = {}
    for b in missing:
        parent = b.rsplit("::", 1)[0] if "::" in b else ""
        want = _BASE_PARAMS.get(b)
        if want is None:
            continue
        cands = [c for c in new if (c.rsplit("::", 1)[0] if "::" in c else "") == parent and cur[c] == want]
        # a small function whose body also changed is not "merely renamed": its replacement is read as a helper
        # (inlined at its call sites), so the rules see what the code now does rather than the old name
        if b in small and len(cands) == 1:
            import hirlib as _H
            if _H.canon(bodies_now[cands[0]]).replace(cands[0].rsplit("::", 1)[-1], b.rsplit("::", 1)[-1]) != small[b]:
                SUCCESSORS[cands[0]] = b       # what was audited for the old function is looked up for its replacement
                continue
        if len(cands) == 1 and sum(1 for b2 in missing if _BASE_PARAMS.get(b2) == want and (b2.rsplit("::", 1)[0] if "::" in b2 else "") == parent) == 1:
            ren[cands[0].rsplit("::", 1)[-1]] = b.rsplit("::", 1)[-1]
    if not ren:
        return {}
    import re as _re
    rx = _re.compile(r"(?<![A-Za-z0-9_])(%s)(?![A-Za-z0-9_])" % "|".join(_re.escape(k) for k in ren))

    def fix(n):
        if isinstance(n, dict):
            for k, v in list(n.items()):
                if isinstance(v, str):
                    if k not in ("file",) and rx.search(v):
                        n[k] = rx.sub(lambda m: ren[m.group(1)], v)
                else:
                    fix(v)
        elif isinstance(n, list):
            for i, v in enumerate(n):
                if isinstance(v, str):
                    if rx.search(v):
                        n[i] = rx.sub(lambda m: ren[m.group(1)], v)
                else:
                    fix(v)
    fix(raw)
    return ren


def rename_variants(raw):
    """A variant of a private enum that was merely renamed (same position, same number of variants, all other names
    unchanged) is presented under its baseline name."""
    baseline()
    with open(os.path.join(VERIF, "tables", "baseline_fns.json")) as fh:
        base = json.load(fh).get("private_enum_variants", {})
    ren = {}
    for a in raw["items"]["adts"]:
        sp = strip_generics(a["path"])
        if sp not in base or a.get("kind") != "Enum":
            continue
        cur = [v["name"] for v in a["variants"]]
        old = base[sp]
        if len(cur) != len(old) or cur == old:
            continue
        diff = [(c, o) for c, o in zip(cur, old) if c != o]
        if any(c in old or o in cur for c, o in diff):
            continue        # reordered, not renamed
        last = sp.rsplit("::", 1)[-1]
        for c, o in diff:
            ren[(a["path"], last, c)] = o
    if not ren:
        return {}

    def fix(n):
        if isinstance(n, dict):
            for (apath, last, c), o in ren.items():
                if n.get("variant") == c and str(n.get("adt", "")).endswith(last):
                    n["variant"] = o
                if n.get("name") == c and n.get("k") is None and "fields" in n:
                    n["name"] = o
            for k, v in list(n.items()):
                if isinstance(v, str):
                    for (apath, last, c), o in ren.items():
                        if "%s::%s" % (last, c) in v:
                            n[k] = v.replace("%s::%s" % (last, c), "%s::%s" % (last, o))
                else:
                    fix(v)
        elif isinstance(n, list):
            for v in n:
                fix(v)
    fix(raw)
    return {"%s::%s" % (l, c): o for (_, l, c), o in ren.items()}


def reorder_params(facts):
    """A function whose parameters were merely reordered (same names) is presented in the baseline order, at its
    definition and at every call: rules then do not depend on the parameter order."""
    baseline()
    perm = {}
    with open(os.path.join(VERIF, "tables", "baseline_fns.json")) as fh:
        base_types = json.load(fh).get("param_types", {})
    for path, fn in facts.hir.items():
        sp = strip_generics(path)
        want = _BASE_PARAMS.get(sp)
        have = [p.get("name") for p in fn.get("params", [])]
        if want and None not in have and have != want and sorted(have) == sorted(want) and len(set(have)) == len(have):
            perm[path] = [have.index(n) for n in want]
        elif want and None not in have and have != want and len(have) == len(want) and base_types.get(sp) \
                and all(p.get("k") == "Binding" for p in fn.get("params", [])):
            # parameters renamed (and possibly reordered as well): they are recognised by their types when these
            # tell them apart, or by position when the types are unchanged; the baseline names are restored
            wt = base_types[sp]
            ht = [p.get("ty") for p in fn["params"]]
            order = None
            if ht == wt:
                order = list(range(len(want)))
            elif sorted(map(str, ht)) == sorted(map(str, wt)) and len(set(map(str, ht))) == len(ht):
                order = [ht.index(t_) for t_ in wt]
            if order is not None:
                ren = {fn["params"][order[i]]["name"]: want[i] for i in range(len(want)) if fn["params"][order[i]]["name"] != want[i]}
                others = {n_.get("name") for n_ in _walk(fn["body"]) if n_.get("k") == "Binding"} | {p.get("name") for p in fn["params"]}
                if ren and not (set(ren.values()) & (others - set(ren))):
                    import hirlib as _H
                    fn["params"] = _H.rename(fn["params"], ren)
                    fn["body"] = _H.rename(fn["body"], ren)
                if order != list(range(len(want))):
                    perm[path] = order
    if not perm:
        return {}

    def fix(n):
        if isinstance(n, list):
            for x in n:
                fix(x)
            return
        if not isinstance(n, dict):
            return
        for v in n.values():
            if isinstance(v, (dict, list)):
                fix(v)
        callee = _callee_of(n) if n.get("k") in ("Call", "MethodCall") else None
        if callee in perm:
            pm = perm[callee]
            if n["k"] == "MethodCall":
                allargs = [n["recv"]] + list(n["args"])
                if len(allargs) == len(pm) and pm[0] == 0:
                    allargs = [allargs[i] for i in pm]
                    n["recv"], n["args"] = allargs[0], allargs[1:]
            elif len(n.get("args") or []) == len(pm):
                n["args"] = [n["args"][i] for i in pm]
    for path, fn in facts.hir.items():
        fix(fn["body"])
    for path, pm in perm.items():
        ps = facts.hir[path]["params"]
        facts.hir[path]["params"] = [ps[i] for i in pm]
    return {strip_generics(k): v for k, v in perm.items()}


def _walk(n):
    if isinstance(n, dict):
        yield n
        for v in n.values():
            if isinstance(v, (dict, list)):
                yield from _walk(v)
    elif isinstance(n, list):
        for x in n:
            yield from _walk(x)


def _size(n):
    return sum(1 for _ in _walk(n))


def _simple(arg):
    """An argument that can be substituted textually: a place expression, a literal, or a reference to one."""
    k = arg.get("k")
    if k in ("Path", "Lit"):
        return True
    if k in ("Field", "AddrOf", "Unary", "DropTemps", "Paren"):
        inner = arg.get("e")
        if k == "Unary" and arg.get("op") != "Deref":
            return False
        return isinstance(inner, dict) and _simple(inner)
    if k == "MethodCall" and arg.get("name") in ("len", "as_bytes", "as_str", "as_ref") and not arg.get("args"):
        return _simple(arg["recv"])
    return False


def _callee_of(node):
    k = node.get("k")
    if k == "MethodCall":
        return node.get("resolved") or node.get("def")
    if k == "Call":
        f = node.get("f") or {}
        while f.get("k") in ("DropTemps", "Paren") and isinstance(f.get("e"), dict):
            f = f["e"]
        if f.get("k") == "Path" and f.get("res") == "Def":
            return f.get("def")
    return None


class Inliner:
    def __init__(self, hir, unknown):
        self.hir = hir
        self.unknown = unknown
        self.counter = 0
        self.inlined = []
        self.kept = set()        # helpers with a call site that could not be inlined, or used as a value

    def _subst(self, node, env, label):
        """Deep copy of node with parameter uses replaced and `return` turned into `break 'label`."""
        if isinstance(node, list):
            return [self._subst(x, env, label) for x in node]
        if not isinstance(node, dict):
            return node
        k = node.get("k")
        if k == "Path" and node.get("res") == "Local" and node.get("id") in env:
            return copy.deepcopy(env[node["id"]])
        if k == "Closure":
            # a `return` inside a closure belongs to the closure
            out = {kk: (self._subst(v, env, None) if isinstance(v, (dict, list)) else v) for kk, v in node.items()}
            return out
        if k == "Ret" and label is not None:
            return {"k": "Break", "label": label, "e": self._subst(node.get("e"), env, label) if node.get("e") is not None else None,
                    "span": node.get("span"), "ty": node.get("ty")}
        return {kk: (self._subst(v, env, label) if isinstance(v, (dict, list)) else v) for kk, v in node.items()}

    def expand_call(self, node, caller, depth, stack):
        callee = _callee_of(node)
        if callee is None or callee not in self.unknown:
            return None
        if callee == caller or callee in stack or depth >= MAX_DEPTH:
            self.kept.add(callee)
            return None
        fn = self.hir.get(callee)
        if fn is None or _size(fn["body"]) > MAX_INLINE_NODES:
            self.kept.add(callee)
            return None
        params = fn.get("params") or []
        args = ([node["recv"]] if node.get("k") == "MethodCall" else []) + list(node.get("args") or [])
        if len(params) != len(args) or any(p.get("k") != "Binding" for p in params):
            self.kept.add(callee)
            return None
        env = {}
        lets = []
        for p, a in zip(params, args):
            if _simple(a):
                env[p["id"]] = a
            else:
                lets.append({"k": "Let", "pat": copy.deepcopy(p), "init": a, "span": a.get("span")})
        has_ret = any(n.get("k") == "Ret" for n in self._walk_no_closure(fn["body"]))
        self.counter += 1
        label = "'inl%d" % self.counter if has_ret else None
        body = self._subst(fn["body"], env, label)
        # nested helpers inside the inlined body
        body = self.rewrite(body, caller, depth + 1, stack + [callee])
        self.inlined.append((strip_generics(caller), strip_generics(callee)))
        if body.get("k") == "Block" and not body.get("stmts") and body.get("expr") is not None and not lets and label is None:
            return body["expr"]
        if body.get("k") != "Block":
            body = {"k": "Block", "stmts": [], "expr": body, "span": node.get("span")}
        body = dict(body)
        body["stmts"] = lets + list(body.get("stmts") or [])
        if label is not None:
            body["label"] = label
        body["inlined_from"] = strip_generics(callee)
        body["ty"] = node.get("ty")
        return body

    def _walk_no_closure(self, n):
        if isinstance(n, dict):
            yield n
            if n.get("k") == "Closure":
                return
            for v in n.values():
                if isinstance(v, (dict, list)):
                    yield from self._walk_no_closure(v)
        elif isinstance(n, list):
            for x in n:
                yield from self._walk_no_closure(x)

    def rewrite(self, node, caller, depth=0, stack=()):
        stack = list(stack)
        if isinstance(node, list):
            return [self.rewrite(x, caller, depth, stack) for x in node]
        if not isinstance(node, dict):
            return node
        out = {kk: (self.rewrite(v, caller, depth, stack) if isinstance(v, (dict, list)) else v) for kk, v in node.items()}
        if out.get("k") in ("Call", "MethodCall"):
            rep = self.expand_call(out, caller, depth, stack)
            if rep is not None:
                return rep
        # statement-level iterator adaptors read as the loops they are
        lp = self._adaptor_loop(out)
        if lp is not None:
            return lp
        lp = self._while_let_loop(out)
        if lp is not None:
            return lp
        lp = self._match_as_try(out)
        if lp is not None:
            return lp
        lp = self._not_any_not(out)
        if lp is not None:
            return lp
        if out.get("k") == "Try":
            inner = out.get("e")
            while isinstance(inner, dict) and inner.get("k") in ("DropTemps", "Paren") and isinstance(inner.get("e"), dict):
                inner = inner["e"]
            if isinstance(inner, dict) and inner.get("k") == "Block" and inner.get("inlined_from"):
                return self._try_of_block(inner, out)
        if out.get("k") == "Path" and out.get("res") == "Def" and out.get("def") in self.unknown:
            out["_maybe_value_use"] = True
        return out

    @staticmethod
    def _not_any_not(node):
        """`!it.any(|x| !p)` is `it.all(|x| p)`, and `!it.all(|x| !p)` is `it.any(|x| p)`"""
        if node.get("k") != "Unary" or node.get("op") != "Not":
            return None
        c = node.get("e")
        while isinstance(c, dict) and c.get("k") in ("DropTemps", "Paren"):
            c = c.get("e")
        if not (isinstance(c, dict) and c.get("k") == "MethodCall" and c.get("name") in ("any", "all") and len(c.get("args") or []) == 1):
            return None
        clo = c["args"][0]
        if clo.get("k") != "Closure":
            return None
        b = clo.get("body")
        while isinstance(b, dict) and ((b.get("k") == "Block" and not b.get("stmts") and b.get("expr") is not None) or b.get("k") in ("DropTemps", "Paren")):
            b = b.get("expr") if b.get("k") == "Block" else b.get("e")
        if not (isinstance(b, dict) and b.get("k") == "Unary" and b.get("op") == "Not"):
            return None
        nclo = dict(clo)
        nclo["body"] = b["e"]
        out = dict(c)
        out["name"] = "all" if c["name"] == "any" else "any"
        out["args"] = [nclo]
        for k_ in ("def", "resolved"):
            if isinstance(out.get(k_), str):
                out[k_] = out[k_].replace("::any", "::" + out["name"]) if c["name"] == "any" else out[k_].replace("::all", "::" + out["name"])
        return out

    @staticmethod
    def _match_as_try(node):
        """`match e { Ok(x) => x, Err(err) => return Err(err) }` (or the Some / None form) is `e?` written out."""
        if node.get("k") != "Match" or len(node.get("arms") or []) != 2:
            return None

        def unwrap(b):
            while isinstance(b, dict) and ((b.get("k") == "Block" and not b.get("stmts") and b.get("expr") is not None and not b.get("label")) or b.get("k") in ("DropTemps", "Paren")):
                b = b.get("expr") if b.get("k") == "Block" else b.get("e")
            return b
        good = bad = None
        for a in node["arms"]:
            if a.get("guard"):
                return None
            p = a["pat"]
            if p.get("k") == "TupleStructPat" and p.get("variant") in ("Ok", "Some") and len(p.get("pats") or []) == 1 and p["pats"][0].get("k") == "Binding":
                good = a
            elif p.get("k") == "TupleStructPat" and p.get("variant") == "Err" and len(p.get("pats") or []) == 1 and p["pats"][0].get("k") == "Binding":
                bad = a
            elif p.get("variant") == "None":
                bad = a
        if good is None or bad is None:
            return None
        gb = unwrap(good["body"])
        if not (isinstance(gb, dict) and gb.get("k") == "Path" and gb.get("id") == good["pat"]["pats"][0].get("id")):
            return None
        bb = unwrap(bad["body"])
        if not (isinstance(bb, dict) and bb.get("k") == "Ret" and isinstance(bb.get("e"), dict)):
            return None
        r = unwrap(bb["e"])
        if bad["pat"].get("variant") == "Err":
            if not (r.get("k") == "Call" and (r.get("f") or {}).get("variant") == "Err" and len(r.get("args") or []) == 1):
                return None
            arg = unwrap(r["args"][0])
            if not (arg.get("k") == "Path" and arg.get("id") == bad["pat"]["pats"][0].get("id")):
                return None
        else:
            if not (r.get("k") == "Path" and r.get("variant") == "None"):
                return None
        return {"k": "Try", "e": node["scrut"], "span": node.get("span"), "ty": node.get("ty")}

    @staticmethod
    def _while_let_loop(node):
        """`loop { let p = match e { Some(x) => x, None => break }; body }`  ->  `while let Some(p) = e { body }`"""
        if node.get("k") != "Loop" or node.get("label"):
            return None
        body = node.get("body") or {}
        sts = body.get("stmts") or []
        if body.get("k") != "Block" or not sts or sts[0].get("k") != "Let" or sts[0].get("else") is not None:
            return None
        init = sts[0].get("init")
        while isinstance(init, dict) and init.get("k") in ("DropTemps", "Paren") and isinstance(init.get("e"), dict):
            init = init["e"]
        if not isinstance(init, dict) or init.get("k") != "Match" or len(init.get("arms") or []) != 2:
            return None
        a_some = a_none = None
        for a in init["arms"]:
            if a.get("guard"):
                return None
            p = a["pat"]
            if p.get("k") == "TupleStructPat" and p.get("variant") == "Some" and len(p.get("pats") or []) == 1 and p["pats"][0].get("k") == "Binding":
                a_some = a
            elif (p.get("variant") == "None") or p.get("k") == "Wild":
                a_none = a
        if a_some is None or a_none is None:
            return None
        b_some, b_none = a_some["body"], a_none["body"]
        while isinstance(b_none, dict) and b_none.get("k") == "Block" and not b_none.get("stmts") and b_none.get("expr") is not None:
            b_none = b_none["expr"]
        if not (isinstance(b_none, dict) and b_none.get("k") == "Break" and not b_none.get("label") and b_none.get("e") is None):
            return None
        inner = a_some["pat"]["pats"][0]
        if not (isinstance(b_some, dict) and b_some.get("k") == "Path" and b_some.get("id") == inner.get("id")):
            return None
        pat = dict(a_some["pat"])
        pat["pats"] = [sts[0]["pat"]]
        cond = {"k": "LetCond", "pat": pat, "init": init["scrut"], "ty": "bool", "span": sts[0].get("span")}
        nb = dict(body)
        nb["stmts"] = sts[1:]
        return {"k": "While", "cond": cond, "body": nb, "span": node.get("span"), "ty": "()"}

    @staticmethod
    def _adaptor_loop(node):
        """`it.for_each(|p| body)` -> `for p in it { body; }`;  `it.try_for_each(|p| body)?` -> `for p in it { body?; }`"""
        def unpeel(e):
            while isinstance(e, dict) and e.get("k") in ("DropTemps", "Paren") and isinstance(e.get("e"), dict):
                e = e["e"]
            return e
        tried = False
        call = node
        if node.get("k") == "Try":
            call = unpeel(node.get("e"))
            tried = True
            if isinstance(call, dict) and call.get("_tfe_value"):
                return call["stmts"][0]["e"]      # (`for ..{body?}; Ok(())`)? is the loop itself
        if not isinstance(call, dict) or call.get("k") != "MethodCall" or len(call.get("args") or []) != 1:
            return None
        if not tried and call.get("name") == "try_for_each" and str(call.get("ty", "")).startswith("std::result::Result<(),"):
            # used as a value: `it.try_for_each(|p| body)`  ==  `{ for p in it { body?; } Ok(()) }`
            clo = unpeel(call["args"][0])
            if clo.get("k") != "Closure" or len(clo.get("params") or []) != 1:
                return None
            sp = node.get("span")
            body = {"k": "Try", "e": clo["body"], "span": clo["body"].get("span"), "ty": "()"}
            loop = {"k": "For", "pat": clo["params"][0], "iter": call["recv"], "span": sp, "ty": "()",
                    "body": {"k": "Block", "stmts": [{"k": "Semi", "e": body, "span": body.get("span")}], "expr": None, "span": sp}}
            okv = {"k": "Call", "f": {"k": "Path", "res": "Def", "dk": "Ctor(Variant, Fn)", "def": "std::prelude::v1::Ok", "adt": "std::result::Result",
                                      "variant": "Ok", "text": "Ok", "ty": "", "span": sp},
                   "args": [{"k": "Tup", "es": [], "ty": "()", "span": sp}], "ty": call.get("ty"), "span": sp}
            return {"k": "Block", "stmts": [{"k": "Semi", "e": loop, "span": sp}], "expr": okv, "span": sp, "ty": call.get("ty"), "_tfe_value": True}
        if call.get("name") != ("try_for_each" if tried else "for_each"):
            return None
        clo = unpeel(call["args"][0])
        if clo.get("k") != "Closure" or len(clo.get("params") or []) != 1:
            return None
        body = clo["body"]
        if tried:
            body = {"k": "Try", "e": body, "span": body.get("span")}
        return {"k": "For", "pat": clo["params"][0], "iter": call["recv"], "span": node.get("span"), "ty": "()",
                "body": {"k": "Block", "stmts": [{"k": "Semi", "e": body, "span": body.get("span")}], "expr": None, "span": node.get("span")}}

    @staticmethod
    def _result_ctor(e):
        """('Ok'|'Err', payload) if e is Ok(x) / Err(x)."""
        while isinstance(e, dict) and e.get("k") in ("DropTemps", "Paren") and isinstance(e.get("e"), dict):
            e = e["e"]
        if isinstance(e, dict) and e.get("k") == "Call" and len(e.get("args") or []) == 1:
            f = e.get("f") or {}
            if f.get("k") == "Path" and f.get("variant") in ("Ok", "Err") and str(f.get("adt", "")).endswith("Result"):
                return f["variant"], e["args"][0]
        return None

    def _try_of_block(self, block, try_node):
        """`'inl: { ..; break 'inl Err(e); ..; Ok(v) }?`  ==>  `'inl: { ..; return Err(e); ..; v }` -- what the caller
        looked like before the statements were moved into a helper returning Result."""
        label = block.get("label")

        def conv(e):
            rc = self._result_ctor(e)
            if rc is None:
                return ("try", {"k": "Try", "e": e, "span": (e or {}).get("span"), "ty": try_node.get("ty")})
            if rc[0] == "Ok":
                return ("val", rc[1])
            return ("ret", {"k": "Ret", "e": e, "span": e.get("span")})

        def fix(n):
            if isinstance(n, list):
                return [fix(x) for x in n]
            if not isinstance(n, dict):
                return n
            if n.get("k") == "Closure":
                return n
            if n.get("k") == "Break" and label is not None and n.get("label") == label and n.get("e") is not None:
                kind, e2 = conv(n["e"])
                if kind == "ret":
                    return e2
                return dict(n, e=e2)
            return {kk: (fix(v) if isinstance(v, (dict, list)) else v) for kk, v in n.items()}

        b = dict(block)
        b["stmts"] = fix(block.get("stmts") or [])
        tail = block.get("expr")
        if tail is not None:
            tail = fix(tail)
            # the tail may itself be an if / match whose branches are Ok(..) / Err(..): convert leaf-wise
            b["expr"] = self._conv_tail(tail, conv)
        b["ty"] = try_node.get("ty")
        if label is not None and not any(n.get("k") == "Break" and n.get("label") == label for n in self._walk_no_closure(b)):
            b.pop("label", None)
        return b

    def _conv_tail(self, e, conv):
        if not isinstance(e, dict):
            return e
        k = e.get("k")
        if k == "If" and e.get("else") is not None:
            return dict(e, then=self._conv_tail(e["then"], conv), **{"else": self._conv_tail(e["else"], conv)})
        if k == "Match":
            return dict(e, arms=[dict(a, body=self._conv_tail(a["body"], conv)) for a in e["arms"]])
        if k == "Block" and e.get("expr") is not None and not e.get("label"):
            return dict(e, expr=self._conv_tail(e["expr"], conv))
        if k in ("Ret", "Break", "Continue"):
            return e
        kind, e2 = conv(e)
        return e2


def unknown_helpers(facts):
    base = baseline()
    out = set()
    for p in facts.hir:
        sp = strip_generics(p)
        if "{closure" in sp or "tests::" in sp or sp in base:
            continue
        f = facts.fns.get(p)
        if f is not None and f.get("exported"):
            continue        # new public API is not a helper
        if f is not None and f.get("trait_item"):
            continue
        out.add(p)
    return out


def owners(facts, unknown):
    """helper / closure path -> set of baseline functions it belongs to: a closure belongs to the enclosing function,
    a helper to the baseline functions that reach it through helpers only."""
    callers = {}
    for path, body in facts.mir.items():
        for b in body.get("blocks", []):
            t = b.get("term") or {}
            if t.get("k") == "Call":
                fn = (t.get("func") or {}).get("fn")
                if fn:
                    callers.setdefault(strip_generics(fn), set()).add(strip_generics(path))
            # a closure / fn item mentioned as a value: the mentioning function is a caller
            for st in b.get("stmts", []):
                rv = st.get("rv") or {}
                for op in [rv.get("op")] + list(rv.get("ops") or []):
                    if isinstance(op, dict) and op.get("k") == "Const" and op.get("fn"):
                        callers.setdefault(strip_generics(op["fn"]), set()).add(strip_generics(path))
    unk = {strip_generics(u) for u in unknown}

    def parent_of_closure(sp):
        while "::{closure" in sp:
            sp = sp[:sp.rindex("::{closure")]
        return sp

    def owner(sp, seen=()):
        sp = parent_of_closure(sp)
        if sp not in unk:
            return {sp}
        if sp in seen:
            return set()
        out = set()
        for c in callers.get(sp, set()):
            out |= owner(c, tuple(seen) + (sp,))
        return out

    own = {}
    for path in list(facts.mir) + list(facts.hir):
        sp = strip_generics(path)
        if "{closure" in sp or sp in unk:
            o = owner(sp)
            if o and o != {sp}:
                own[sp] = sorted(o)
    return own


def apply(facts):
    """Mutates facts.hir in place; records facts.norm = {unknown, inlined, owner}."""
    if getattr(facts, "norm", None) is not None:
        return
    reordered = reorder_params(facts)
    newlocals = inline_new_locals(facts)
    unknown = unknown_helpers(facts)
    inl = Inliner(facts.hir, unknown)
    if True:
        for path in list(facts.hir):
            if "tests::" in path:
                continue
            fn = facts.hir[path]
            fn["body"] = inl.rewrite(fn["body"], path)
    # a helper every use of which was inlined is represented by those copies; its own body leaves the HIR view
    for path, fn in facts.hir.items():
        for n in _walk(fn["body"]):
            if n.get("k") == "Path" and n.get("_maybe_value_use"):
                inl.kept.add(n.get("def"))
    # (a Path in callee position of a call that was not inlined was already recorded in `kept`)
    gone = [u for u in unknown if u not in inl.kept and any(c == strip_generics(u) for _, c in inl.inlined)]
    for u in gone:
        facts.hir.pop(u, None)
    facts.norm = {"reordered_params": reordered,
                  "read_through_locals": newlocals,
                  "renamed_fns": getattr(facts, "renamed_fns", {}),
                  "unknown": sorted(strip_generics(u) for u in unknown),
                  "removed": sorted(strip_generics(u) for u in gone),
                  "inlined": sorted(set(inl.inlined)),
                  "owner": owners(facts, unknown)}
