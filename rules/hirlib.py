"""HIR helpers: walking, canonical printing, linear forms, structured path enumeration, patterns."""
import re
from facts import strip_generics

U64MAX = (1 << 64) - 1

TRANSPARENT_METHODS = {"as_bytes", "as_str", "as_ref", "borrow", "deref", "as_mut", "as_slice",
                       "as_mut_slice", "by_ref"}
CMP_FLIP = {"Gt": "Lt", "Ge": "Le"}
OPSYM = {"Add": "+", "Sub": "-", "Mul": "*", "Div": "/", "Rem": "%", "And": "&&", "Or": "||",
         "BitXor": "^", "BitAnd": "&", "BitOr": "|", "Shl": "<<", "Shr": ">>", "Eq": "==",
         "Lt": "<", "Le": "<=", "Ne": "!=", "Ge": ">=", "Gt": ">"}
COMMUT = {"Add", "Mul", "BitXor", "BitAnd", "BitOr", "Eq", "Ne", "And", "Or"}


class Unanalysable(Exception):
    pass


def where(node):
    sp = node.get("span") if isinstance(node, dict) else None
    if not sp:
        return "?"
    return "%s:%d" % (sp["file"], sp["line"])


def line_of(node):
    sp = node.get("span")
    return sp["line"] if sp else 0


def macro_of(node):
    sp = node.get("span") or {}
    exp = sp.get("exp") or []
    return [m for m in exp if not m.startswith("desugar:")]


def children(node):
    """Yield direct child nodes (dicts with 'k' or arms/fields)."""
    if isinstance(node, dict):
        for key, v in node.items():
            if key == "span":
                continue
            if isinstance(v, dict):
                yield v
            elif isinstance(v, list):
                for x in v:
                    if isinstance(x, dict):
                        yield x


def walk(node):
    """Pre-order walk over all dict nodes."""
    stack = [node]
    while stack:
        n = stack.pop()
        if isinstance(n, dict):
            yield n
            ch = list(children(n))
            stack.extend(reversed(ch))


def find_all(node, pred):
    return [n for n in walk(node) if pred(n)]


def kind(n):
    return n.get("k") if isinstance(n, dict) else None


def short_def(path):
    """Shorten a def path to its last two meaningful segments, generics stripped."""
    p = strip_generics(path)
    if p.startswith("<"):
        return p
    segs = [s for s in p.split("::") if s]
    return "::".join(segs[-2:]) if len(segs) >= 2 else p


def last_seg(path):
    p = strip_generics(path)
    segs = [s for s in p.split("::") if s]
    return segs[-1] if segs else p


def peel(e):
    """Strip &, *, transparent methods, single-expression blocks, casts-to-same."""
    while isinstance(e, dict):
        k = e.get("k")
        if k == "AddrOf":
            e = e["e"]
        elif k == "Unary" and e["op"] == "Deref":
            e = e["e"]
        elif k == "MethodCall" and e["name"] in TRANSPARENT_METHODS and not e["args"]:
            e = e["recv"]
        elif k == "Block" and not e.get("stmts") and e.get("expr") is not None and not e.get("label"):
            e = e["expr"]
        else:
            break
    return e


def lit_str(l):
    t = l["t"]
    if t == "int":
        return "MAX" if l["v"] == U64MAX else str(l["v"])
    if t == "bool":
        return "true" if l["v"] else "false"
    if t == "char":
        return "'%s'" % l.get("chr", chr(l["v"]))
    if t == "byte":
        v = l["v"]
        return "b'%s'" % (chr(v) if 32 <= v < 127 else "\\x%02x" % v)
    if t in ("str", "bytestr"):
        return '"%s"' % l["v"]
    return str(l["v"])


def pat_canon(p, ren=None):
    k = p["k"]
    if k == "Wild":
        return "_"
    if k == "Binding":
        n = (ren or {}).get(p["id"], p["name"])
        if p.get("sub"):
            return "%s@%s" % (n, pat_canon(p["sub"], ren))
        return n
    if k == "TupleStructPat":
        nm = adt_variant_name(p)
        return "%s(%s)" % (nm, ",".join(pat_canon(x, ren) for x in p["pats"]))
    if k == "StructPat":
        nm = adt_variant_name(p)
        fs = sorted("%s:%s" % (f["name"], pat_canon(f["pat"], ren)) for f in p["fields"])
        return "%s{%s%s}" % (nm, ",".join(fs), ",.." if p.get("rest") else "")
    if k == "OrPat":
        return "|".join(pat_canon(x, ren) for x in p["pats"])
    if k == "TuplePat":
        return "(%s)" % ",".join(pat_canon(x, ren) for x in p["pats"])
    if k in ("RefPat", "BoxPat", "DerefPat"):
        return pat_canon(p["pat"], ren)
    if k == "ExprPat":
        if "lit" in p:
            return ("-" if p.get("neg") else "") + lit_str(p["lit"])
        if p.get("variant"):
            return adt_variant_name(p)
        if "val" in p:
            return "MAX" if p["val"] == U64MAX else last_seg(p.get("def", "?"))
        return last_seg(p.get("def", p.get("text", "?")))
    if k == "RangePat":
        lo = lit_str(p["lo"]["lit"]) if "lo" in p and "lit" in p["lo"] else ""
        hi = lit_str(p["hi"]["lit"]) if "hi" in p and "lit" in p["hi"] else ""
        return "%s..%s%s" % (lo, "=" if p.get("inclusive") else "", hi)
    if k == "SlicePat":
        return "[%s]" % ",".join(pat_canon(x, ren) for x in p.get("before", []) + p.get("after", []))
    if k == "GuardPat":
        return "%s if %s" % (pat_canon(p["pat"], ren), canon(p["guard"], ren))
    return k


def adt_variant_name(n):
    adt = last_seg(n.get("adt", "?"))
    if n.get("variant"):
        if adt in ("Option", "Result"):
            return n["variant"]
        return "%s::%s" % (adt, n["variant"])
    return adt


def path_canon(e, ren=None):
    if e.get("res") == "Local":
        return (ren or {}).get(e["id"], e["name"])
    if e.get("res") == "Def":
        dk = e.get("dk", "")
        if e.get("variant"):
            return adt_variant_name(e)
        if "val" in e and dk.startswith(("Const", "AssocConst")):
            if e["val"] == U64MAX:
                return "MAX"
            return last_seg(e["def"])
        if dk.startswith("Ctor") and e.get("adt"):
            return last_seg(e["adt"])
        if dk == "Fn":
            return last_seg(e["def"])
        if dk == "AssocFn":
            return short_def(e["def"])
        return last_seg(e["def"])
    if e.get("res") == "SelfTy":
        return last_seg(e.get("def", "Self"))
    return e.get("text", "?")


_LITRX = re.compile(r"^(-?\d+|MAX|true|false|'.*'|b'.*'|\".*\")$")


_CHECKED = {"checked_mul": "Mul", "checked_add": "Add", "checked_sub": "Sub"}


def _iter_canon(t):
    """`for x in v.iter()` iterates like `for x in &v` (references being transparent in canonical strings)."""
    return t[:-len(".iter()")] if t.endswith(".iter()") else t


def _ckey(s):
    """Ordering of commutative operands: literals first, then lexicographic."""
    return (0 if _LITRX.match(s) else 1, s)


def _order_arms(arms, texts, ren):
    """Arms whose patterns are pairwise disjoint (distinct enum variants / literals, no guards) can be written in any
    order: print them sorted, a trailing catch-all last.  Anything else keeps its source order."""
    heads = []
    for i, a in enumerate(arms):
        if a.get("guard"):
            return texts
        p = pat_canon(a["pat"], ren)
        if p == "_" and i == len(arms) - 1:
            heads.append(None)
            continue
        alts = p.split("|")
        hs = set()
        for alt in alts:
            m = re.match(r"^([A-Z][\w]*(?:::[A-Z]\w*)+|None|Some|Ok|Err|true|false|-?\d+|b?'[^']*')", alt.strip())
            if not m:
                return texts
            hs.add(m.group(1))
        heads.append(hs)
    seen = set()
    for h in heads:
        if h is None:
            continue
        if h & seen:
            return texts
        seen |= h
    body = sorted((t for t, h in zip(texts, heads) if h is not None))
    return body + [t for t, h in zip(texts, heads) if h is None]


def canon(e, ren=None):
    """Canonical, position-free string of an expression / statement / block."""
    if e is None:
        return ""
    e = peel(e)
    k = e.get("k")
    c = lambda x: canon(x, ren)
    if k == "Path":
        return path_canon(e, ren)
    if k == "Lit":
        return lit_str(e["lit"])
    if k == "Field":
        return "%s.%s" % (c(e["e"]), e["name"])
    if k == "Index":
        return "%s[%s]" % (c(e["e"]), c(e["i"]))
    if k == "MethodCall":
        name = e["name"]
        recv = c(e["recv"])
        args = [c(a) for a in e["args"]]
        if name == "len" and not args:
            return "len(%s)" % recv
        return "%s.%s(%s)" % (recv, name, ",".join(args))
    if k == "Call":
        f = peel(e["f"])
        fn = path_canon(f, ren) if f.get("k") == "Path" else c(f)
        return "%s(%s)" % (fn, ",".join(c(a) for a in e["args"]))
    if k == "Binary":
        op = e["op"]
        l, r = c(e["l"]), c(e["r"])
        if op in CMP_FLIP:
            op = CMP_FLIP[op]
            l, r = r, l
        if op in COMMUT and op not in ("And", "Or") and _ckey(r) < _ckey(l):
            l, r = r, l
        return "(%s %s %s)" % (l, OPSYM[op], r)
    if k == "Unary":
        op = e["op"]
        if op == "Not":
            return "!%s" % c(e["e"])
        if op == "Neg":
            return "-%s" % c(e["e"])
        return c(e["e"])
    if k == "Cast":
        return "(%s as %s)" % (c(e["e"]), e.get("ty", "?"))
    if k == "Tup":
        return "(%s)" % ",".join(c(x) for x in e["es"])
    if k == "Array":
        return "[%s]" % ",".join(c(x) for x in e["es"])
    if k == "Repeat":
        return "[%s; _]" % c(e["e"])
    if k == "Struct":
        adt = e.get("adt", "")
        if adt.endswith("ops::Range") and len(e["fields"]) == 2:
            d = {f["name"]: c(f["e"]) for f in e["fields"]}
            return "%s..%s" % (d.get("start", ""), d.get("end", ""))
        if adt.endswith("ops::RangeFrom"):
            return "%s.." % c(e["fields"][0]["e"])
        if adt.endswith("ops::RangeTo"):
            return "..%s" % c(e["fields"][0]["e"])
        if adt.endswith("ops::RangeInclusive"):
            d = {f["name"]: c(f["e"]) for f in e["fields"]}
            return "%s..=%s" % (d.get("start", ""), d.get("end", ""))
        nm = adt_variant_name(e)
        fs = sorted("%s:%s" % (f["name"], c(f["e"])) for f in e["fields"])
        base = (",.." + c(e["base"])) if e.get("base") else ""
        return "%s{%s%s}" % (nm, ",".join(fs), base)
    if k == "Assign":
        return "%s = %s" % (c(e["l"]), c(e["r"]))
    if k == "AssignOp":
        return "%s %s= %s" % (c(e["l"]), OPSYM.get(e["op"].replace("Assign", ""), e["op"]), c(e["r"]))
    if k == "Try":
        inner = peel(e["e"])
        if inner.get("k") == "MethodCall" and inner.get("name") in _CHECKED and len(inner.get("args") or []) == 1:
            # `a.checked_mul(b)?` is `a * b` on the path where the `?` does not leave (the overflow case is the
            # try-err path of the enumeration)
            return c({"k": "Binary", "op": _CHECKED[inner["name"]], "l": inner["recv"], "r": inner["args"][0]})
        if inner.get("k") == "MethodCall" and inner.get("name") == "get" and len(inner.get("args") or []) == 1 and \
                ("[" in str(inner.get("recv_ty", "")) or "Vec<" in str(inner.get("recv_ty", ""))):
            # `v.get(i)?` is `v[i]` on the path where the `?` stays (the out-of-range case is the try-err path)
            return "%s[%s]" % (c(inner["recv"]), c(inner["args"][0]))
        return "%s?" % c(e["e"])
    if k == "Ret":
        return "return %s" % c(e.get("e"))
    if k == "Break":
        return "break%s%s" % ((" " + e["label"]) if e.get("label") else "", (" " + c(e["e"])) if e.get("e") else "")
    if k == "Continue":
        return "continue"
    if k == "If":
        s = "if %s {%s}" % (c(e["cond"]), c(e["then"]))
        if e.get("else") is not None:
            s += " else {%s}" % c(e["else"])
        return s
    if k == "LetCond":
        return "let %s = %s" % (pat_canon(e["pat"], ren), c(e["init"]))
    if k == "Match":
        arms = []
        for a in e["arms"]:
            g = (" if " + c(a["guard"])) if a.get("guard") else ""
            arms.append("%s%s => %s" % (pat_canon(a["pat"], ren), g, c(a["body"])))
        return "match %s {%s}" % (c(e["scrut"]), "; ".join(_order_arms(e["arms"], arms, ren)))
    if k == "While":
        return "while %s {%s}" % (c(e["cond"]), c(e["body"]))
    if k == "Loop":
        return "loop {%s}" % c(e["body"])
    if k == "For":
        return "for %s in %s {%s}" % (pat_canon(e["pat"], ren), _iter_canon(c(e["iter"])), c(e["body"]))
    if k == "Closure":
        return "|%s| %s" % (",".join(pat_canon(p, ren) for p in e["params"]), c(e["body"]))
    if k == "Block":
        parts = [c(s) for s in e.get("stmts", [])]
        if e.get("expr") is not None:
            parts.append(c(e["expr"]))
        return "; ".join(parts)
    if k == "Let":
        s = "let %s" % pat_canon(e["pat"], ren)
        if e.get("init") is not None:
            s += " = %s" % c(e["init"])
        if e.get("else") is not None:
            s += " else {%s}" % c(e["else"])
        return s
    if k in ("ExprStmt", "Semi"):
        return c(e["e"])
    return k or "?"


# ---------------------------------------------------------------------------------------------
# linear forms  a1*t1 + a2*t2 + c
# ---------------------------------------------------------------------------------------------

def linear(e, ren=None):
    """Return (terms: dict canon->coeff, const) or None if not integer-linear."""
    e = peel(e)
    k = e.get("k")
    if k == "Lit" and e["lit"]["t"] == "int":
        return ({}, e["lit"]["v"])
    if k == "Binary" and e["op"] in ("Add", "Sub"):
        a, b = linear(e["l"], ren), linear(e["r"], ren)
        if a is None or b is None:
            return None
        sign = 1 if e["op"] == "Add" else -1
        t = dict(a[0])
        for kk, v in b[0].items():
            t[kk] = t.get(kk, 0) + sign * v
        t = {kk: v for kk, v in t.items() if v != 0}
        return (t, a[1] + sign * b[1])
    if k == "Binary" and e["op"] == "Mul":
        a, b = linear(e["l"], ren), linear(e["r"], ren)
        if a is None or b is None:
            return None
        if not a[0]:
            a, b = b, a
        if b[0]:
            return ({canon(e, ren): 1}, 0)
        m = b[1]
        return ({kk: v * m for kk, v in a[0].items() if v * m != 0}, a[1] * m)
    if k == "Cast":
        return linear(e["e"], ren)
    if k == "Try":
        inner = peel(e["e"])
        if inner.get("k") == "MethodCall" and inner.get("name") in _CHECKED and len(inner.get("args") or []) == 1:
            return linear({"k": "Binary", "op": _CHECKED[inner["name"]], "l": inner["recv"], "r": inner["args"][0]}, ren)
    return ({canon(e, ren): 1}, 0)


def linear_str(lf):
    if lf is None:
        return "?"
    t, c = lf
    parts = ["%s*%s" % (v, kk) if v != 1 else kk for kk, v in sorted(t.items())]
    if c or not parts:
        parts.append(str(c))
    return " + ".join(parts)


# ---------------------------------------------------------------------------------------------
# structured path enumeration
# ---------------------------------------------------------------------------------------------

_CTOR = re.compile(r"^((?:[A-Za-z_][A-Za-z_0-9]*::)+[A-Z][A-Za-z_0-9]*)(?:\((.*)\))?$")


def _ctor_match(val, pat):
    """val, pat: canonical texts.  False: the pattern names another variant of the value's enum (infeasible arm);
    list of (name, text): same variant, the pattern's plain bindings get the payload components; None: unknown."""
    mv = _CTOR.match(val or "")
    mp = _CTOR.match(pat or "")
    if not mv or not mp:
        return None
    hv, hp = mv.group(1), mp.group(1)
    if hv.rsplit("::", 1)[0] != hp.rsplit("::", 1)[0]:
        return None
    if hv != hp:
        return False
    if mv.group(2) is None or mp.group(2) is None or not _balanced(mv.group(2)):
        return []
    def split(t):
        parts, d, cur = [], 0, ""
        for ch in t:
            if ch in "([{":
                d += 1
            elif ch in ")]}":
                d -= 1
            if ch == "," and d == 0:
                parts.append(cur)
                cur = ""
            else:
                cur += ch
        parts.append(cur)
        return parts
    vs, ps = split(mv.group(2)), split(mp.group(2))
    if len(vs) != len(ps):
        return []
    return [(p_, v_) for p_, v_ in zip(ps, vs) if re.match(r"^[a-z_][a-z_0-9]*$", p_) and p_ != "_"]


def _balanced(t):
    d = 0
    for ch in t:
        if ch in "([{":
            d += 1
        elif ch in ")]}":
            d -= 1
            if d < 0:
                return False
    return d == 0


class Ev:
    __slots__ = ("kind", "a", "b", "c", "node")

    def __init__(self, kind, a=None, b=None, c=None, node=None):
        self.kind, self.a, self.b, self.c, self.node = kind, a, b, c, node

    def __repr__(self):
        parts = [self.kind] + [str(x) for x in (self.a, self.b, self.c) if x is not None]
        return "<" + " | ".join(parts) + ">"

    def text(self):
        return repr(self)


class PathOut:
    """One path: events, exit kind in {'fall','return','break','continue','try-err','loopback','diverge'}, value."""
    __slots__ = ("events", "exit", "val", "label", "valnode")

    def __init__(self, events, exit="fall", val="", label=None, valnode=None):
        self.events, self.exit, self.val, self.label, self.valnode = events, exit, val, label, valnode

    def has(self, kind, pattern=None, field="a"):
        return self.index(kind, pattern, field) >= 0

    def index(self, kind, pattern=None, field="a", start=0):
        for i in range(start, len(self.events)):
            ev = self.events[i]
            if ev.kind != kind:
                continue
            if pattern is None:
                return i
            val = getattr(ev, field)
            if val is not None and pat_match(pattern, val):
                return i
        return -1

    def all_index(self, kind, pattern=None, field="a"):
        out = []
        i = self.index(kind, pattern, field)
        while i >= 0:
            out.append(i)
            i = self.index(kind, pattern, field, i + 1)
        return out

    def conds(self):
        return [(e.a, e.b) for e in self.events if e.kind == "cond"]

    def show(self):
        return " ; ".join(e.text() for e in self.events) + " => %s %s" % (self.exit, self.val)


class Enumerator:
    def __init__(self, ren=None, max_paths=40000, opaque_macros=("println", "print", "eprintln", "debug_assert", "debug_assert_eq", "trace"), combinators=False, scope=None):
        self.ren = ren
        self.combinators = combinators     # read Option::map / and_then / map_or / or_else as the branches they are
        # local closures of the enclosing function (`let f = |a| ..;`): a call f(x) is read as the closure's body
        self.closure_defs = {}
        self._in_closure = []
        if scope is not None:
            for nd in walk(scope):
                if nd.get("k") == "Let" and (nd.get("pat") or {}).get("k") == "Binding" and nd.get("init") is not None \
                        and peel(nd["init"]).get("k") == "Closure" and nd["pat"].get("id"):
                    self.closure_defs[nd["pat"]["id"]] = peel(nd["init"])
        self.max_paths = max_paths
        self.count = 0
        self.opaque_macros = set(opaque_macros)

    def c(self, e):
        return canon(e, self.ren)

    def _budget(self, n=1):
        self.count += n
        if self.count > self.max_paths:
            raise Unanalysable("too many paths")

    # -- expressions: return list of PathOut where exit=='fall' means normal completion with .val
    def expr(self, e):
        if e is None:
            return [PathOut([], "fall", "")]
        # opaque debugging macros
        macs = macro_of(e)
        if macs and macs[-1] in self.opaque_macros:
            return [PathOut([], "fall", "")]
        if (macs and macs[-1] in ("unreachable", "panic", "unimplemented", "todo") and peel(e).get("k") in ("Call", "MethodCall", "Block", "Match")) \
                or (peel(e).get("k") in ("Call", "MethodCall") and peel(e).get("ty") == "!"):
            # the path ends here: nothing after a panic is executed
            return [PathOut([Ev("call", self.c(e), "panic", node=e)], "diverge", "")]
        e0 = e
        e = peel(e)
        k = e.get("k")
        if self.combinators and k == "MethodCall" and e.get("name") in ("map", "and_then", "map_or", "map_or_else", "or_else") \
                and "Option<" in str(e.get("recv_ty", "")):
            r = self.x_OptionCombinator(e)
            if r is not None:
                return r
        if self.closure_defs and k == "Call" and peel(e["f"]).get("k") == "Path" and peel(e["f"]).get("res") == "Local" \
                and peel(e["f"]).get("id") in self.closure_defs and peel(e["f"]).get("id") not in self._in_closure:
            clo = self.closure_defs[peel(e["f"])["id"]]
            params = clo.get("params") or []
            if len(params) == len(e.get("args") or []) and all(p_.get("k") == "Binding" for p_ in params):
                outs = [PathOut([], "fall", "")]
                for p_, a_ in zip(params, e["args"]):
                    def bind(p_=p_, a_=a_):
                        r_ = []
                        for o in self.expr(a_):
                            if o.exit != "fall":
                                r_.append(o)
                            elif o.val == p_["name"]:
                                r_.append(PathOut(o.events, "fall", ""))          # f(num) with |num|: nothing to bind
                            else:
                                r_.append(PathOut(o.events + [Ev("let", p_["name"], o.val, node={"k": "Let", "pat": p_, "init": a_, "span": e.get("span")})], "fall", ""))
                        return r_
                    outs = self.seq(outs, bind)
                self._in_closure.append(peel(e["f"])["id"])
                try:
                    def body():
                        r_ = []
                        for o in self.expr(clo["body"]):
                            self._budget()
                            r_.append(PathOut(o.events, "fall", o.val, None, o.valnode) if o.exit == "return" else o)
                        return r_
                    return self.seq(outs, body)
                finally:
                    self._in_closure.pop()
        if self.combinators and k == "MethodCall" and e.get("name") in ("map", "and_then", "map_err") \
                and "Result<" in str(e.get("recv_ty", "")) and "Option<" not in str(e.get("recv_ty", "")).split("Result<")[0] \
                and len(e.get("args") or []) == 1 \
                and ((peel(e["args"][0]).get("k") == "Closure" and len(peel(e["args"][0]).get("params") or []) == 1)
                     or (peel(e["args"][0]).get("k") == "Path" and peel(e["args"][0]).get("res") == "Def" and e["name"] != "and_then")):
            # `res.map(|p| b)` is `match res { Ok(p) => Ok(b), Err(e) => Err(e) }` (and_then / map_err alike); when the
            # receiver's constructor is known on the path (`Err(x).map_err(F)`) nothing forks
            res = []
            clo = peel(e["args"][0])
            name = e["name"]
            hit, other = ("Ok", "Err") if name != "map_err" else ("Err", "Ok")

            def apply(pre, inner_text, pat):
                if clo.get("k") == "Path":
                    return [PathOut(pre, "fall", "%s(%s(%s))" % (hit, path_canon(clo, self.ren), inner_text), None, e)]
                outs_ = []
                bindev = [] if inner_text is None else [Ev("let", clo["params"][0].get("name"), inner_text, node=None)]
                for o in self.expr(clo["body"]):
                    self._budget()
                    if o.exit in ("fall", "return"):
                        val = o.val if name == "and_then" else "%s(%s)" % (hit, o.val)
                        outs_.append(PathOut(pre + bindev + o.events, "fall", val, None, e))
                    else:
                        outs_.append(PathOut(pre + bindev + o.events, o.exit, o.val, o.label, o.valnode))
                return outs_
            for ro in self.expr(e["recv"]):
                if ro.exit != "fall":
                    res.append(ro)
                    continue
                X = ro.val
                mk = re.match(r"^(Ok|Err)\((.*)\)$", X or "")
                if mk and _balanced(mk.group(2)):
                    if mk.group(1) == hit:
                        res.extend(apply(ro.events, mk.group(2), None))
                    else:
                        res.append(PathOut(ro.events, "fall", X, None, ro.valnode if ro.valnode is not None else e))
                    continue
                if clo.get("k") == "Path":
                    pat = "%s(_)" % hit
                    res.append(PathOut(ro.events + [Ev("letcond", pat, X, True, node=e)], "fall", "%s(%s(%s))" % (hit, path_canon(clo, self.ren), re.sub(r"\W+", "_", "%s_%s" % (X, hit.lower()))), None, e))
                else:
                    pat = "%s(%s)" % (hit, pat_canon(clo["params"][0], self.ren))
                    res.extend(apply(ro.events + [Ev("letcond", pat, X, True, node=e)], None, pat))
                res.append(PathOut(ro.events + [Ev("letcond", pat, X, False, node=e)], "fall", "%s(%s)" % (other, re.sub(r"\W+", "_", "%s_%s" % (X, other.lower()))), None, e))
            return res
        if self.combinators and k == "MethodCall" and e.get("name") == "flatten" and not (e.get("args") or []) and "Option<" in str(e.get("recv_ty", "")):
            # Some(Some(x)) / Some(None) / None flattened: the receiver's value on this path, one level peeled
            res = []
            for ro in self.expr(e["recv"]):
                if ro.exit != "fall":
                    res.append(ro)
                    continue
                mf = re.match(r"^Some\((.*)\)$", ro.val or "")
                if mf and _balanced(mf.group(1)):
                    res.append(PathOut(ro.events, "fall", mf.group(1), None, e))
                elif ro.val == "None":
                    res.append(PathOut(ro.events, "fall", "None", None, e))
                else:
                    v_ = "%s.flatten()" % ro.val
                    res.append(PathOut(ro.events + [Ev("call", v_, self.callee_name(e), node=e)], "fall", v_, None, e))
            return res
        if self.combinators and k == "MethodCall" and e.get("name") == "then" and str(e.get("recv_ty", "")).lstrip("&") == "bool" \
                and len(e.get("args") or []) == 1 and peel(e["args"][0]).get("k") == "Closure":
            # `cond.then(|| body)` is `if cond { Some(body) } else { None }`
            res = []
            clo = peel(e["args"][0])
            for evs, truth in self.cond_alts(e["recv"]):
                if not truth:
                    res.append(PathOut(evs, "fall", "None", None, e))
                    continue
                for o in self.expr(clo["body"]):
                    self._budget()
                    if o.exit in ("fall", "return"):
                        res.append(PathOut(evs + o.events, "fall", "Some(%s)" % o.val, None, e))
                    else:
                        res.append(PathOut(evs + o.events, o.exit, o.val, o.label, o.valnode))
            return res
        m = getattr(self, "x_" + k, None)
        if m is not None:
            return m(e)
        # generic: evaluate sub-expressions in order, then produce value canon
        subs = self.subexprs(e)
        def _has_branch(x, depth=0):
            x = peel(x)
            if x.get("k") in ("If", "Match") or (k == "Tup" and depth == 0 and x.get("k") == "Block" and x.get("stmts") and not macro_of(x)):
                return True      # (a tuple component computed by a block -- typically an inlined helper -- is its tail value)
            if self.combinators and x.get("k") == "MethodCall" and x.get("name") in ("map", "and_then", "map_err", "map_or", "map_or_else", "or_else", "then") \
                    and any(peel(a_).get("k") == "Closure" for a_ in x.get("args") or []):
                return True
            if depth > 3 or x.get("k") not in ("Call", "MethodCall", "Tup"):
                return False
            return any(_has_branch(y, depth + 1) for y in self.subexprs(x))
        branching = k in ("Call", "MethodCall", "Tup") and any(_has_branch(s_) for s_ in subs)
        if branching:
            # an argument chosen by `if` / `match`: the call is made with the value of the branch taken
            states = [([], [])]          # (events, argument values)
            res = []
            for s_ in subs:
                nxt = []
                alts = None
                for evs, vals in states:
                    if alts is None:
                        alts = self.expr(s_)
                    for o in alts:
                        self._budget()
                        if o.exit != "fall":
                            res.append(PathOut(evs + o.events, o.exit, o.val, o.label, o.valnode))
                        else:
                            nxt.append((evs + o.events, vals + [o.val]))
                states = nxt
            for evs, vals in states:
                if k == "Tup":
                    v = "(%s)" % ",".join(vals)
                    res.append(PathOut(evs, "fall", v, valnode=e))
                    continue
                if k == "MethodCall":
                    v = "%s.%s(%s)" % (vals[0], e["name"], ",".join(vals[1:]))
                else:
                    f = peel(e["f"])
                    fn = path_canon(f, self.ren) if f.get("k") == "Path" else vals[0]
                    v = "%s(%s)" % (fn, ",".join(vals if f.get("k") == "Path" else vals[1:]))
                res.append(PathOut(evs + [Ev("call", v, self.callee_name(e), node=e)], "fall", v, valnode=e))
            return res
        outs = [PathOut([], "fall", "")]
        for s in subs:
            outs = self.seq(outs, lambda s=s: self.expr(s))
        res = []
        v = self.c(e)
        for o in outs:
            if o.exit == "fall":
                evs = o.events
                if k in ("Call", "MethodCall"):
                    evs = evs + [Ev("call", v, self.callee_name(e), node=e)]
                res.append(PathOut(evs, "fall", v, valnode=e))
            else:
                res.append(o)
        return res

    def x_OptionCombinator(self, e):
        """`opt.map(|p| b)`, `and_then`, `map_or(d, |p| b)`, `map_or_else(|| d, |p| b)`, `or_else(|| b)` as an
        `if let Some(p) = opt { .. } else { .. }`: the same decision events as the statement forms produce."""
        name = e["name"]
        args = [peel(a) for a in e.get("args") or []]
        clos = [a for a in args if a.get("k") == "Closure"]
        if name in ("map", "and_then", "or_else") and (len(args) != 1 or len(clos) != 1):
            return None
        if name == "map_or" and (len(args) != 2 or args[1].get("k") != "Closure"):
            return None
        if name == "map_or_else" and (len(args) != 2 or len(clos) != 2):
            return None

        def body_paths(clo):
            outs = []
            for o in self.expr(clo["body"]):
                if o.exit == "return":
                    o = PathOut(o.events, "fall", o.val, None, o.valnode)
                outs.append(o)
            return outs
        res = []
        for ro in self.expr(e["recv"]):
            if ro.exit != "fall":
                res.append(ro)
                continue
            X = ro.val
            some_clo = args[-1] if name != "or_else" else None
            pat = "Some(%s)" % (pat_canon(some_clo["params"][0], self.ren) if some_clo is not None and some_clo.get("params") else "_")
            ev_some = Ev("letcond", pat, X, True, node=e)
            ev_none = Ev("letcond", pat, X, False, node=e)
            pre = ro.events
            # eager default of map_or is evaluated before the decision
            dflt = None
            if name == "map_or":
                dflt = self.expr(args[0])
            if name in ("map", "and_then", "map_or", "map_or_else"):
                for o in body_paths(some_clo):
                    self._budget()
                    val = ("Some(%s)" % o.val) if name == "map" and o.exit == "fall" else o.val
                    vn = o.valnode if (name != "map" and o.valnode is not None) else e
                    if dflt is not None:
                        for d in dflt:
                            if d.exit == "fall":
                                res.append(PathOut(pre + d.events + [ev_some] + o.events, o.exit, val, o.label, vn))
                    else:
                        res.append(PathOut(pre + [ev_some] + o.events, o.exit, val, o.label, vn))
                if name in ("map", "and_then"):
                    res.append(PathOut(pre + [ev_none], "fall", "None", None, e))
                elif name == "map_or":
                    for d in dflt:
                        res.append(PathOut(pre + d.events + [ev_none], d.exit, d.val, d.label, d.valnode if d.valnode is not None else e))
                else:
                    for d in body_paths(args[0]):
                        res.append(PathOut(pre + [ev_none] + d.events, d.exit, d.val, d.label, d.valnode if d.valnode is not None else e))
            else:   # or_else
                res.append(PathOut(pre + [ev_some], "fall", X, None, e))
                for o in body_paths(args[0]):
                    self._budget()
                    res.append(PathOut(pre + [ev_none] + o.events, o.exit, o.val, o.label, e))
        return res

    def callee_name(self, e):
        if e["k"] == "MethodCall":
            return strip_generics(e.get("resolved") or e.get("def") or e["name"])
        f = peel(e["f"])
        if f.get("k") == "Path":
            if f.get("res") == "Def":
                return strip_generics(f.get("def", ""))
            return path_canon(f, self.ren)
        return self.c(f)

    def subexprs(self, e):
        k = e.get("k")
        if k == "Call":
            f = peel(e["f"])
            return ([] if f.get("k") == "Path" else [e["f"]]) + list(e["args"])
        if k == "MethodCall":
            return [e["recv"]] + list(e["args"])
        if k == "Binary":
            return [e["l"], e["r"]]
        if k in ("Unary", "Cast", "Field", "AddrOf", "Repeat"):
            return [e["e"]]
        if k == "Index":
            return [e["e"], e["i"]]
        if k in ("Tup", "Array"):
            return list(e["es"])
        if k == "Struct":
            return [f["e"] for f in e["fields"]] + ([e["base"]] if e.get("base") else [])
        return []

    def seq(self, outs, nxt):
        """Continue every normally-completed path in outs with the alternatives of nxt()."""
        res = []
        cont = None
        for o in outs:
            if o.exit != "fall":
                res.append(o)
                continue
            if cont is None:
                cont = nxt()
            for n in cont:
                self._budget()
                res.append(PathOut(o.events + n.events, n.exit, n.val, n.label, n.valnode))
        return res

    # short-circuit booleans used as values
    def x_Binary(self, e):
        if e["op"] in ("And", "Or") :
            res = []
            for evs, truth in self.cond_alts(e):
                res.append(PathOut(evs, "fall", "true" if truth else "false", valnode=e))
            # keep the symbolic value as the canon of the whole expression
            v = self.c(e)
            return [PathOut(r.events, "fall", v, valnode=e) for r in res]
        subs = [e["l"], e["r"]]
        outs = [PathOut([], "fall", "")]
        for s in subs:
            outs = self.seq(outs, lambda s=s: self.expr(s))
        v = self.c(e)
        return [PathOut(o.events, "fall", v, valnode=e) if o.exit == "fall" else o for o in outs]

    def x_Closure(self, e):
        return [PathOut([Ev("closure", e.get("def"), node=e)], "fall", self.c(e), valnode=e)]

    def x_Path(self, e):
        return [PathOut([], "fall", self.c(e), valnode=e)]

    def x_Lit(self, e):
        return [PathOut([], "fall", self.c(e), valnode=e)]

    def x_Try(self, e):
        res = []
        for o in self.expr(e["e"]):
            if o.exit != "fall":
                res.append(o)
                continue
            v = o.val + "?"
            inner = peel(e["e"])
            if inner.get("k") == "MethodCall" and (inner.get("name") in _CHECKED or inner.get("name") == "get") and len(inner.get("args") or []) == 1:
                v = self.c(e)
            res.append(PathOut(o.events + [Ev("try-ok", o.val, node=e)], "fall", v, valnode=e))
            res.append(PathOut(o.events + [Ev("try-err", o.val, node=e)], "try-err", o.val))
        return res

    def x_Ret(self, e):
        res = []
        for o in self.expr(e.get("e")):
            if o.exit != "fall":
                res.append(o)
            else:
                res.append(PathOut(o.events, "return", o.val, valnode=e.get("e")))
        return res

    def x_Break(self, e):
        res = []
        for o in self.expr(e.get("e")):
            if o.exit != "fall":
                res.append(o)
            else:
                res.append(PathOut(o.events, "break", o.val, e.get("label"), valnode=e.get("e")))
        return res

    def x_Continue(self, e):
        return [PathOut([], "continue", "", e.get("label"))]

    def x_Assign(self, e):
        outs = self.expr(e["r"])
        res = []
        lhs = self.c(e["l"])
        for o in outs:
            if o.exit != "fall":
                res.append(o)
            else:
                r_ = peel(e["r"])
                if r_.get("k") == "Binary" and r_.get("op") in ("Add", "Mul") and lhs in (self.c(r_["l"]), self.c(r_["r"])) and re.match(r"^\w+$", lhs):
                    # `x = x + e` is `x += e`
                    other = r_["r"] if self.c(r_["l"]) == lhs else r_["l"]
                    res.append(PathOut(o.events + [Ev("assign", lhs, OPSYM.get(r_["op"], r_["op"]) + "=", self.c(other), node=e)], "fall", ""))
                    continue
                res.append(PathOut(o.events + [Ev("assign", lhs, "=", o.val, node=e)], "fall", ""))
        return res

    def x_AssignOp(self, e):
        outs = self.expr(e["r"])
        res = []
        lhs = self.c(e["l"])
        op = OPSYM.get(e["op"].replace("Assign", ""), e["op"])
        for o in outs:
            if o.exit != "fall":
                res.append(o)
            else:
                res.append(PathOut(o.events + [Ev("assign", lhs, op + "=", o.val, node=e)], "fall", ""))
        return res

    def cond_alts(self, c):
        """Return list of (events, truth)."""
        c = peel(c)
        k = c.get("k")
        if k == "Binary" and c["op"] == "And":
            res = []
            for evs, t in self.cond_alts(c["l"]):
                if not t:
                    res.append((evs, False))
                else:
                    for evs2, t2 in self.cond_alts(c["r"]):
                        res.append((evs + evs2, t2))
            return res
        if k == "Binary" and c["op"] == "Or":
            res = []
            for evs, t in self.cond_alts(c["l"]):
                if t:
                    res.append((evs, True))
                else:
                    for evs2, t2 in self.cond_alts(c["r"]):
                        res.append((evs + evs2, t2))
            return res
        if k == "Unary" and c["op"] == "Not":
            return [(evs, not t) for evs, t in self.cond_alts(c["e"])]
        if k == "LetCond":
            res = []
            for o in self.expr(c["init"]):
                if o.exit != "fall":
                    continue
                p = pat_canon(c["pat"], self.ren)
                res.append((o.events + [Ev("letcond", p, o.val, True, node=c)], True))
                res.append((o.events + [Ev("letcond", p, o.val, False, node=c)], False))
            return res
        res = []
        for o in self.expr(c):
            if o.exit != "fall":
                continue
            if o.val in ("true", "false") and o.events:
                # the value was decided along the way (e.g. an inlined predicate helper that returned a constant)
                res.append((o.events, o.val == "true"))
                continue
            res.append((o.events + [Ev("cond", o.val, True, node=c)], True))
            res.append((o.events + [Ev("cond", o.val, False, node=c)], False))
        return res

    def x_If(self, e):
        res = []
        for evs, truth in self.cond_alts(e["cond"]):
            branch = e["then"] if truth else e.get("else")
            if branch is None:
                res.append(PathOut(evs, "fall", ""))
                continue
            for o in self.expr(branch):
                self._budget()
                res.append(PathOut(evs + o.events, o.exit, o.val, o.label, o.valnode))
        return res

    def x_Match(self, e):
        res = []
        for so in self.expr(e["scrut"]):
            if so.exit != "fall":
                res.append(so)
                continue
            carry = [([], frozenset())]      # (events of failed guards of earlier arms that lead to this arm, those arms)
            earlier = []      # patterns of earlier guard-less arms: known not to match when this arm is reached
            guarded = []      # (index, pattern) of earlier guarded arms
            for ai, arm in enumerate(e["arms"]):
                p = pat_canon(arm["pat"], self.ren)
                new_carry = []
                prev_pats = tuple(earlier)
                if arm.get("guard") is None:
                    earlier.append(p)
                # an earlier guarded arm with the same pattern was tried first: this arm is reached only past its guard
                need = frozenset(i for i, gp in guarded if gp == p or re.match(r"^(_|[a-z_][a-z_0-9]*)$", gp))
                # a scrutinee whose constructor is known on this path (`Step::Done`, `Kind::Some(x)` built by an inlined
                # helper) takes the arm of that constructor only, and binds the arm's names to the payload
                ctor = _ctor_match(so.val, p)
                if ctor is False:
                    continue
                for c, failed in carry:
                    if not need <= failed:
                        continue
                    base = so.events + c + [Ev("arm", so.val, p, c=prev_pats, node=arm)]
                    if ctor:
                        base = base + [Ev("let", nm_, tx_, node=None) for nm_, tx_ in ctor if nm_ != tx_]
                    alts = [(base, True)]
                    if arm.get("guard") is not None:
                        alts = [(base + evs, t) for evs, t in self.cond_alts(arm["guard"])]
                    for evs, t in alts:
                        if not t:
                            # the guard failed: later arms are tried with these conditions known
                            new_carry.append((evs[len(so.events):-0 or None][:], failed | {ai}))
                            continue
                        for o in self.expr(arm["body"]):
                            self._budget()
                            res.append(PathOut(evs + o.events, o.exit, o.val, o.label, o.valnode))
                if arm.get("guard") is not None:
                    guarded.append((ai, p))
                # drop the `arm` marker of the failed arm from the carried prefix but keep its guard conditions
                for nc, nf in new_carry:
                    carry.append(([ev for ev in nc if ev.kind != "arm"], nf))
        return res

    def x_Block(self, e):
        outs = [PathOut([], "fall", "")]
        for s in e.get("stmts", []):
            outs = self.seq(outs, lambda s=s: self.stmt(s))
        if e.get("expr") is not None:
            outs = self.seq(outs, lambda: self.expr(e["expr"]))
        else:
            outs = [PathOut(o.events, o.exit, "" if o.exit == "fall" else o.val, o.label, o.valnode) for o in outs]
        # labelled block: break 'label exits here
        if e.get("label"):
            outs = [PathOut(o.events, "fall", o.val, None, o.valnode) if (o.exit == "break" and o.label == e["label"]) else o
                    for o in outs]
        return outs

    def stmt(self, s):
        k = s["k"]
        macs = macro_of(s)
        if macs and macs[-1] in self.opaque_macros:
            return [PathOut([], "fall", "")]
        if k == "Let":
            res = []
            p = pat_canon(s["pat"], self.ren)
            for o in self.expr(s.get("init")):
                if o.exit != "fall":
                    res.append(o)
                    continue
                if s.get("else") is not None:
                    res.append(PathOut(o.events + [Ev("let", p, o.val, True, node=s)], "fall", ""))
                    for eo in self.expr(s["else"]):
                        res.append(PathOut(o.events + [Ev("let-else", p, o.val, node=s)] + eo.events, eo.exit, eo.val, eo.label, eo.valnode))
                else:
                    res.append(PathOut(o.events + [Ev("let", p, o.val, node=s)], "fall", ""))
            return res
        outs = self.expr(s["e"])
        return [PathOut(o.events, o.exit, "" if o.exit == "fall" else o.val, o.label, o.valnode) for o in outs]

    def _loop_exit(self, outs, label, after_events=None):
        """Map body paths to loop results: break -> fall, fall/continue -> loopback."""
        res = []
        for o in outs:
            if o.exit == "break" and (o.label is None or o.label == label):
                res.append(PathOut(o.events, "fall", o.val, None, o.valnode))
            elif o.exit in ("fall", "continue") and (o.exit == "fall" or o.label is None or o.label == label):
                res.append(PathOut(o.events + [Ev("loopback", node=None)], "loopback", ""))
            else:
                res.append(o)
        return res

    def _havoc(self, body):
        """Variables assigned inside a loop body: what was known about them before the loop does not
        hold in later iterations."""
        names = set()
        for nd in walk(body):
            if nd.get("k") in ("Assign", "AssignOp"):
                names.add(self.c(nd["l"]))
        return Ev("havoc", sorted(names), node=None)

    def x_Loop(self, e):
        hv = self._havoc(e["body"])
        outs = [PathOut([hv] + o.events, o.exit, o.val, o.label, o.valnode) for o in self.expr(e["body"])]
        return self._loop_exit(outs, e.get("label"))

    def x_While(self, e):
        res = []
        hv = self._havoc(e["body"])
        alts = self.cond_alts(e["cond"])
        for evs0, truth in alts:
            evs = [hv] + evs0
            if not truth:
                res.append(PathOut(evs, "fall", ""))
                continue
            for o in self.expr(e["body"]):
                self._budget()
                if o.exit == "break" and (o.label is None or o.label == e.get("label")):
                    res.append(PathOut(evs + o.events, "fall", ""))
                elif o.exit in ("fall", "continue"):
                    # one or more iterations, then the loop is left because its condition evaluates to false
                    for evs_f, t_f in alts:
                        if not t_f:
                            res.append(PathOut(evs + o.events + [Ev("loop-next", node=e), hv] + evs_f, "fall", ""))
                else:
                    res.append(PathOut(evs + o.events, o.exit, o.val, o.label, o.valnode))
        return res

    def x_For(self, e):
        res = []
        p = pat_canon(e["pat"], self.ren)
        for io in self.expr(e["iter"]):
            if io.exit != "fall":
                res.append(io)
                continue
            io = PathOut(io.events, io.exit, _iter_canon(io.val), io.label, io.valnode)
            res.append(PathOut(io.events + [Ev("for-skip", p, io.val, node=e)], "fall", ""))
            hv = self._havoc(e["body"])
            for o in self.expr(e["body"]):
                self._budget()
                evs = io.events + [hv, Ev("for-iter", p, io.val, node=e)] + o.events
                if o.exit == "break" and (o.label is None or o.label == e.get("label")):
                    res.append(PathOut(evs, "fall", ""))
                elif o.exit in ("fall", "continue"):
                    res.append(PathOut(evs + [Ev("loop-next", node=e)], "fall", ""))
                else:
                    res.append(PathOut(evs, o.exit, o.val, o.label, o.valnode))
        return res


def rename(node, locals_=None, fields=None):
    """Deep copy with local variables / (self) field names renamed -- used to give role names to the variables a
    rule reasons about, so that the rule does not depend on what the source calls them."""
    locals_ = locals_ or {}
    fields = fields or {}
    if isinstance(node, list):
        return [rename(x, locals_, fields) for x in node]
    if not isinstance(node, dict):
        return node
    out = {k_: (rename(v, locals_, fields) if isinstance(v, (dict, list)) else v) for k_, v in node.items()}
    k = out.get("k")
    if k == "Path" and out.get("res") == "Local" and out.get("name") in locals_:
        out["name"] = locals_[out["name"]]
        out["text"] = out["name"]
    elif k == "Binding" and out.get("name") in locals_:
        out["name"] = locals_[out["name"]]
    elif k == "Field" and out.get("name") in fields:
        out["name"] = fields[out["name"]]
    return out


def subst_lets(text, lets, rounds=4):
    """Substitute let-bound simple names in a canonical string by their (canonical) initialisers."""
    for _ in range(rounds):
        changed = False
        for k, v in lets.items():
            if not re.match(r"^[A-Za-z_][A-Za-z_0-9]*$", k) or v is None or k == v:
                continue
            # not a field name (`x.k`), but the end of a range (`a..k`) is a use
            def rep(m, text=text, v=v):
                # a struct-literal field label (`{k:..` / `,k:..`) is not a use
                if m.start() > 0 and text[m.start() - 1] in "{," and text[m.end():m.end() + 1] == ":" and text[m.end():m.end() + 2] != "::":
                    return m.group(0)
                return v
            t2 = re.sub(r"(?<![A-Za-z_0-9])(?:(?<!\.)|(?<=\.\.))%s(?![A-Za-z_0-9(])" % re.escape(k), rep, text)
            if t2 != text:
                text = t2
                changed = True
        if not changed:
            break
    return text


def enum_paths(node, ren=None, max_paths=40000, combinators=False, scope=None):
    en = Enumerator(ren, max_paths, combinators=combinators, scope=scope)
    return en.expr(node)


# ---------------------------------------------------------------------------------------------
# patterns over canonical strings:  "{m}.start == {m}.end"   ({x} = any identifier / local)
# ---------------------------------------------------------------------------------------------

_pat_cache = {}


def compile_pat(p):
    if p in _pat_cache:
        return _pat_cache[p]
    out = []
    seen = set()
    i = 0
    while i < len(p):
        j = p.find("}", i) if p[i] == "{" else -1
        if p[i] == "{" and j > 0 and re.match(r"^\*?[a-z_][A-Za-z_0-9]*$|^\*$", p[i + 1:j]) \
                and p[i + 1:j] not in ("break", "continue", "return", "true", "false", "self"):
            name = p[i + 1:j]
            if name.startswith("*"):
                # {*} or {*name}: any balanced text (non-greedy)
                nm = name[1:]
                if nm and nm in seen:
                    out.append("(?P=%s)" % nm)
                elif nm:
                    seen.add(nm)
                    out.append("(?P<%s>.+?)" % nm)
                else:
                    out.append(".+?")
            elif name in seen:
                out.append("(?P=%s)" % name)
            else:
                seen.add(name)
                out.append("(?P<%s>[A-Za-z_][A-Za-z_0-9]*)" % name)
            i = j + 1
        else:
            out.append(re.escape(p[i]))
            i += 1
    rx = re.compile("^" + "".join(out) + "$")
    _pat_cache[p] = rx
    return rx


def find_pat(text, pat):
    """Search a placeholder pattern anywhere inside a canonical string (placeholders bind within the pattern)."""
    key = ("find", pat)
    rx = _pat_cache.get(key)
    if rx is None:
        inner = compile_pat(pat).pattern
        rx = re.compile(inner[1:-1])
        _pat_cache[key] = rx
    return rx.search(text)


def pat_match(p, s):
    """p is a pattern string (see above), a compiled regex, or a callable."""
    if callable(p):
        return p(s)
    if hasattr(p, "match"):
        return p.search(s)
    return compile_pat(p).match(s)


# ---------------------------------------------------------------------------------------------
# region selection helpers
# ---------------------------------------------------------------------------------------------

def match_arms_on(body, adt_suffix):
    """All Match nodes in body whose arms' patterns mention variants of adt (by path suffix)."""
    out = []
    for n in walk(body):
        if n.get("k") == "Match":
            pats = [pat_canon(a["pat"]) for a in n["arms"]]
            hit = 0
            for a in n["arms"]:
                for p in walk(a["pat"]):
                    if p.get("adt", "").endswith(adt_suffix):
                        hit += 1
                        break
            if hit >= 2:
                out.append(n)
    return out


def arm_variants(arm, adt_suffix):
    """Variant names of adt matched at the top level of an arm's pattern (or-patterns expanded)."""
    out = []

    def top(p):
        k = p["k"]
        if k == "OrPat":
            for x in p["pats"]:
                top(x)
        elif k in ("RefPat", "BoxPat", "DerefPat"):
            top(p["pat"])
        elif k == "Binding" and p.get("sub"):
            top(p["sub"])
        elif p.get("adt", "").endswith(adt_suffix) and p.get("variant"):
            out.append(p["variant"])
    top(arm["pat"])
    return out


def is_wild_arm(arm):
    p = arm["pat"]
    while p["k"] in ("RefPat",):
        p = p["pat"]
    return p["k"] == "Wild" or (p["k"] == "Binding" and not p.get("sub"))
