"""TMPL / CTX: the compiler's emission templates as symbolic instruction lists (C01, C02, C07, C13, C15, C20)."""
import re

import hirlib as H
import shape as S
from fam_vm import feasible
from facts import strip_generics


class Pos:
    """Symbolic program position k + sum(n_f * |fragment f|)."""
    __slots__ = ("k", "fr")

    def __init__(self, k=0, fr=None):
        self.k = k
        self.fr = dict(fr or {})

    def plus(self, d):
        return Pos(self.k + d, self.fr)

    def plus_frag(self, f):
        fr = dict(self.fr)
        fr[f] = fr.get(f, 0) + 1
        return Pos(self.k, fr)

    def key(self):
        return (self.k, tuple(sorted(self.fr.items())))

    def __eq__(self, o):
        return isinstance(o, Pos) and self.key() == o.key()

    def __hash__(self):
        return hash(self.key())

    def __repr__(self):
        s = str(self.k)
        for f, n in sorted(self.fr.items()):
            s += "+%s|%s|" % ("" if n == 1 else str(n), f)
        return s


class Template:
    """Built from one path through a builder function."""

    def __init__(self):
        self.items = []      # ("insn", name, operands(list of Pos|str), pos) | ("frag", name, pos, callcanon)
        self.labels = {}     # var -> Pos
        self.here = Pos()
        self.errors = []
        self.newsaves = []   # variables bound to newsave()

    def insn_at(self, pos):
        for it in self.items:
            if it[0] == "insn" and it[3] == pos:
                return it
        return None

    def show(self):
        out = []
        for it in self.items:
            if it[0] == "insn":
                out.append("%s: %s(%s)" % (it[3], it[1], ", ".join("%s=%s" % (k, v) for k, v in it[2])))
            else:
                out.append("%s: <%s>" % (it[2], it[1]))
        out.append("%s: <end>" % self.here)
        return "; ".join(out)


INSN_RX = re.compile(r"^Insn::(\w+)(?:\((.*)\)|\{(.*)\})?$")


def _split_top(s):
    out, d, cur = [], 0, ""
    for ch in s:
        if ch in "([{":
            d += 1
        elif ch in ")]}":
            d -= 1
        if ch == "," and d == 0:
            out.append(cur)
            cur = ""
        else:
            cur += ch
    if cur:
        out.append(cur)
    return out


def build_template(path, B="self.b", frag_rx=None, lets_extra=None):
    """Interpret the builder events of one path.  frag_rx: regex matching fragment-emitting calls."""
    t = Template()
    env = dict(lets_extra or {})   # local var -> Pos or str
    frag_rx = frag_rx or re.compile(r"^(self|compiler)\.(visit|compile_\w+)\(|^handle_\w+\(")
    fcount = 0

    def val(x):
        x = x.strip()
        if x in env:
            return env[x]
        m = re.match(r"^\((\d+) \+ (.+)\)$", x)
        if m:
            b = val(m.group(2))
            if isinstance(b, Pos):
                return b.plus(int(m.group(1)))
        if x == "%s.pc()" % B:
            return t.here
        return x

    for ev in path.events:
        if ev.kind == "let":
            if ev.b == "%s.pc()" % B:
                env[ev.a.replace("mut ", "")] = t.here
                t.labels[ev.a.replace("mut ", "")] = t.here
            elif ev.b == "%s.newsave()" % B:
                name = ev.a.replace("mut ", "")
                env[name] = "slot#%d" % len(t.newsaves)
                t.newsaves.append(name)
            elif ev.a.startswith("(") and ev.b.startswith("("):
                # tuple let:  let (x, y) = (a, b)
                ns = _split_top(ev.a[1:-1])
                vs = _split_top(ev.b[1:-1])
                if len(ns) == len(vs):
                    for n_, v_ in zip(ns, vs):
                        env[n_.strip()] = val(v_)
            else:
                v = val(ev.b)
                env[ev.a.replace("mut ", "")] = v
        elif ev.kind == "call":
            c = ev.a
            if c.startswith("%s.add(" % B) and c.endswith(")"):
                inner = c[len(B) + 5:-1]
                if inner in env and isinstance(env[inner], str) and INSN_RX.match(env[inner]):
                    inner = env[inner]         # the instruction was bound to a local first (possibly chosen by an `if`)
                if inner in env and isinstance(env[inner], tuple):
                    name, ops = env[inner]
                else:
                    m = INSN_RX.match(inner)
                    if not m:
                        t.items.append(("insn", "?" + inner, [], t.here))
                        t.here = t.here.plus(1)
                        continue
                    name = m.group(1)
                    ops = []
                    if m.group(2) is not None:
                        for i, a in enumerate(_split_top(m.group(2))):
                            ops.append((str(i), val(a)))
                    elif m.group(3) is not None:
                        for a in _split_top(m.group(3)):
                            k_, v_ = a.split(":", 1)
                            ops.append((k_.strip(), val(v_)))
                t.items.append(("insn", name, ops, t.here))
                t.here = t.here.plus(1)
            elif c.startswith("%s.set_split_target(" % B):
                a = _split_top(c[len(B) + 18:-1])
                pc, tg, second = val(a[0]), val(a[1]), val(a[2])
                it = t.insn_at(pc) if isinstance(pc, Pos) else None
                if it is None or it[1] != "Split":
                    t.errors.append("set_split_target patches %s which is not a Split of this template" % (pc,))
                else:
                    if second in ("true", "false"):
                        idx = "1" if second == "true" else "0"
                        it[2][:] = [(k_, (tg if k_ == idx else v_)) for k_, v_ in it[2]]
                    else:
                        t.errors.append("set_split_target with undetermined operand selector %s" % second)
            elif c.startswith("%s.set_jmp_target(" % B):
                a = _split_top(c[len(B) + 16:-1])
                pc, tg = val(a[0]), val(a[1])
                it = t.insn_at(pc) if isinstance(pc, Pos) else None
                if it is None or it[1] != "Jmp":
                    t.errors.append("set_jmp_target patches %s which is not a Jmp of this template" % (pc,))
                else:
                    it[2][:] = [("0", tg)]
            elif c.startswith("%s.set_repeat_target(" % B):
                a = _split_top(c[len(B) + 19:-1])
                pc, tg = val(a[0]), val(a[1])
                it = t.insn_at(pc) if isinstance(pc, Pos) else None
                if it is None or not it[1].startswith("Repeat"):
                    t.errors.append("set_repeat_target patches %s which is not a Repeat* of this template" % (pc,))
                else:
                    it[2][:] = [(k_, (tg if k_ == "next" else v_)) for k_, v_ in it[2]]
            elif frag_rx.search(c):
                fcount += 1
                name = "f%d" % fcount
                t.items.append(("frag", name, t.here, c))
                t.here = t.here.plus_frag(name)
            elif re.match(r"^Insn::\w+", c) and ev.node is not None:
                pass
        elif ev.kind == "assign" and ev.b == "=":
            env[ev.a] = val(ev.c)
    t.env = env
    return t


def _facts_of(path):
    return S.PathFacts(path.events)


# ---------------------------------------------------------------------------------------------
# VMBuilder helpers
# ---------------------------------------------------------------------------------------------

def builder_helpers(run, ctx):
    fam, label = "TMPL", "VMBuilder"
    n = 0
    specs = {
        "compile::VMBuilder::pc": lambda c: c == "len(self.prog)",
        "compile::VMBuilder::add": lambda c: H.pat_match("self.prog.push({i})", c) is not None,
        "compile::VMBuilder::newsave": lambda c: H.pat_match("let {r} = self.n_saves; self.n_saves += 1; {r}", c) is not None,
        "compile::VMBuilder::set_jmp_target": lambda c: H.pat_match("match self.prog[{p}] {Insn::Jmp({n}) => {n} = {t}; _ => {*rest}}", c) is not None,
        "compile::VMBuilder::set_repeat_target": lambda c: H.pat_match("match self.prog[{p}] {Insn::RepeatGr{next:{n},..}|Insn::RepeatNg{next:{n},..}|Insn::RepeatEpsilonGr{next:{n},..}|Insn::RepeatEpsilonNg{next:{n},..} => {n} = {t}; _ => {*rest}}", c) is not None,
        "compile::VMBuilder::build": lambda c: c == "Prog::new(self.prog,self.n_saves)",
    }
    for name, pred in specs.items():
        fn = S.get_fn(run, ctx, name, fam, label)
        if fn is None:
            continue
        c = H.canon(fn["body"])
        n += 1
        if not pred(c):
            run.violation(fam, label, name, H.where(fn), "%s does not have its defining shape (operand roles of the patch helpers must match what the VM takes/pushes): %s" % (name, c[:200]))
    # set_split_target(pc, target, second): the second operand iff `second` -- whatever the arm / guard layout
    fn = S.get_fn(run, ctx, "compile::VMBuilder::set_split_target", fam, label)
    if fn is not None:
        n += 1
        ps = fn["params"]
        SEC = next((p.get("name") for p in ps if (p.get("ty") or "") == "bool"), None)
        us = [p.get("name") for p in ps if (p.get("ty") or "") == "usize"]
        ok = SEC is not None and len(us) == 2
        seen = set()
        if ok:
            PC, TGT = us
            for p in S.paths_of(fn["body"]):
                arms_ = [ev for ev in p.events if ev.kind == "arm" and (ev.b or "").startswith("Insn::Split(")]
                asg = [ev for ev in p.events if ev.kind == "assign"]
                if not arms_:
                    ok = ok and not asg
                    continue
                a_ = arms_[-1]
                m = re.match(r"^Insn::Split\((\w+),(\w+)\)$", a_.b)
                sec = [ev.b for ev in p.events if ev.kind == "cond" and ev.a == SEC]
                if not sec:
                    # reached only when an earlier Split arm's *pattern* did not match: not a Split at all
                    continue
                if not m or a_.a != "self.prog[%s]" % PC or len(asg) != 1:
                    ok = False
                    continue
                want = m.group(2) if sec[-1] else m.group(1)
                ok = ok and want != "_" and asg[0].a == want and asg[0].b == "=" and asg[0].c == TGT
                seen.add(bool(sec[-1]))
            ok = ok and seen == {True, False}
        if not ok:
            run.violation(fam, label, "compile::VMBuilder::set_split_target", H.where(fn), "compile::VMBuilder::set_split_target does not have its defining shape (operand roles of the patch helpers must match what the VM takes/pushes): the target must be written to the second operand of Split exactly when `second` is set, else to the first: %s" % H.canon(fn["body"])[:200])
    fn = S.get_fn(run, ctx, "compile::VMBuilder::new", fam, label)
    if fn is not None:
        c = H.canon(fn["body"])
        P = [p.get("name") for p in fn["params"]][0]
        n += 1
        if not H.pat_match("VMBuilder{n_saves:(2 * %s),prog:Vec::new()}" % P, c) and "n_saves:(2 * %s)" % P not in c:
            run.violation(fam, label, "new/n_saves", H.where(fn), "VMBuilder::new must reserve two slots per group (n_saves = max_group * 2), found %s" % c)
    run.ok(fam, label, "src/compile.rs", n, "pc/add/newsave/set_*_target/build have their defining shapes; Split second operand = `second` flag")


# ---------------------------------------------------------------------------------------------
# compile_repeat
# ---------------------------------------------------------------------------------------------

def compile_repeat(run, ctx):
    fam, label = "TMPL", "compile_repeat"
    fn = S.get_fn(run, ctx, "compile::Compiler::compile_repeat", fam, label)
    if fn is None:
        return
    w = H.where(fn)
    ps = []
    for p_ in fn["params"]:
        if p_.get("k") == "Binding":
            ps.append(p_.get("name"))
        else:
            # a tuple parameter `(lo, hi): (usize, usize)` is two parameters
            ps += [q.get("name") for q in H.walk(p_) if q.get("k") == "Binding"]
    if len(ps) != 6:
        run.violation(fam, label, "anchor-missing/params", w, "anchor-missing: compile_repeat(self, info, lo, hi, greedy, hard)")
        return
    _, INFO, LO, HI, GREEDY, HARD = ps
    paths = [p for p in S.paths_of(fn["body"]) if feasible(p) and p.exit in ("fall", "return") and S.ret_value(p) == "Ok(())"]
    kinds = {}
    n = 0
    inst = []
    for p in paths:
        gre = [ev.b for ev in p.events if ev.kind == "cond" and ev.a == GREEDY]
        if gre:
            inst.append((p, gre[0]))
        else:
            # the flag is used as a value (operand selector): instantiate both
            inst.append((p, True))
            inst.append((p, False))
    for p, greedy in inst:
        t = build_template(p, lets_extra={GREEDY: "true" if greedy else "false"})
        pf = _facts_of(p)
        lets = {ev.a: ev.b for ev in p.events if ev.kind == "let"}
        CH = [k for k, v in lets.items() if v == "%s.children[0]" % INFO]
        CHILD = CH[0] if CH else "child"
        MIN = "%s.min_size" % CHILD
        insns = [it for it in t.items if it[0] == "insn"]
        frags = [it for it in t.items if it[0] == "frag"]
        names = [it[1] for it in insns]
        n += 1

        def v(key, what):
            run.violation(fam, label, key, w, "compile_repeat: %s   [template: %s]" % (what, t.show()))
        for e in t.errors:
            v("patch/" + e[:30], e)
        if len(frags) != 1:
            v("body-count", "a repeat template must emit the child exactly once (found %d)" % len(frags))
            continue
        body = frags[0]
        bstart, bend = body[2], body[2].plus_frag(body[1])
        end = t.here
        if "visit(%s," % CHILD not in body[3]:
            v("body-child", "the repeated fragment must be the repeat's child, found %s" % body[3])
        # context of the body: a loop iterates its body, so iteration k must stay backtrackable for iteration
        # k+1: the body is compiled in the incoming context widened by the repeat's own hardness (or `true`)
        mctx = re.search(r"visit\(%s,(.+)\)$" % re.escape(CHILD), body[3])
        ctxarg = mctx.group(1) if mctx else "?"
        bi_ = [i for i, ev in enumerate(p.events) if ev.kind == "call" and ev.a == body[3]]
        widened = any(ev.kind == "let" and ev.a == ctxarg and (H.pat_match("(%s | %s.hard)" % (HARD, INFO), ev.b) or H.pat_match("(%s.hard | %s)" % (INFO, HARD), ev.b) or H.pat_match("(%s || %s.hard)" % (HARD, INFO), ev.b))
                      for ev in p.events[:bi_[0] if bi_ else 0])
        ctx_ok_loop = widened or ctxarg == "true" or ctxarg in ("(%s | %s.hard)" % (HARD, INFO), "(%s.hard | %s)" % (INFO, HARD))
        body_ctx = (ctxarg, ctx_ok_loop)
        eq = lambda a, b: pf.proves("Eq", a, b)
        ne0 = pf.proves("Ne", MIN, 0) or pf.proves("Gt", MIN, 0)
        if names == ["Split"]:
            # optional (Split before body) or plus (Split after body)
            sp = insns[0]
            ops = dict(sp[2])
            if sp[3] == bstart.plus(-1) and sp[3] == Pos():
                kind = "optional"
                kinds[kind] = kinds.get(kind, 0) + 1
                if not (eq(LO, 0) and eq(HI, 1)):
                    v("optional/bounds", "the `e?` template is selected without lo == 0 && hi == 1 being established")
                if greedy is None:
                    v("optional/greedy", "template does not depend on `greedy` resolvably")
                    continue
                first, second = ops.get("0"), ops.get("1")
                want = (bstart, end) if greedy else (end, bstart)
                if (first, second) != want:
                    v("optional/order-%s" % ("greedy" if greedy else "lazy"), "%s `e?`: Split must try %s first and keep %s as the alternative; found Split(%s, %s)" % ("greedy" if greedy else "lazy", want[0], want[1], first, second))
            elif sp[3] == bend:
                kind = "plus"
                kinds[kind] = kinds.get(kind, 0) + 1
                if not (eq(LO, 1) and eq(HI, "MAX")):
                    v("plus/bounds", "the `e+` template (unbounded loop without counter) is selected without lo == 1 && hi == MAX being established")
                if not ne0:
                    v("plus/empty-body", "the `e+` template has no empty-iteration guard and is selected without child.min_size != 0 being established: an empty body would loop until the stack cap")
                first, second = ops.get("0"), ops.get("1")
                want = (bstart, end) if greedy else (end, bstart)
                if greedy is None or (first, second) != want:
                    v("plus/order", "`e+`: after the body Split must %s; found Split(%s, %s)" % ("loop first, exit as alternative" if greedy else "exit first, loop as alternative", first, second))
            else:
                v("split-position", "unrecognised single-Split template")
        elif names == ["Split", "Jmp"]:
            kind = "star"
            kinds[kind] = kinds.get(kind, 0) + 1
            sp, jm = insns
            if not (eq(LO, 0) and eq(HI, "MAX")):
                v("star/bounds", "the `e*` template (unbounded loop without counter) is selected without lo == 0 && hi == MAX being established")
            if not ne0:
                v("star/empty-body", "the `e*` template has no empty-iteration guard and is selected without child.min_size != 0 being established: an empty body would loop until the stack cap")
            if sp[3] != bstart.plus(-1) or jm[3] != bend or dict(jm[2]).get("0") != sp[3]:
                v("star/shape", "`e*` must be Split; body; Jmp(split)")
            ops = dict(sp[2])
            want = (bstart, end) if greedy else (end, bstart)
            if greedy is None or (ops.get("0"), ops.get("1")) != want:
                v("star/order", "`e*`: Split must %s; found Split(%s, %s)" % ("enter the body first" if greedy else "skip the body first", ops.get("0"), ops.get("1")))
        elif names in (["Save0", "RepeatGr", "Jmp"], ["Save0", "RepeatNg", "Jmp"], ["Save0", "RepeatEpsilonGr", "Jmp"], ["Save0", "RepeatEpsilonNg", "Jmp"]):
            eps = "Epsilon" in names[1]
            kind = "epsilon" if eps else "counted"
            kinds[kind] = kinds.get(kind, 0) + 1
            s0, rp, jm = insns
            ops = dict(rp[2])
            if greedy is None or names[1].endswith("Gr") != bool(greedy):
                v(kind + "/greedy", "%s is emitted for greedy=%s" % (names[1], greedy))
            if dict(s0[2]).get("0") != ops.get("repeat") or not str(ops.get("repeat")).startswith("slot#"):
                v(kind + "/counter", "the counter slot initialised by Save0 must be the fresh slot the Repeat instruction counts in")
            if eps:
                if not str(ops.get("check", "")).startswith("slot#") or ops.get("check") == ops.get("repeat"):
                    v("epsilon/check-slot", "RepeatEpsilon needs its own fresh check slot distinct from the counter")
                if not eq(HI, "MAX"):
                    v("epsilon/bounds", "RepeatEpsilon* carries no upper bound and is selected without hi == MAX being established")
            else:
                if ops.get("hi") != HI:
                    v("counted/hi", "Repeat* must carry the repeat's upper bound, found hi=%s" % ops.get("hi"))
                if not (pf.proves("Ne", HI, "MAX") or ne0):
                    v("counted/unbounded-empty", "a counted loop with hi == MAX and a possibly empty body is emitted without the empty-iteration guard")
            if ops.get("lo") != LO:
                v(kind + "/lo", "Repeat* must carry the repeat's lower bound, found lo=%s" % ops.get("lo"))
            if ops.get("next") != end:
                v(kind + "/next", "the exit target of the Repeat instruction must be the end of the template, found %s" % ops.get("next"))
            if rp[3] != bstart.plus(-1) or s0[3] != rp[3].plus(-1) or jm[3] != bend or dict(jm[2]).get("0") != rp[3]:
                v(kind + "/shape", "counted repeat must be Save0(counter); Repeat*; body; Jmp(Repeat*)")
        else:
            v("unknown-template/" + ",".join(names), "unrecognised instruction sequence %s" % names)
        is_optional = (names == ["Split"] and insns[0][3] == bstart.plus(-1) and insns[0][3] == Pos())
        if not is_optional and not body_ctx[1]:
            v("loop-context", "the body of a loop is compiled with context `%s`: it must be the incoming context widened by the repeat's own hardness (hard | info.hard) -- otherwise a hard repeat reached in an easy context (inside an atomic group, a look-around, a group or an alternation branch) delegates the variable-length tail of its body once per iteration and cannot backtrack between iterations" % body_ctx[0])
    need = {"optional": 2, "star": 2, "plus": 2, "epsilon": 2, "counted": 2}
    for k, c in need.items():
        if kinds.get(k, 0) < c:
            run.violation(fam, label, "anchor-missing/" + k, w, "anchor-missing: expected %d %s templates (greedy and lazy), found %d" % (c, k, kinds.get(k, 0)))
    run.ok(fam, label, w, n, "templates %s: kind <-> bounds, loop guards, greedy/lazy order, counter slots" % kinds,
           sample="star greedy: 0: Split(1, 2+|f1|); 1: <child>; 1+|f1|: Jmp(0)  requires lo==0, hi==MAX, child.min_size != 0")


# ---------------------------------------------------------------------------------------------
# explicit-stack balance of templates containing BeginAtomic / EndAtomic
# ---------------------------------------------------------------------------------------------

def _balance(t):
    """Explore the template: fragments succeed (fall through) or fail (resume at the innermost pending
    alternative with the explicit-stack depth as of its creation: the explicit stack is restored on
    backtrack).  Returns list of (exit description, depth) for exits from the template end, and errors."""
    items = t.items
    pos_index = {}
    for i, it in enumerate(items):
        pos_index[(it[3] if it[0] == "insn" else it[2]).key()] = i
    end_key = t.here.key()
    results = []
    errors = []
    seen = set()
    # state: (index or 'end', depth, pending tuple of (target key, depth, cutmark))
    stack = [(0, 0, (), "entry")]
    steps = 0
    while stack:
        i, depth, pending, how = stack.pop()
        steps += 1
        if steps > 5000:
            errors.append("template exploration did not converge")
            break
        key = (i, depth, pending)
        if key in seen:
            continue
        seen.add(key)
        if i == "end" or i >= len(items):
            results.append((how, depth))
            continue
        it = items[i]

        def goto(poskey, d, pend, h):
            if poskey == end_key:
                stack.append(("end", d, pend, h))
            elif poskey in pos_index:
                stack.append((pos_index[poskey], d, pend, h))
            else:
                errors.append("jump to %s which is not an instruction boundary of this template" % (poskey,))
        if it[0] == "frag":
            # success
            stack.append((i + 1, depth, pending, how))
            # failure: resume innermost pending alternative created inside this template
            pend = list(pending)
            while pend and pend[-1][0] == "mark":
                pend.pop()
            if pend:
                tgt, d0, _ = pend[-1]
                goto(tgt, d0, tuple(pend[:-1]), how + ">fail(%s)" % it[1])
            continue
        name, ops = it[1], dict(it[2])
        if name == "BeginAtomic":
            # pushes the current number of pending branches
            stack.append((i + 1, depth + 1, pending + (("mark", depth, len(pending)),), how))
        elif name == "EndAtomic":
            if depth <= 0:
                errors.append("EndAtomic with an empty explicit stack on path %s" % how)
                continue
            # cut: discard pending alternatives created since the matching BeginAtomic
            pend = list(pending)
            while pend and pend[-1][0] != "mark":
                pend.pop()
            if pend:
                pend.pop()
            stack.append((i + 1, depth - 1, tuple(pend), how))
        elif name == "Split":
            a, b = ops.get("0"), ops.get("1")
            if not isinstance(a, Pos) or not isinstance(b, Pos):
                errors.append("Split with unresolved operands %s" % ops)
                continue
            goto(a.key(), depth, pending + ((b.key(), depth, 0),), how)
        elif name == "Jmp":
            a = ops.get("0")
            if isinstance(a, Pos):
                goto(a.key(), depth, pending, how)
            else:
                errors.append("Jmp with unresolved target")
        else:
            stack.append((i + 1, depth, pending, how))
    return results, errors


def _resume_marks(pending):
    return pending


def compile_conditional(run, ctx, balance=True):
    """balance=False: only the template's order / targets (for properties the explicit-stack balance does not bear on)."""
    fam, label = "TMPL", "compile_conditional"
    fn = S.get_fn(run, ctx, "compile::Compiler::compile_conditional", fam, label)
    if fn is None:
        return
    w = H.where(fn)
    paths = [p for p in S.paths_of(fn["body"]) if p.exit in ("fall", "return") and S.ret_value(p) == "Ok(())"]
    if len(paths) != 1:
        run.violation(fam, label, "anchor-missing/paths", w, "anchor-missing: compile_conditional should have one successful straight-line path, found %d" % len(paths))
        return
    t = build_template(paths[0])
    for e in t.errors:
        run.violation(fam, label, "patch/" + e[:30], w, "compile_conditional: " + e)
    frags = [it for it in t.items if it[0] == "frag"]
    insns = [it for it in t.items if it[0] == "insn"]
    n = 0
    order = [re.search(r"\((?:self|compiler),(\d)\)", f[3]) for f in frags]
    idx = [int(m.group(1)) if m else -1 for m in order]
    n += 1
    if idx != [0, 1, 2]:
        run.violation(fam, label, "child-order", w, "compile_conditional must emit condition, true branch, false branch in this order (children 0,1,2), found %s" % idx)
        return
    cond, tb, fb = frags
    # the Split that guards the condition
    splits = [it for it in insns if it[1] == "Split"]
    jmps = [it for it in insns if it[1] == "Jmp"]
    n += 1
    if len(splits) != 1 or len(jmps) != 1:
        run.violation(fam, label, "shape", w, "compile_conditional must use one Split (condition fails -> false branch) and one Jmp (over the false branch): %s" % t.show())
        return
    sp, jm = splits[0], jmps[0]
    ops = dict(sp[2])
    n += 3
    if ops.get("0") != cond[2] or sp[3].plus(1) != cond[2]:
        run.violation(fam, label, "split-first", w, "the Split must try the condition first: %s" % t.show())
    if ops.get("1") != fb[2] and not (t.insn_at(ops.get("1")) is not None and t.insn_at(ops.get("1"))[1] == "EndAtomic"):
        run.violation(fam, label, "split-second", w, "when the condition fails execution must continue with the false branch from the original position; Split alternative is %s, false branch at %s: %s" % (ops.get("1"), fb[2], t.show()))
    if dict(jm[2]).get("0") != t.here or jm[3] != tb[2].plus_frag(tb[1]):
        run.violation(fam, label, "jmp-over-false", w, "after the true branch a Jmp must skip the false branch to the end: %s" % t.show())
    # commit: between the condition and the true branch the Split's alternative must be discarded
    between = [it for it in insns if it[3] == cond[2].plus_frag(cond[1])]
    n += 1
    if not between or between[0][1] != "EndAtomic":
        run.violation(fam, label, "no-commit", w, "after the condition succeeds its fallback to the false branch must be cut (EndAtomic) before the true branch: %s" % t.show())
    begins = [it for it in insns if it[1] == "BeginAtomic"]
    n += 1
    if len(begins) != 1 or not (begins[0][3].k < sp[3].k):
        run.violation(fam, label, "begin-before-split", w, "BeginAtomic must record the branch count before the Split pushes the fallback: %s" % t.show())
    # explicit-stack balance on every template path
    res, errs = _balance(t)
    for e in errs:
        run.violation(fam, label, "balance-error/" + e[:40], w, "compile_conditional: " + e)
    n += len(res)
    for how, depth in res:
        if depth != 0 and balance:
            run.violation(fam, label, "explicit-stack-imbalance/%s" % how.split(">")[-1], w,
                          "explicit-stack imbalance: on the template path `%s` the conditional is left with %d value(s) still on the explicit stack (BeginAtomic pushed before the Split, no EndAtomic on the condition-fails path); an enclosing atomic group / conditional then commits to the wrong branch count   [template: %s]" % (how, depth, t.show()))
    run.ok(fam, label, w, n, "template %s" % t.show())


def atomic_and_group_arms(run, ctx):
    """Group / AtomicGroup / KeepOut / Backref arms of Compiler::visit; look-around builders."""
    fam = "TMPL"
    fn = S.get_fn(run, ctx, "compile::Compiler::visit", fam, "visit-arms")
    if fn is None:
        return
    ms = H.match_arms_on(fn["body"], "Expr")
    if not ms:
        run.violation(fam, "visit-arms", "anchor-missing/match", H.where(fn), "anchor-missing: match on Expr in Compiler::visit")
        return
    m = max(ms, key=lambda x: len(x["arms"]))
    arms = {}
    for a in m["arms"]:
        for v in H.arm_variants(a, "Expr"):
            arms.setdefault(v, []).append(a)
    INFO = [p.get("name") for p in fn["params"]][1]
    n = 0

    def arm_paths(var):
        a = arms.get(var)
        if not a:
            run.violation(fam, "visit-arms", "anchor-missing/" + var, H.where(fn), "anchor-missing: no arm for Expr::%s in Compiler::visit" % var)
            return None, []
        ps = [p for p in S.paths_of(a[0]["body"]) if p.exit == "fall"]
        return a[0], ps
    # Group
    a, ps = arm_paths("Group")
    if a is not None:
        for p in ps:
            t = build_template(p)
            lets = {ev.a: ev.b for ev in p.events if ev.kind == "let"}
            seq = [(it[1], dict(it[2]).get("0")) if it[0] == "insn" else ("frag", it[3]) for it in t.items]
            n += 1

            def rs(x):
                x = str(x)
                for k_, v_ in lets.items():
                    x = re.sub(r"(?<![\w.])%s(?![\w])" % re.escape(k_), v_, x)
                return x
            ok = (len(seq) == 3 and seq[0][0] == "Save" and seq[2][0] == "Save" and seq[1][0] == "frag"
                  and rs(seq[0][1]) == "(2 * %s.start_group)" % INFO
                  and rs(seq[2][1]) in ("(1 + (2 * %s.start_group))" % INFO, "((2 * %s.start_group) + 1)" % INFO)
                  and "visit(%s.children[0]," % INFO in seq[1][1])
            if not ok:
                run.violation(fam, "visit-arms", "Group", H.where(a), "Expr::Group must compile to Save(2g); child; Save(2g+1) with g = info.start_group, found %s" % [(s[0], rs(s[1])) for s in seq])
    # AtomicGroup
    a, ps = arm_paths("AtomicGroup")
    if a is not None:
        for p in ps:
            t = build_template(p)
            seq = [it[1] if it[0] == "insn" else "frag" for it in t.items]
            n += 1
            if seq != ["BeginAtomic", "frag", "EndAtomic"]:
                run.violation(fam, "visit-arms", "AtomicGroup", H.where(a), "Expr::AtomicGroup must compile to BeginAtomic; child; EndAtomic, found %s" % seq)
            else:
                res, errs = _balance(t)
                bad = [r for r in res if r[1] != 0]
                if bad or errs:
                    run.violation(fam, "visit-arms", "AtomicGroup/balance", H.where(a), "atomic group template unbalanced: %s %s" % (bad, errs))
    # leaf arms
    leaf = {"KeepOut": "self.b.add(Insn::Save(0))",
            "Backref": "self.b.add(Insn::Backref((2 * {g})))",
            "BackrefExistsCondition": "self.b.add(Insn::BackrefExistsCondition({g}))",
            "ContinueFromPreviousMatchEnd": "self.b.add(Insn::ContinueFromPreviousMatchEnd)",
            "Assertion": "self.b.add(Insn::Assertion({a}))"}
    for var, want in leaf.items():
        a = arms.get(var)
        if not a:
            run.violation(fam, "visit-arms", "anchor-missing/" + var, H.where(fn), "anchor-missing: no arm for Expr::%s" % var)
            continue
        c = H.canon(a[0]["body"])
        pc = H.pat_canon(a[0]["pat"])
        mm = H.pat_match(want, c)
        n += 1
        if not mm:
            run.violation(fam, "visit-arms", var, H.where(a[0]), "Expr::%s must compile to %s, found %s" % (var, want, c))
        elif "g" in mm.groupdict() and ("(%s)" % mm.group("g")) not in pc:
            run.violation(fam, "visit-arms", var + "/operand", H.where(a[0]), "Expr::%s must pass its own group number, pattern %s body %s" % (var, pc, c))
    # Conditional: always lowered by compile_conditional with the incoming context
    a = arms.get("Conditional")
    if not a:
        run.violation(fam, "visit-arms", "anchor-missing/Conditional", H.where(fn), "anchor-missing: no arm for Expr::Conditional")
    else:
        c = H.canon(a[0]["body"])
        HARDP = [p.get("name") for p in fn["params"]][2]
        n += 1
        if not H.pat_match("self.compile_conditional(|{c},{i}| {c}.visit(%s.children[{i}],%s))?" % (INFO, HARDP), c):
            run.violation(fam, "visit-arms", "Conditional", H.where(a[0]), "Expr::Conditional must always be lowered by compile_conditional over children 0,1,2 in the incoming context (a special-cased lowering loses the commit that keeps a failed true-branch from falling back to the false branch), found %s" % c[:200])
    # Any
    seen_nl = set()
    for a in arms.get("Any", []):
        pc = H.pat_canon(a["pat"])
        c = H.canon(a["body"])
        n += 1
        mvar = re.search(r"newline:(\w+)", pc)
        for p in S.paths_of(a["body"]):
            # is `newline` set on this path?  from the pattern (newline: true / false) or a test of the bound field
            nl = None
            if "newline:true" in pc:
                nl = True
            elif "newline:false" in pc:
                nl = False
            elif mvar:
                tr = [ev.b for ev in p.events if ev.kind == "cond" and ev.a == mvar.group(1)]
                nl = tr[-1] if tr else None
            sm = S.Summary(p)
            adds = [x for x in sm.calls if x.startswith("self.b.add(")]
            want = "self.b.add(Insn::Any)" if nl else "self.b.add(Insn::AnyNoNL)"
            if nl is None or adds != [want]:
                run.violation(fam, "visit-arms", "Any/" + pc, H.where(a), "Expr::%s must compile to %s, found %s" % (pc, want, c))
                break
            seen_nl.add(nl)
    if arms.get("Any") and seen_nl != {True, False}:
        run.violation(fam, "visit-arms", "Any/anchor-missing", H.where(fn), "anchor-missing: Expr::Any must be compiled for newline = true and false")
    # Literal: case-sensitive literal -> Lit(val), case-insensitive -> delegate
    a = arms.get("Literal")
    if a:
        ps = [p for p in S.paths_of(a[0]["body"]) if p.exit in ("fall",)]
        for p in ps:
            ci = [ev for ev in p.events if ev.kind == "cond" and ev.a in ("casei", "!casei")]
            lit = [ev for ev in p.events if ev.kind == "call" and ev.a.startswith("self.b.add(Insn::Lit(")]
            n += 1
            if ci:
                casei = ci[0].b if ci[0].a == "casei" else (not ci[0].b)
                if casei and lit:
                    run.violation(fam, "visit-arms", "Literal/casei", H.where(a[0]), "a case-insensitive literal must not be compiled to a byte-wise Lit")
                if (not casei) and lit and lit[0].a != "self.b.add(Insn::Lit(val.clone()))":
                    run.violation(fam, "visit-arms", "Literal/val", H.where(a[0]), "Lit must carry the literal's own text, found %s" % lit[0].a)
    run.ok(fam, "visit-arms", H.where(fn), n, "Group/AtomicGroup/KeepOut/Backref/BackrefExistsCondition/Assertion/Any/Literal arms")

    # look-around builders
    fam2 = "look-around"
    fp = S.get_fn(run, ctx, "compile::Compiler::compile_positive_lookaround", fam, fam2)
    if fp is not None:
        ps = [p for p in S.paths_of(fp["body"]) if S.ret_value(p) == "Ok(())"]
        for p in ps:
            t = build_template(p)
            seq = [(it[1], dict(it[2]).get("0")) if it[0] == "insn" else ("frag", it[3]) for it in t.items]
            ok = len(seq) == 3 and seq[0][0] == "Save" and seq[2][0] == "Restore" and seq[0][1] == seq[2][1] and str(seq[0][1]).startswith("slot#") \
                and seq[1][0] == "frag" and "compile_lookaround_inner(" in seq[1][1]
            if not ok:
                run.violation(fam, fam2, "positive", H.where(fp), "a positive look-around must be Save(s); body; Restore(s) with one fresh slot s, found %s" % seq)
            else:
                run.ok(fam, fam2, H.where(fp), 1, "positive: Save(fresh); body; Restore(same)")
    fnn = S.get_fn(run, ctx, "compile::Compiler::compile_negative_lookaround", fam, fam2)
    if fnn is not None:
        ps = [p for p in S.paths_of(fnn["body"]) if S.ret_value(p) == "Ok(())"]
        for p in ps:
            t = build_template(p)
            seq = [it[1] if it[0] == "insn" else "frag" for it in t.items]
            ok = seq == ["Split", "frag", "FailNegativeLookAround"]
            if ok:
                sp = t.items[0]
                fl = t.items[2]
                ops = dict(sp[2])
                ok = ops.get("0") == sp[3].plus(1) and ops.get("1") == fl[3].plus(1) and ops.get("1") == t.here and not t.errors
            if not ok:
                run.violation(fam, fam2, "negative", H.where(fnn),
                              "a negative look-around must be Split(body, after); body; FailNegativeLookAround with `after` exactly the instruction after FailNegativeLookAround (the VM pops until it sees pc + 1): %s %s" % (t.show(), t.errors))
            else:
                run.ok(fam, fam2, H.where(fnn), 1, "negative: Split(+1, after Fail); body; FailNegativeLookAround")
    fi = S.get_fn(run, ctx, "compile::Compiler::compile_lookaround_inner", fam, fam2)
    if fi is not None:
        # parameters by type, not by position
        INNER = next((p.get("name") for p in fi["params"] if "Info" in (p.get("ty") or "")), None)
        LA = next((p.get("name") for p in fi["params"] if "LookAround" in (p.get("ty") or "")), None)
        if INNER is None or LA is None:
            run.violation(fam, fam2, "inner/anchor-missing", H.where(fi), "anchor-missing: compile_lookaround_inner should take the body's Info and the LookAround kind")
            return
        n2 = 0
        for p in S.paths_of(fi["body"]):
            if not feasible(p):
                continue
            v = S.ret_value(p)
            if v is None:
                continue
            n2 += 1
            behind = [ev for ev in p.events if ev.kind == "cond" and re.match(r"^\((LookAround::)?LookBehind(Neg)? == %s\)$|^\(%s == (LookAround::)?LookBehind(Neg)?\)$" % (LA, LA), ev.a)]
            is_behind = any(ev.b for ev in behind)
            la_arms = [ev for ev in p.events if ev.kind == "arm" and ev.a == LA]
            if la_arms:
                pat_ = la_arms[-1].b or ""
                is_behind = "LookBehind" in pat_ and "LookAhead" not in pat_
            gb = [ev for ev in p.events if ev.kind == "call" and ev.a.startswith("self.b.add(Insn::GoBack(")]
            body = [ev for ev in p.events if ev.kind == "call" and ev.a.startswith("self.visit(")]
            cs = [ev for ev in p.events if ev.kind == "cond" and ev.a in ("%s.const_size" % INNER, "!%s.const_size" % INNER)]
            if is_behind:
                if not cs:
                    run.violation(fam, fam2, "inner/no-const-test", H.where(fi), "look-behind body is compiled without testing inner.const_size")
                    continue
                const = cs[0].b if cs[0].a == "%s.const_size" % INNER else (not cs[0].b)
                if not const:
                    if not (v.startswith("Err(") and "LookBehindNotConst" in v) or gb or body:
                        run.violation(fam, fam2, "inner/not-const", H.where(fi), "a look-behind whose body is not constant-size must be rejected with LookBehindNotConst before anything is emitted, found %s" % v)
                else:
                    if len(gb) != 1 or gb[0].a != "self.b.add(Insn::GoBack(%s.min_size))" % INNER:
                        run.violation(fam, fam2, "inner/goback", H.where(fi), "an accepted look-behind must step back exactly inner.min_size characters, found %s" % [g.a for g in gb])
                    elif not body or p.events.index(gb[0]) > p.events.index(body[0]):
                        run.violation(fam, fam2, "inner/goback-order", H.where(fi), "GoBack must be emitted before the look-behind body")
            else:
                if gb:
                    run.violation(fam, fam2, "inner/goback-ahead", H.where(fi), "GoBack emitted for a look-ahead")
            if body and body[0].a != "self.visit(%s,false)" % INNER:
                run.violation(fam, fam2, "inner/body", H.where(fi), "look-around body must be visit(inner, false), found %s" % body[0].a)
        run.floor(fam, fam2, H.where(fi), n2, 3, "paths of compile_lookaround_inner")
        run.ok(fam, fam2, H.where(fi), n2, "look-behind: const_size test -> LookBehindNotConst | GoBack(min_size) before body")


def compile_lookaround_dispatch(run, ctx):
    """LookBehind / LookBehindNeg split variable-size alternations per alternative (C13)."""
    fam, label = "TMPL", "compile_lookaround"
    fn = S.get_fn(run, ctx, "compile::Compiler::compile_lookaround", fam, label)
    if fn is None:
        return
    ms = H.match_arms_on(fn["body"], "LookAround")
    if not ms:
        run.violation(fam, label, "anchor-missing/match", H.where(fn), "anchor-missing: match on LookAround")
        return
    arms = {}
    for a in ms[0]["arms"]:
        for v in H.arm_variants(a, "LookAround"):
            arms[v] = a
        if H.is_wild_arm(a):
            run.violation(fam, label, "wildcard", H.where(a), "wildcard arm in compile_lookaround")
    n = 0
    spec = {"LookAhead": ("compile_positive_lookaround", False), "LookAheadNeg": ("compile_negative_lookaround", False),
            "LookBehind": ("compile_positive_lookaround", True), "LookBehindNeg": ("compile_negative_lookaround", True)}
    for var, (helper, split) in spec.items():
        a = arms.get(var)
        if a is None:
            run.violation(fam, label, "anchor-missing/" + var, H.where(fn), "anchor-missing: no arm for %s" % var)
            continue
        c = H.canon(a["body"])
        n += 1
        calls = [x for x in H.walk(a["body"]) if x.get("k") == "MethodCall" and x["name"].startswith("compile_") and "lookaround" in x["name"]]
        if not calls or any(x["name"] != helper for x in calls):
            run.violation(fam, label, var + "/helper", H.where(a), "%s must be compiled with %s, found %s" % (var, helper, [x["name"] for x in calls]))
        if split:
            # per-alternative split exactly when the body is a variable-size alternation
            ifs = [x for x in H.walk(a["body"]) if x.get("k") == "If"]
            ok = False
            for i_ in ifs:
                cc = H.canon(i_["cond"])
                if H.pat_match("let Info{const_size:false,expr:Expr::Alt(_),..} = {i}", cc) or \
                        H.pat_match("(!{i}.const_size && match {i}.expr {Expr::Alt(_) => true; _ => false})", cc) or \
                        H.pat_match("(match {i}.expr {Expr::Alt(_) => true; _ => false} && !{i}.const_size)", cc):
                    thenc = H.canon(i_["then"])
                    if var == "LookBehind" and "compile_alt(" in thenc and "compile_positive_lookaround(" in thenc:
                        ok = True
                    if var == "LookBehindNeg" and "for " in thenc and "compile_negative_lookaround(" in thenc and "compile_alt(" not in thenc:
                        ok = True
            if not ok:
                run.violation(fam, label, var + "/per-alternative", H.where(a),
                              "%s with a variable-size alternation body must be split per alternative (%s), found %s" % (var, "alternation of look-behinds" if var == "LookBehind" else "sequence of negative look-behinds", c[:160]))
    # the pieces of a split look-behind are tried in the order the alternatives are written (which alternative
    # succeeds first decides the capture groups set inside it): nothing in this function may reorder them
    reord = [nd for nd in H.walk(fn["body"]) if nd.get("k") == "MethodCall" and nd["name"] in
             ("sort", "sort_by", "sort_by_key", "sort_unstable", "sort_unstable_by", "sort_unstable_by_key", "sort_by_cached_key", "reverse", "rev", "swap", "rotate_left", "rotate_right", "select_nth_unstable")]
    for nd in reord:
        run.violation(fam, label, "reorder/" + nd["name"], H.where(nd), "compile_lookaround calls .%s(): the alternatives of a look-behind must be compiled in source order (the first alternative that matches decides the captures, e.g. (?<=(ab)|(b))c on \"abc\")" % nd["name"])
    n += 1
    run.ok(fam, label, H.where(fn), n, "4 look-around kinds -> positive/negative helper; look-behind alternations split per alternative, in source order")


# ---------------------------------------------------------------------------------------------
# CTX: hard-context argument of every Compiler::visit call
# ---------------------------------------------------------------------------------------------

def ctx_rule(run, ctx):
    fam, label = "CTX", "visit-context"
    n = 0
    falses = []
    for path, fn in sorted(ctx.facts.hir.items()):
        sp = strip_generics(path)
        if not sp.startswith("compile::"):
            continue
        params = [p.get("name") for p in fn["params"]]
        # local bindings and their initialisers
        lets = {}
        for nd in H.walk(fn["body"]):
            if nd.get("k") == "Let" and nd["pat"].get("k") == "Binding" and nd.get("init") is not None:
                lets[nd["pat"]["id"]] = nd
        expr_arm = {}
        for m in H.match_arms_on(fn["body"], "Expr"):
            for a in m["arms"]:
                vs = H.arm_variants(a, "Expr")
                for x in H.walk(a["body"]):
                    expr_arm[id(x)] = vs
        for nd in H.walk(fn["body"]):
            if nd.get("k") == "MethodCall" and nd["name"] == "visit" and (nd.get("def", "").endswith("Compiler::visit")):
                n += 1
                arg = H.peel(nd["args"][1])
                c = H.canon(arg)
                where = H.where(nd)
                ok = False
                why = ""
                if c == "true":
                    ok = True
                elif c == "false":
                    vs = expr_arm.get(id(nd), [])
                    if sp == "compile::Compiler::compile_lookaround_inner" or (sp == "compile::Compiler::visit" and vs == ["AtomicGroup"]) or sp == "compile::compile_with_options" or sp == "compile::compile":
                        ok = True
                        falses.append(sp)
                    else:
                        why = "the literal `false` context is only allowed where the body's alternatives are cut or isolated (AtomicGroup arm, look-around body, root)"
                elif arg.get("k") == "Path" and arg.get("res") == "Local":
                    # the incoming parameter, or a local widening of it
                    pid = arg["id"]
                    if pid in lets:
                        init = H.canon(lets[pid]["init"])
                        if H.pat_match("({h} | {*rest})", init) or H.pat_match("({*rest} | {h})", init) or H.pat_match("({h} || {*rest})", init):
                            ok = True
                        else:
                            why = "context variable is bound to %s, which is not the incoming context widened" % init
                    elif arg["name"] in params and arg.get("ty") == "bool":
                        ok = True
                    else:
                        # closure capture of the enclosing function's parameter
                        ok = arg.get("ty") == "bool" and arg["name"] in params
                        if not ok:
                            why = "context %s is not the incoming hard-context parameter" % c
                elif H.pat_match("({h} | {*rest})", c):
                    ok = True
                else:
                    why = "unrecognised context expression %s" % c
                if not ok:
                    run.violation(fam, label, "%s/%s" % (sp, c), where,
                                  "Compiler::visit is called in %s with context `%s`: %s (a sub-expression that may need to be backtracked into could be delegated to the automata engine)" % (sp, c, why))
                elif sp == "compile::Compiler::compile_concat" and c != "true":
                    run.violation(fam, label, "%s/middle-not-hard" % sp, where,
                                  "compile_concat must compile the children between the delegated prefix and suffix in a hard context (`true`): they are followed by something that may force backtracking into them; found `%s`" % c)
    run.floor(fam, label, "src/compile.rs", n, 12, "Compiler::visit call sites with a context argument")
    run.ok(fam, label, "src/compile.rs", n, "%d visit calls: context is incoming / widened / true; `false` only in %s" % (n, sorted(set(falses))))


def concat_predicates(run, ctx):
    """XFER-consumer: what compile_concat delegates as prefix / suffix."""
    fam, label = "CTX", "concat-delegation"
    fn = S.get_fn(run, ctx, "compile::Compiler::compile_concat", fam, label)
    if fn is None:
        return
    w = H.where(fn)
    ps = [p.get("name") for p in fn["params"]]
    INFO, HARD = ps[1], ps[2]

    def conj(clo):
        b = H.canon(clo["body"])
        P = H.pat_canon(clo["params"][0])
        parts = set()

        def rec(s):
            s = s.strip()
            if s.startswith("(") and s.endswith(")") and " && " in s:
                d = 0
                for i, ch in enumerate(s):
                    if ch == "(":
                        d += 1
                    elif ch == ")":
                        d -= 1
                    elif d == 1 and s.startswith(" && ", i):
                        rec(s[1:i])
                        rec(s[i + 4:-1])
                        return
            parts.add(s.replace(P + ".", "c."))
        rec(b)
        return parts
    tws = [nd for nd in H.walk(fn["body"]) if nd.get("k") == "MethodCall" and nd["name"] == "take_while"]
    if len(tws) != 3:
        run.violation(fam, label, "anchor-missing/take_while", w, "anchor-missing: compile_concat should select prefix/suffix with three take_while predicates, found %d" % len(tws))
        return
    n = 0
    # prefix
    pre = [nd for nd in H.walk(fn["body"]) if nd.get("k") == "Let" and nd.get("init") is not None and "take_while" in H.canon(nd["init"]) and ".rev()" not in H.canon(nd["init"])]
    if len(pre) != 1:
        run.violation(fam, label, "anchor-missing/prefix", w, "anchor-missing: prefix selection")
    else:
        clo = [x for x in H.walk(pre[0]["init"]) if x.get("k") == "Closure"][0]
        cj = conj(clo)
        n += 1
        if not ({"!c.hard", "c.const_size"} <= cj):
            run.violation(fam, label, "prefix-predicate", H.where(clo), "the delegated prefix must consist of children that are not hard and of constant size (a variable-size prefix could need backtracking into once the hard part fails); predicate is %s" % sorted(cj))
        ic = H.canon(pre[0]["init"])
        if not ic.startswith("%s.children.iter().take_while(" % INFO) or not ic.endswith(".count()"):
            run.violation(fam, label, "prefix-shape", H.where(pre[0]), "prefix must be a leading run of children: %s" % ic[:100])
    suf = [nd for nd in H.walk(fn["body"]) if nd.get("k") == "If" and "take_while" in H.canon(nd.get("then")) and nd.get("else") is not None]
    if len(suf) != 1:
        run.violation(fam, label, "anchor-missing/suffix", w, "anchor-missing: suffix selection by context")
    else:
        cnd = H.canon(suf[0]["cond"])
        easy_branch, hard_branch = (suf[0]["then"], suf[0]["else"]) if cnd == "!%s" % HARD else ((suf[0]["else"], suf[0]["then"]) if cnd == HARD else (None, None))
        if easy_branch is None:
            run.violation(fam, label, "suffix-cond", H.where(suf[0]), "suffix selection must branch on the incoming hard context, found %s" % cnd)
        else:
            for br, need, nm in ((easy_branch, {"!c.hard"}, "easy-context"), (hard_branch, {"!c.hard", "c.const_size"}, "hard-context")):
                clo = [x for x in H.walk(br) if x.get("k") == "Closure"]
                n += 1
                if len(clo) != 1:
                    run.violation(fam, label, "suffix-closure/" + nm, H.where(br), "anchor-missing: suffix predicate (%s)" % nm)
                    continue
                cj = conj(clo[0])
                if not (need <= cj):
                    run.violation(fam, label, "suffix-predicate/" + nm, H.where(clo[0]),
                                  "in a %s the delegated suffix must satisfy %s; predicate is %s (a non-constant-size suffix delegated in a hard context cannot be backtracked into)" % (nm, sorted(need), sorted(cj)))
                bc = H.canon(br)
                if "%s.children[prefix_end..].iter().rev().take_while(" % INFO not in bc.replace(" ", "") and ".rev().take_while(" not in bc:
                    run.violation(fam, label, "suffix-shape/" + nm, H.where(br), "suffix must be a trailing run of the children after the prefix: %s" % bc[:100])
    # the three parts partition the children in order
    c = H.canon(fn["body"])
    n += 1
    for want in ("self.compile_delegates(%s.children[..prefix_end])?" % INFO, "for child in %s.children[prefix_end..suffix_begin]" % INFO,
                 "self.compile_delegates(%s.children[suffix_begin..])" % INFO, "let suffix_begin = (len(%s.children) - suffix_len)" % INFO):
        if want not in c:
            run.violation(fam, label, "partition/" + want[:30], w, "compile_concat must emit prefix, middle, suffix as consecutive slices of the children; missing `%s`" % want)
    run.ok(fam, label, w, n, "prefix: !hard && const_size; suffix: !hard (easy context) / !hard && const_size (hard context); consecutive slices")


def visit_delegation_gate(run, ctx):
    """Compiler::visit delegates iff !hard_context && !info.hard (C03)."""
    fam, label = "CTX", "delegation-gate"
    fn = S.get_fn(run, ctx, "compile::Compiler::visit", fam, label)
    if fn is None:
        return
    ps = [p.get("name") for p in fn["params"]]
    INFO, HARD = ps[1], ps[2]
    # path-based: a path of visit hands the whole sub-expression to compile_delegate (and returns its result) exactly
    # when both `hard` and `info.hard` were tested false on it; no path reaches the match on the expression kind
    # with both false
    st = fn["body"].get("stmts", [])
    first = H.peel(st[0]["e"]) if st and st[0]["k"] in ("ExprStmt", "Semi") else None
    ok = first is not None and first.get("k") == "If"
    ndel = nother = 0
    if ok:
        for p in S.paths_of(first):
            tr = {}
            for ev in p.events:
                if ev.kind == "cond" and ev.a in (HARD, "%s.hard" % INFO):
                    tr.setdefault(ev.a, ev.b)
            both_false = tr.get(HARD) is False and tr.get("%s.hard" % INFO) is False
            dele = p.exit == "return" and p.val == "self.compile_delegate(%s)" % INFO
            if dele:
                ndel += 1
                ok = ok and both_false
            else:
                nother += 1
                ok = ok and p.exit == "fall" and (tr.get(HARD) is True or tr.get("%s.hard" % INFO) is True)
                ok = ok and not any(ev.kind == "call" for ev in p.events)
        ok = ok and ndel >= 1 and nother >= 1
    if not ok:
        run.violation(fam, label, "gate", H.where(fn), "Compiler::visit must start by delegating the whole sub-expression exactly when the context is not hard and the sub-expression is not hard")
    else:
        run.ok(fam, label, H.where(fn), 1, "if !hard && !info.hard { return self.compile_delegate(info) }")


def compile_alt(run, ctx):
    """Alternation template: priority order, fallback chain, jumps to the end (C01)."""
    fam, label = "TMPL", "compile_alt"
    fn = S.get_fn(run, ctx, "compile::Compiler::compile_alt", fam, label)
    if fn is None:
        return
    w = H.where(fn)
    c = H.canon(fn["body"])
    ps = [p.get("name") for p in fn["params"]]
    COUNT, HANDLE = ps[1], ps[2]
    n = 0

    def need(pat, key, what):
        nonlocal n
        n += 1
        m = None
        for p_ in ([pat] if isinstance(pat, str) else pat):
            m = m or H.compile_pat("{*pre}" + p_ + "{*post}").match("~" + c + "~")
        if not m:
            run.violation(fam, label, key, w, "compile_alt: %s; shape `%s` not found" % (what, pat))
        return m
    need("for {i} in 0..%s {" % COUNT, "order", "alternatives must be emitted in index order 0..count (priority = textual order)")
    # the loop body, path by path.  Program counters read at different moments are different values: every
    # `self.b.pc()` is named after the number of emissions (self.b.add / the alternative's own code) before it
    loops = [nd for nd in H.walk(fn["body"]) if nd.get("k") == "For" and H.canon(nd["iter"]) == "0..%s" % COUNT]
    if len(loops) == 1:
        lp = loops[0]
        I = H.pat_canon(lp["pat"])
        spell = {"(%s != (%s - 1))" % (I, COUNT), "((%s - 1) != %s)" % (COUNT, I), "((1 + %s) < %s)" % (I, COUNT),
                 "(%s < (%s - 1))" % (I, COUNT), "((1 + %s) != %s)" % (I, COUNT)}
        inits = {}
        for nd in H.walk(fn["body"]):
            if nd.get("k") == "Let" and nd["pat"].get("k") == "Binding" and nd.get("init") is not None and nd is not lp:
                inits.setdefault(nd["pat"]["name"], H.canon(nd["init"]))
        combos = {}
        bad = None
        for p in S.paths_of(lp["body"]):
            if p.exit == "try-err":
                if not any(ev.kind == "call" and (ev.a or "").startswith("%s(" % HANDLE) for ev in p.events):
                    bad = "the loop body fails before the alternative's own code"
                continue
            env, epoch = {}, 0
            hn = hl = None
            adds, ssts, pushes, handles, last_final, last_name = [], [], [], [], None, None
            handled = False

            def val(t):
                return H.subst_lets(t or "", env).replace("self.b.pc()", "PC%d" % epoch)
            for ev in p.events:
                if ev.kind == "let" and re.match(r"^\w+$", ev.a or "") and ev.b is not None:
                    env[ev.a] = val(ev.b)
                elif ev.kind == "cond":
                    t = val(ev.a)
                    if t in spell:
                        hn = bool(ev.b) if hn is None or hn == bool(ev.b) else "contradictory"
                    m_ = re.match(r"^\(MAX (!=|==) (\w+)\)$", t) or re.match(r"^\((\w+) (!=|==) MAX\)$", t)
                    if m_:
                        op_ = m_.group(1) if m_.group(1) in ("!=", "==") else m_.group(2)
                        nm_ = m_.group(2) if m_.group(1) in ("!=", "==") else m_.group(1)
                        if inits.get(nm_) == "MAX":
                            hl, last_name = (bool(ev.b) if op_ == "!=" else not ev.b), nm_
                            env.setdefault("@payload", nm_)
                elif ev.kind == "letcond":
                    m_ = re.match(r"^Some\((\w+)\)$", ev.a or "")
                    if m_ and inits.get(ev.b) == "None":
                        hl, last_name = bool(ev.c), ev.b
                        if ev.c:
                            env[m_.group(1)] = "@prev"
                            env["@payload"] = "@prev"
                elif ev.kind == "assign" and re.match(r"^\w+$", ev.a or ""):
                    v_ = val(ev.c) if ev.b == "=" else "?"
                    env[ev.a] = v_
                    if inits.get(ev.a) in ("MAX", "None"):
                        last_final = (ev.a, v_, inits.get(ev.a))
                elif ev.kind == "call":
                    t = val(ev.a)
                    if t.startswith("self.b.add("):
                        adds.append((epoch, t, handled))
                        epoch += 1
                    elif t.startswith("self.b.set_split_target("):
                        ssts.append((t, handled))
                    elif t.startswith("%s(" % HANDLE):
                        handles.append(t)
                        handled = True
                        epoch += 1
                    elif ".push(" in t and t.split(".push(")[0] in inits:
                        pushes.append((t.split(".push(")[0], t.split(".push(", 1)[1][:-1], epoch))
                    elif t.startswith("self.b.") and not t.startswith("self.b.pc("):
                        bad = "unexpected builder call %s" % t
            if hn == "contradictory":
                continue        # the same test answered differently twice: not a feasible path
            if hn not in (True, False) or hl not in (True, False):
                bad = "a path through the loop body does not decide `is there a next alternative` (i != count - 1) and `is there a previous Split to patch` (found %s / %s)" % (hn, hl)
                break
            combos[(hn, hl)] = combos.get((hn, hl), 0) + 1
            prevv = last_name if inits.get(last_name) == "MAX" else "@prev"
            want_adds = [(0, "self.b.add(Insn::Split((1 + PC0),MAX))", False)] if hn else []
            if handles != ["%s(self,%s)" % (HANDLE, I)]:
                bad = "every alternative is compiled exactly once, by %s(self, %s) (found %s)" % (HANDLE, I, handles)
            elif [a_ for a_ in adds if not a_[2]] != want_adds:
                bad = "a non-last alternative starts with Split(next instruction, <patched later>) as its first instruction, the last one with no Split (has_next=%s: %s)" % (hn, adds)
            elif ssts != ([("self.b.set_split_target(%s,PC0,true)" % prevv, False)] if hl else []):
                bad = "the previous alternative's Split falls back (second operand) to the start of this alternative, and nothing is patched before the first (previous=%s: %s)" % (hl, ssts)
            elif last_final is None or last_final[1] != ("PC0" if last_final[2] == "MAX" else "Some(PC0)"):
                bad = "the start of this alternative must be remembered for the next one (found %s)" % (last_final,)
            else:
                after = [a_ for a_ in adds if a_[2]]
                if hn:
                    if len(after) != 1 or after[0][1] != "self.b.add(Insn::Jmp(0))" or len(pushes) != 1 or pushes[0][1] != "PC%d" % after[0][0] or inits.get(pushes[0][0]) != "Vec::new()":
                        bad = "after a non-last alternative a Jmp (patched to the end) skips the remaining alternatives, and its own pc is recorded for patching (adds %s, recorded %s)" % (after, pushes)
                elif after or pushes:
                    bad = "the last alternative falls through: no Jmp, nothing recorded (adds %s, recorded %s)" % (after, pushes)
            if bad:
                break
        n += 4
        if bad:
            run.violation(fam, label, "loop-body", H.where(lp), "compile_alt: %s" % bad)
        elif set(combos) != {(True, True), (True, False), (False, True), (False, False)}:
            run.violation(fam, label, "loop-body/cases", H.where(lp), "anchor-missing: compile_alt's loop body should decide next-alternative x previous-Split in all four combinations (found %s)" % sorted(combos))
    need("let {np} = self.b.pc(); for {j} in {jmps} {self.b.set_jmp_target({j},{np})}; Ok(())", "join", "all jumps are patched to the first instruction after the alternation")
    run.ok(fam, label, w, n, "Split(+1, next alternative) ... Jmp(end) chain in index order")


def literal_fast_path(run, ctx):
    """Which sub-expressions bypass the automata engine as byte-wise literals (C01, C03)."""
    fam, label = "CTX", "literal-fast-path"
    n = 0
    fn = S.get_fn(run, ctx, "analyze::Info::is_literal", fam, label)
    if fn is not None:
        c = H.canon(H.peel(fn["body"]))
        n += 1
        okl = {"lit": 0, "concat": 0, "other": 0}
        badl = None
        for p in S.paths_of(fn["body"]):
            v = S.ret_value(p)
            arms_ = [ev for ev in p.events if ev.kind == "arm" and ev.a == "self.expr"]
            if v is None or not arms_:
                continue
            pat = arms_[-1].b or ""
            if pat.startswith("Expr::Literal{"):
                m = re.search(r"casei:(\w+)", pat)
                ci = m.group(1) if m else None
                tr = [ev.b for ev in p.events if ev.kind == "cond" and ev.a == ci]
                if ci in ("true", "false"):
                    good = v == ("false" if ci == "true" else "true")      # the flag is fixed by the pattern
                else:
                    good = ci is not None and (v == "!%s" % ci or (tr and v == ("false" if tr[-1] else "true")))
                if not good:
                    badl = "a literal is byte-comparable exactly when it is case-sensitive (found %s)" % v
                okl["lit"] += 1
            elif pat.startswith("Expr::Concat("):
                fails = [ev for ev in p.events if ev.kind == "cond" and H.pat_match("{c}.is_literal()", ev.a or "") and ev.b is False]
                over = [ev for ev in p.events if ev.kind in ("for-iter", "for-skip") and (ev.b or "") in ("self.children", "self.children.iter()")]
                if H.pat_match("self.children.iter().all(|{c}| {c}.is_literal())", v):
                    pass
                elif over and ((v == "false" and fails) or (v == "true" and not fails)):
                    pass
                else:
                    badl = "a concatenation is a literal exactly when every child is (found %s)" % v
                okl["concat"] += 1
            else:
                if v != "false":
                    badl = "nothing but case-sensitive literals and their concatenations may bypass the automata engine (found %s for %s)" % (v, pat)
                okl["other"] += 1
        if badl or min(okl.values()) < 1:
            run.violation(fam, label, "is_literal", H.where(fn), "Info::is_literal must hold exactly for case-sensitive literals and concatenations of them (a case-insensitive literal compared byte-wise would not fold case): %s; found %s" % (badl or okl, c))
    fn = S.get_fn(run, ctx, "analyze::Info::push_literal", fam, label)
    if fn is not None:
        c = H.canon(H.peel(fn["body"]))
        n += 1
        if not H.pat_match("match self.expr {Expr::Concat(_) => for {c} in self.children {{c}.push_literal({b})}; Expr::Literal{val:{v},..} => {b}.push_str({v}); _ => {*p}}", c):
            run.violation(fam, label, "push_literal", H.where(fn), "Info::push_literal must append the literal text of the node and of its children in order, found %s" % c[:160])
    fn = S.get_fn(run, ctx, "compile::Compiler::compile_delegate", fam, label)
    if fn is not None:
        c = H.canon(fn["body"])
        I = fn["params"][1].get("name")
        n += 1
        # path by path: literal -> one Lit holding the text push_literal collected; otherwise one instruction built by a
        # fresh DelegateBuilder that was given exactly this sub-expression and the user's options
        seenp = {True: 0, False: 0}
        badp = None
        for p in S.paths_of(fn["body"]):
            if p.exit == "try-err":
                continue
            lit = [ev.b for ev in p.events if ev.kind == "cond" and ev.a == "%s.is_literal()" % I]
            if not lit:
                badp = "a path does not ask whether the sub-expression is a literal"
                break
            seenp[bool(lit[0])] += 1
            lets_ = {ev.a.replace("mut ", ""): ev.b for ev in p.events if ev.kind == "let" and re.match(r"^(mut )?\w+$", ev.a or "")}
            adds = [ev.a for ev in p.events if ev.kind == "call" and (ev.a or "").startswith("self.b.add(")]
            calls_ = [ev.a or "" for ev in p.events if ev.kind == "call"]
            if len(adds) != 1 or S.ret_value(p) != "Ok(())":
                badp = "exactly one instruction is emitted and Ok(()) returned (found %s)" % adds
                break
            arg = adds[0][len("self.b.add("):-1]
            arg = lets_.get(arg, arg)
            if lit[0]:
                m_ = re.match(r"^Insn::Lit\((\w+)\)$", arg)
                if not m_ or lets_.get(m_.group(1)) != "String::new()" or "%s.push_literal(%s)" % (I, m_.group(1)) not in calls_ or any(".build(" in c_ for c_ in calls_):
                    badp = "a literal sub-expression must become Lit(text collected by push_literal into a fresh String) (found %s)" % arg
                    break
            else:
                m_ = re.match(r"^(.*)\.build\(self\.options\)\?$", arg)
                recv = m_.group(1) if m_ else None
                ok_ = False
                if recv == "DelegateBuilder::new().push(%s)" % I:
                    ok_ = True
                elif recv and lets_.get(recv) == "DelegateBuilder::new()":
                    pushes = [c_ for c_ in calls_ if c_.startswith(recv + ".push(")]
                    ok_ = pushes == ["%s.push(%s)" % (recv, I)]
                if not ok_ or any("push_literal(" in c_ for c_ in calls_):
                    badp = "a non-literal sub-expression must become the instruction built by a fresh DelegateBuilder given this sub-expression and self.options (found %s)" % arg
                    break
        if badp or min(seenp.values()) < 1:
            run.violation(fam, label, "compile_delegate", H.where(fn), "compile_delegate must emit Lit(text) exactly for literal sub-expressions and a Delegate built from the user's options otherwise: %s; found %s" % (badp or seenp, c[:200]))
    fn = S.get_fn(run, ctx, "compile::Compiler::compile_delegates", fam, label)
    if fn is not None:
        c = H.canon(fn["body"])
        I = fn["params"][1].get("name")
        n += 1
        kinds = {"empty": 0, "literal": 0, "delegate": 0}
        bad = None
        for p in S.paths_of(fn["body"]):
            if p.exit == "try-err":
                continue
            sm = S.Summary(p)
            tr = {}
            for t, v, _, _ in sm.conds:
                tr.setdefault(t, v)
            empty = tr.get("%s.is_empty()" % I)
            alllit = next((v for t, v in tr.items() if H.pat_match("%s.iter().all(|{e}| {e}.is_literal())" % I, t)), None)
            adds = [x for x in sm.calls if x.startswith("self.b.add(")]
            iters = [ev for ev in p.events if ev.kind == "for-iter" and (ev.b or "") in (I, "%s.iter()" % I)]
            skips = [ev for ev in p.events if ev.kind == "for-skip" and (ev.b or "") in (I, "%s.iter()" % I)]
            if empty:
                if adds or sm.val != "Ok(())":
                    bad = "an empty run must emit nothing"
                kinds["empty"] += 1
                continue
            if empty is None:
                bad = "the empty run is not tested first"
                continue
            if alllit:
                lit = [x for x in sm.calls if H.pat_match("{i}.push_literal({v})", x)]
                if skips and not iters:
                    continue        # zero-iteration variant of the loop: excluded by !is_empty()
                mm = H.pat_match("{i}.push_literal({v})", lit[0]) if lit else None
                if not iters or not mm or adds != ["self.b.add(Insn::Lit(%s))" % mm.group("v")] or any("DelegateBuilder" in x for x in sm.calls) or sm.val != "Ok(())":
                    bad = "an all-literal run must be merged into one Lit of the literals' text in order (found %s)" % adds
                kinds["literal"] += 1
                continue
            if alllit is None:
                bad = "the all-literal test is missing"
                continue
            if skips and not iters:
                continue
            news = [x for x in sm.calls if x == "DelegateBuilder::new()"]
            pushes = [x for x in sm.calls if H.pat_match("{db}.push({j})", x)]
            builds = [x for x in sm.calls if H.pat_match("{db}.build(self.options)", x)]
            if len(news) != 1 or not iters or not pushes or len(builds) != 1 or len(adds) != 1 or builds[0] not in adds[0] or sm.val != "Ok(())":
                bad = "a run that is not all literals must be pushed, in order, into one DelegateBuilder built with the user's options and emitted (found %s)" % [x for x in sm.calls if "elegate" in x or x.startswith("self.b")][:6]
            kinds["delegate"] += 1
        if bad or min(kinds.values()) < 1:
            run.violation(fam, label, "compile_delegates", H.where(fn), "compile_delegates must merge an all-literal run into one Lit and otherwise push every Info of the run, in order, into one delegate built from the user's options: %s; found %s" % (bad or "missing outcome %s" % kinds, c[:200]))
    run.ok(fam, label, "src/compile.rs", n, "byte-wise Lit only for case-sensitive literals; everything else goes through DelegateBuilder in order")
