"""Property -> rule instances."""
import time

import mirlib as M
import fam_panic


class Ctx:
    def __init__(self, facts):
        self.facts = facts
        self._cg = None

    @property
    def cg(self):
        if self._cg is None:
            self._cg = M.CallGraph(self.facts)
        return self._cg


TRUSTED_COMMON = [
    "rustc nightly front end (name resolution, type check, MIR construction) as the fact source",
    "regex-automata / regex-syntax / bit-set behave as documented (dependency contracts)",
    "&str values are valid UTF-8",
]
ASSUME_COMMON = [
    "A-OFFSET: byte offsets / lengths of in-memory strings and vectors are <= isize::MAX, so adding a small constant or another length cannot overflow usize",
    "class-3 audit entries (tables/panic_audit.json) are invariants confirmed by reading, not re-proved by the run",
    "analysis covers the library target for the analysed feature configuration",
]


def c05(run, ctx):
    fns, entries = fam_panic.scope_fns(ctx, "search")
    have = {M.strip_generics(e) if hasattr(M, "strip_generics") else e for e in entries}
    from facts import strip_generics
    have = {strip_generics(e) for e in entries}
    missing = [a for a in fam_panic.SEARCH_ANCHORS if a not in have]
    if missing:
        run.violation("PANIC", "search-entry-points", "anchor-missing/" + ",".join(missing), "src/lib.rs",
                      "anchor-missing: search entry points not found: %s" % ", ".join(missing))
    fam_panic.run(run, ctx, fns, "search-api")
    run.count("search_entry_points", len(entries))
    run.count("search_reachable_bodies", len(fns))


def c06(run, ctx):
    from facts import strip_generics
    fns, entries = fam_panic.scope_fns(ctx, "compile")
    have = {strip_generics(e) for e in entries}
    missing = [a for a in fam_panic.COMPILE_ANCHORS if a not in have]
    if missing:
        run.violation("PANIC", "compile-entry-points", "anchor-missing/" + ",".join(missing), "src/lib.rs",
                      "anchor-missing: compile entry points not found: %s" % ", ".join(missing))
    fam_panic.run(run, ctx, fns, "compile-api")
    run.count("compile_entry_points", len(entries))
    run.count("compile_reachable_bodies", len(fns))


NOT_APPLICABLE = {
    "C04": "agreement with the regex crate's run-time behaviour over all patterns and texts: the oracle is another crate's execution; no clause is a fact about the shape of fancy-regex's source that is not already claimed under C03/C08/C09/C10/C11 (DESIGN.md section 4, C04)",
}

PROPS = {
    "C05": {"fn": c05, "level": "other",
            "technique": "MIR panic-site inventory over the resolved call graph + dominating-guard prover + audited invariant table",
            "claim": "Every potential panic site reachable from the search API is enumerated from MIR on each run and must be discharged by dominating guards, a required guard, a callee precondition established at the call site, or a hand-confirmed invariant entry; decides the never-panics clause up to the stated trusted invariants, not the numeric validity of offsets for concrete inputs.",
            "note": "Trusted: class-3 audit entries (tables/panic_audit.json), A-OFFSET, UTF-8 validity of &str, regex-automata contracts (in-bounds char-aligned offsets, Input::span panics only on invalid spans), rustc as fact source. Call graph over-approximates trait calls (all local impls).",
            "explanation": "Static audit of every potential panic site (MIR Assert terminators and calls to panicking library functions) in all bodies reachable in the resolved call graph from the public search API. Each site is discharged by dominating guards (difference-constraint prover over branch facts with a field-sensitive kill check), by a required guard named in the audit table, or by a hand-confirmed invariant entry; anything else is a violation. Decides the 'never panics / offsets valid' clause structurally; audited invariants are the trusted base."},
    "C06": {"fn": c06, "level": "other",
            "technique": "MIR panic-site audit over the compile-time call graph + integer taint to arithmetic/allocation sinks + call-graph cycle/depth-guard analysis",
            "claim": "Every potential panic site reachable from Regex::new / RegexBuilder::build / Expr::parse_tree / Expr::to_str / Error Display is enumerated and discharged as for C05; pattern-derived integers must be bounded before unchecked arithmetic or allocation sizes; every recursive cycle is cut by the MAX_RECURSION guard or structural descent. Time/memory proportionality as a number is not decided.",
            "note": "Trusted: class-3 audit entries, A-OFFSET, dependency contracts (regex-automata build limits, bit-set growth = max element), rustc as fact source.",
            "explanation": "Same panic-site audit over all bodies reachable from Regex::new / RegexBuilder::build / Expr::parse_tree / Expr::to_str / Error Display, plus TAINT (pattern-derived integers must be bounded before arithmetic or allocation) and REC (every call-graph cycle cut by the depth guard or structural descent)."},
}
