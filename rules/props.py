"""Property -> rule instances."""
import time

import mirlib as M
import fam_panic


class Ctx:
    def __init__(self, facts):
        self.facts = facts
        self._cg = None

    @property
    def cg(self):
        if self._cg is None:
            self._cg = M.CallGraph(self.facts)
        return self._cg


TRUSTED_COMMON = [
    "rustc nightly front end (name resolution, type check, MIR construction) as the fact source",
    "regex-automata / regex-syntax / bit-set behave as documented (dependency contracts)",
    "&str values are valid UTF-8",
]
ASSUME_COMMON = [
    "A-OFFSET: byte offsets / lengths of in-memory strings and vectors are <= isize::MAX, so adding a small constant or another length cannot overflow usize",
    "class-3 audit entries (tables/panic_audit.json) are invariants confirmed by reading, not re-proved by the run",
    "analysis covers the library target for the analysed feature configuration",
]


def c05(run, ctx):
    fns, entries = fam_panic.scope_fns(ctx, "search")
    have = {M.strip_generics(e) if hasattr(M, "strip_generics") else e for e in entries}
    from facts import strip_generics
    have = {strip_generics(e) for e in entries}
    missing = [a for a in fam_panic.SEARCH_ANCHORS if a not in have]
    if missing:
        run.violation("PANIC", "search-entry-points", "anchor-missing/" + ",".join(missing), "src/lib.rs",
                      "anchor-missing: search entry points not found: %s" % ", ".join(missing))
    fam_panic.run(run, ctx, fns, "search-api")
    run.count("search_entry_points", len(entries))
    run.count("search_reachable_bodies", len(fns))


def c06(run, ctx):
    from facts import strip_generics
    fns, entries = fam_panic.scope_fns(ctx, "compile")
    have = {strip_generics(e) for e in entries}
    missing = [a for a in fam_panic.COMPILE_ANCHORS if a not in have]
    if missing:
        run.violation("PANIC", "compile-entry-points", "anchor-missing/" + ",".join(missing), "src/lib.rs",
                      "anchor-missing: compile entry points not found: %s" % ", ".join(missing))
    fam_panic.run(run, ctx, fns, "compile-api")
    run.count("compile_entry_points", len(entries))
    run.count("compile_reachable_bodies", len(fns))


NOT_APPLICABLE = {
    "C04": "agreement with the regex crate's run-time behaviour over all patterns and texts: the oracle is another crate's execution; no clause is a fact about the shape of fancy-regex's source that is not already claimed under C03/C08/C09/C10/C11 (DESIGN.md section 4, C04)",
}

PROPS = {
    "C05": {"fn": c05, "level": "other",
            "technique": "MIR panic-site inventory over the resolved call graph + dominating-guard prover + audited invariant table",
            "claim": "Every potential panic site reachable from the search API is enumerated from MIR on each run and must be discharged by dominating guards, a required guard, a callee precondition established at the call site, or a hand-confirmed invariant entry; decides the never-panics clause up to the stated trusted invariants, not the numeric validity of offsets for concrete inputs.",
            "note": "Trusted: class-3 audit entries (tables/panic_audit.json), A-OFFSET, UTF-8 validity of &str, regex-automata contracts (in-bounds char-aligned offsets, Input::span panics only on invalid spans), rustc as fact source. Call graph over-approximates trait calls (all local impls).",
            "explanation": "Static audit of every potential panic site (MIR Assert terminators and calls to panicking library functions) in all bodies reachable in the resolved call graph from the public search API. Each site is discharged by dominating guards (difference-constraint prover over branch facts with a field-sensitive kill check), by a required guard named in the audit table, or by a hand-confirmed invariant entry; anything else is a violation. Decides the 'never panics / offsets valid' clause structurally; audited invariants are the trusted base."},
    "C06": {"fn": c06, "level": "other",
            "technique": "MIR panic-site audit over the compile-time call graph + integer taint to arithmetic/allocation sinks + call-graph cycle/depth-guard analysis",
            "claim": "Every potential panic site reachable from Regex::new / RegexBuilder::build / Expr::parse_tree / Expr::to_str / Error Display is enumerated and discharged as for C05; pattern-derived integers must be bounded before unchecked arithmetic or allocation sizes; every recursive cycle is cut by the MAX_RECURSION guard or structural descent; the audited unreachability of to_str's `panic!` rests on three rules decided here as well: every Expr variant is printed or unconditionally hard, hardness is inherited from every child, only easy sub-trees are delegated. Time/memory proportionality as a number is not decided.",
            "note": "Trusted: class-3 audit entries, A-OFFSET, dependency contracts (regex-automata build limits, bit-set growth = max element), rustc as fact source.",
            "explanation": "Same panic-site audit over all bodies reachable from Regex::new / RegexBuilder::build / Expr::parse_tree / Expr::to_str / Error Display, plus TAINT (pattern-derived integers must be bounded before arithmetic or allocation) and REC (every call-graph cycle cut by the depth guard or structural descent)."},
}


import fam_iter


def c08(run, ctx):
    fam_iter.dispatch_rule(run, ctx)
    fam_enc.byte_class_tables(run, ctx)
    fam_vm.run_returns(run, ctx)
    fam_vm.pos_uses(run, ctx)
    fam_vm.end_arm(run, ctx)
    fam_iter.iterator_impls(run, ctx, only=("Matches", "CaptureMatches"))
    fam_iter.own_matches(run, ctx)
    fam_iter.iter_state_machine(run, ctx, "<Matches as Iterator>::next", "find_iter")
    fam_iter.next_utf8_rule(run, ctx)


PROPS["C08"] = {"fn": c08, "level": "other",
    "technique": "structured path enumeration of the iterator body (HIR) with per-path difference-constraint facts; must-pass-through obligations on the state machine",
    "claim": "Decides the shape of the find_iter state machine on every path of Matches::next: search only while pos <= len and stop only beyond it, an Err poisons the iterator, empty matches advance by one code point, adjacent empty matches are dropped after advancing, the previous match end is recorded before every yield, the skipped-empty-match flag is passed exactly when an empty match was skipped. That a match never starts before the position its search started from (hence never before the previous match's end) is decided structurally: the VM's End arm caps the start to the search position and the wrapped engine searches the span pos..len.",
    "note": "Necessary conditions only; the behaviour of a single search is C01's subject. Trusted: regex-automata reports spans inside the searched span.",
    "explanation": "All paths of Matches::next and next_utf8 are enumerated from the type-resolved HIR; each obligation is evaluated on every path with the branch conditions of that path as facts."}


def c09(run, ctx):
    fam_iter.entry_no_bypass(run, ctx)
    fam_iter.own_matches(run, ctx)
    fam_iter.dispatch_rule(run, ctx)
    fam_iter.iter_state_machine(run, ctx, "<Matches as Iterator>::next", "find_iter")
    fam_iter.iter_state_machine(run, ctx, "<CaptureMatches as Iterator>::next", "captures_iter")


def c10(run, ctx):
    fam_iter.dispatch_rule(run, ctx)
    fam_iter.iter_state_machine(run, ctx, "<Matches as Iterator>::next", "find_iter")
    fam_vm.end_arm(run, ctx)
    fam_iter.iterator_impls(run, ctx, only=("Matches", "Split", "SplitN"))
    fam_iter.split_rule(run, ctx)
    fam_iter.own_matches(run, ctx)
    fam_iter.own_split(run, ctx)


def c11(run, ctx):
    fam_iter.entry_no_bypass(run, ctx)
    fam_vm.end_arm(run, ctx)
    fam_iter.replace_rule(run, ctx)
    fam_iter.replacer_rule(run, ctx)
    # the two loops of try_replacen iterate with find_iter / captures_iter: both must be the same state machine
    fam_iter.iter_state_machine(run, ctx, "<Matches as Iterator>::next", "find_iter")
    fam_iter.iter_state_machine(run, ctx, "<CaptureMatches as Iterator>::next", "captures_iter")
    import fam_flow as _ff
    _ff.limit_provenance(run, ctx)
    fam_iter.dispatch_rule(run, ctx)
    # the string-like replacers expand their template through Captures::expand / Expander: "the replacer's output for
    # the corresponding captures" of a `$name` / `$N` template is what the expander's writers insert
    fam_expand.writers_agree(run, ctx)
    fns, entries = fam_panic.scope_fns(ctx, "search")
    fam_panic.run(run, ctx, fns, "expand", restrict=lambda sp: sp.startswith("expand::") or sp in ("Captures::expand",) or sp.startswith("replacer::"))


PROPS["C09"] = {"fn": c09, "level": "other",
    "technique": "HIR shape rules: dispatch table over RegexImpl arms with argument provenance; shared state-machine obligations applied to both iterator bodies",
    "claim": "Decides structurally that is_match / find_from_pos* / captures_from_pos* each handle both engines and pass the caller's text, position, flags and the regex's own program/options to vm::run (resp. the same span to the wrapped regex), that find/captures forward position 0, and that captures_iter obeys exactly the state-machine obligations of find_iter (including the skipped-empty-match flag).",
    "note": "Equality of the answers of the two regex-automata calls (is_match / search / captures) is the dependency's contract.",
    "explanation": "Every match on RegexImpl in impl Regex is enumerated; each vm::run call and wrapped-regex call is compared argument by argument with the entry point's own parameters; both iterator bodies are path-enumerated against one obligation set."}
PROPS["C10"] = {"fn": c10, "level": "other",
    "technique": "structured path enumeration of Split::next / SplitN::next with must-pass-through obligations; SplitN's countdown decided by constant propagation under a case split of the remaining limit",
    "claim": "Decides the shape of the split state machines on every path: piece = target[next_start..m.start()] then next_start = m.end(); remainder target[next_start..len] once, then a sentinel beyond len; errors passed through; SplitN: limit==0 first, decrement before the limit>0 test, delegate to Split::next, last piece is the untouched remainder. Piece boundaries for concrete inputs are not decided.",
    "note": "Relies on C08 for the matches themselves; next_start <= m.start() follows from the End-arm cap start >= search position (checked here) and the iterator searching from last_end >= previous end.",
    "explanation": "All paths of both next() bodies are enumerated; each class of path (exhausted/remainder/match/error; zero/delegate/last/done) must exist and satisfy its obligations."}
PROPS["C11"] = {"fn": c11, "level": "other",
    "technique": "structured path enumeration of try_replacen (both loops) + Replacer impl table",
    "claim": "Decides structurally that both loops of try_replacen borrow iff there is no match, propagate search errors with `?` before slicing, stop at `limit > 0 && i >= limit`, copy the gap, insert the replacement once and advance last_match to m.end(), append the tail; replace/replace_all/replacen forward (1,0,n); the five string-like Replacer impls share one no_expansion helper testing contains('$'), NoExpand returns Some, closures keep None; every replace_append writes to dst; what a `$name` / `$N` template inserts is decided with the expander's writer rules (shared with C12).",
    "note": "The replaced text for concrete inputs is not decided; last_match <= m.start() follows from the End-arm cap start >= search position (checked here) and the iterator state machine.",
    "explanation": "Paths of try_replacen are enumerated (loop bodies once); obligations are evaluated per path and per Replacer impl."}


import fam_types


def c18(run, ctx):
    fam_types.witness_check(run, ctx, doc_tests=(run.tier == "thorough"))
    fam_types.scans(run, ctx)


PROPS["C18"] = {"fn": c18, "level": "proof",
    "technique": "type-level witness crate checked by rustc (Send/Sync/Clone, concurrent &self use) + ADT-graph / statics / unsafe scans over the resolved program",
    "claim": "Proof by the Rust type system: the witness crate compiles against the current tree (Regex, Prog, Insn: Send+Sync+Clone; all search entry points callable concurrently through &Regex and through clones), the crate contains no unsafe, no crate-local type reachable from Regex holds interior mutability, there are no mutable/interior-mutable/thread-local statics, and vm::run builds its state per call. Hence a search cannot write anything reachable from another thread's search and every call computes the same function of (regex, text, pos) as single-threaded; no schedules need exploring.",
    "note": "Trusted: rustc's Send/Sync checking; regex-automata's meta::Regex being correctly Sync (its cache pool is the one piece of shared mutable state, inside the dependency). Conditions (3)-(6) are sufficient, not necessary: a correctly locked cache added to Regex is reported as 'cannot discharge'.",
    "explanation": "cargo check of witness/ against /repo discharges the auto-trait and &self obligations; the fact dump is scanned for unsafe, interior mutability reachable from Regex, statics and &mut entry points.",
    "trusted": ["rustc trait solver and borrow checker", "regex-automata meta::Regex is correctly Send+Sync (internal cache pool)", "std collections contain no hidden shared mutable state"],
    "assumptions": ["sufficient-condition proof: any interior mutability reachable from Regex is rejected even if correctly synchronised"]}


import fam_flow


def c14(run, ctx):
    import fam_vm as _vm
    _vm.limit_rule(run, ctx)
    fam_taint.inner_limits(run, ctx)
    fam_flow.options_provenance(run, ctx)
    fam_flow.option_consumers(run, ctx)


PROPS["C14"] = {"fn": c14, "level": "other",
    "technique": "inter-procedural provenance (backward slice over MIR: parameters to callers, fields to constructors and writers) of the options argument of compile_inner / vm::run + field-consumer table",
    "claim": "Decides structurally that the RegexOptions object reaching every compile_inner call (whole-pattern and per-delegate) and every vm::run call originates from the user's options (RegexBuilder::new / Regex::new), never from a locally manufactured default (debug helpers excepted); that every field a RegexBuilder setter writes has its consumer on both construction paths; that the case-insensitive setting is handed to the parser (the VM compares literals byte-wise) and the inner engine is not asked to fold case a second time over the re-serialised pattern.",
    "note": "Field-based, not object-sensitive provenance; that (?i) itself is implemented correctly by parser/to_str is C19/C03 territory. The behaviour of regex-automata's size limits is the dependency's contract.",
    "explanation": "For each call site of compile_inner and vm::run the options argument is sliced backwards through parameters (to all resolved callers), struct fields (to all constructors and field writes) and clone/borrow wrappers until it reaches an origin; origins outside the allowed set are violations."}


import fam_vm


def c20(run, ctx):
    fam_vm.own_state(run, ctx)
    fam_vm.state_methods(run, ctx)
    fam_vm.backtrack_cut(run, ctx)
    fam_vm.atomic_arms(run, ctx)
    fam_vm.split_jmp_arms(run, ctx)      # every alternative is really created (pushed) where the program says so
    # the commit only happens where the compiler emits it
    import fam_tmpl as _t
    _t.builder_helpers(run, ctx)
    _t.compile_conditional(run, ctx)
    _t.atomic_and_group_arms(run, ctx)
    # a repetition counter is state like any slot: the alternative a counted repeat creates must be pushed AFTER the
    # incremented counter is stored when it is the loop exit's sibling (lazy: the body alternative has to carry
    # count + 1, greedy: the exit alternative is indifferent) -- the order of store and push decides which counter
    # value an abandoned alternative comes back with (seed C20-r6-1 moved the store behind the push in both arms)
    fam_vm.repeat_arms(run, ctx)


PROPS["C20"] = {"fn": c20, "level": "other",
    "technique": "ownership rules over MIR (who writes State) + must-pass-through obligations on State::save/push/pop/stack_push/stack_pop and the key steps of backtrack_cut + atomic / negative-look-around arms of the interpreter",
    "claim": "Decides the undo-log discipline structurally: State's fields are written only inside impl State; the branch stack and undo log grow only in push/save; every slot write is preceded by finding the slot in the current delta or logging its old value and counting it; push records (pc, ix, nsave) and opens an empty delta; pop replays exactly nsave entries and restores the stored nsave; the explicit stack lives in saves and is written only through save(); BeginAtomic pushes backtrack_count(), EndAtomic cuts to the popped value; FailNegativeLookAround pops to its own branch; the counted-repeat arms store the incremented counter before they create their alternative. For backtrack_cut the necessary key steps (truncate(count), undo-log bounds, first-entry-per-slot compaction, new nsave) are checked; that the algorithm as a whole restores the right values over all operation histories is not decided.",
    "note": "Template balance of BeginAtomic/EndAtomic on every compiled path is C15's TMPL rule. Shape obligations are necessary conditions; a behaviour-preserving rewrite of these functions is reported as anchor-missing.",
    "explanation": "MIR is scanned for writes and &mut borrows of State fields in every body; the HIR of each State method is path-enumerated and each obligation evaluated per path."}


def c07(run, ctx):
    fam_vm.limit_rule(run, ctx)
    fam_vm.repeat_arms(run, ctx)
    fam_vm.split_jmp_arms(run, ctx)
    # State::push depth cap is part of termination in bounded memory
    fam_vm.state_push_only(run, ctx)
    fam_flow.limit_provenance(run, ctx)


PROPS["C07"] = {"fn": c07, "level": "other",
    "technique": "must-pass-through over the interpreter's backtrack tail (path facts + difference constraints), the four counted-repeat opcodes decided by constant propagation under a case split of (count, lo, hi, empty iteration) over their enumerated paths, compile_repeat template/guard rule, transfer-function soundness of min_size (XFER)",
    "claim": "Decides structurally: every resumed branch is counted once and compared with the user's backtrack_limit so that the error is returned iff the count after the increment exceeds the limit; the branch stack is capped in State::push and vm::run passes a sane cap; the four Repeat*/RepeatEpsilon* arms implement hi-exit, empty-iteration guard, count+1, lo test and greedy/lazy order; every loop the compiler emits is counter-bounded, guarded by the empty-iteration check, or has a body the path condition proves non-empty; min_size is a true lower bound. Exact step counts and 'a tiny search never errors' as a numeric statement are not decided.",
    "note": "Termination of a single delegate search is regex-automata's contract.",
    "explanation": "The statements after the inner 'fail loop of vm::run are path-enumerated with branch conditions as facts; each repeat arm is path-enumerated against its obligation table; compile_repeat branches are checked against template kinds."}


import fam_tmpl


def c15(run, ctx):
    fam_tmpl.builder_helpers(run, ctx)
    fam_tmpl.compile_conditional(run, ctx)
    fam_tmpl.atomic_and_group_arms(run, ctx)


PROPS["C15"] = {"fn": c15, "level": "other",
    "technique": "abstract interpretation of the compiler's emission template (symbolic instruction list with labels, child fragments opaque) + explicit-stack balance exploration over success/failure edges; parser shape rules for conditionals",
    "claim": "Decides structurally that compile_conditional emits condition / true / false in order with the Split's fallback leading to the false branch from the original position, that the fallback is cut after the condition succeeds, and that BeginAtomic/EndAtomic balance on every template path including 'condition fails -> false branch'; that parse_conditional makes the first alternative the true branch; that the VM's BackrefExistsCondition tests the group's start slot. Results on concrete inputs are not decided.",
    "note": "Child fragments are opaque (succeed or fail); the explicit stack is restored on backtrack (C20). Known finding F7 is reported by the balance rule.",
    "explanation": "The single straight-line path of compile_conditional is interpreted into a symbolic template; every path through the template (fragments succeed or fail to the innermost pending Split) is explored tracking explicit-stack depth."}


import fam_enc
import fam_parse
import fam_expand
import fam_taint
import fam_xfer
from facts import strip_generics as _sg


def c01(run, ctx):
    fam_flow.option_consumers(run, ctx)
    fam_iter.dispatch_rule(run, ctx)
    fam_enc.byte_class_tables(run, ctx)
    fam_vm.state_methods(run, ctx)
    fam_vm.backtrack_cut(run, ctx)
    fam_vm.atomic_arms(run, ctx)
    fam_vm.pos_uses(run, ctx)
    fam_tmpl.literal_fast_path(run, ctx)
    fam_enc.printable_rule(run, ctx)
    fam_enc.assertion_rule(run, ctx)
    fam_vm.run_returns(run, ctx)
    fam_iter.entry_no_bypass(run, ctx)
    fam_tmpl.ctx_rule(run, ctx)
    fam_tmpl.concat_predicates(run, ctx)
    fam_tmpl.visit_delegation_gate(run, ctx)
    fam_tmpl.builder_helpers(run, ctx)
    fam_tmpl.compile_repeat(run, ctx)
    fam_tmpl.compile_alt(run, ctx)
    fam_vm.split_jmp_arms(run, ctx)
    fam_vm.repeat_arms(run, ctx)
    fam_vm.end_arm(run, ctx)
    fam_enc.opcode_rule(run, ctx)
    fam_enc.any_arms_rule(run, ctx)
    fam_enc.slot_rule(run, ctx)
    fam_enc.wrap_tree_rule(run, ctx)
    fam_parse.backref_registration(run, ctx)
    fam_tmpl.atomic_and_group_arms(run, ctx)
    fam_tmpl.compile_lookaround_dispatch(run, ctx)
    fam_xfer.analyzer_rule(run, ctx)


def c02(run, ctx):
    fam_iter.dispatch_rule(run, ctx)
    fam_tmpl.compile_lookaround_dispatch(run, ctx)
    fam_iter.iterator_impls(run, ctx, only=("SubCaptureMatches",))
    fam_enc.slot_operands(run, ctx)
    fam_enc.slot_rule(run, ctx)
    fam_enc.wrap_tree_rule(run, ctx)
    fam_tmpl.atomic_and_group_arms(run, ctx)
    fam_tmpl.builder_helpers(run, ctx)
    fam_vm.own_state(run, ctx)
    fam_vm.state_methods(run, ctx)
    fam_vm.backtrack_cut(run, ctx)
    fam_vm.atomic_arms(run, ctx)
    # "the last iteration that entered the group": which iteration is the last is decided by the counted-repeat arms
    # (a lazy loop whose count is rolled back runs past hi and leaves a later iteration's capture) and by the
    # compiler's choice among them
    fam_vm.repeat_arms(run, ctx)
    fam_tmpl.compile_repeat(run, ctx)
    fam_parse.group_counting(run, ctx)
    fam_xfer.analyzer_rule(run, ctx)


def c03(run, ctx):
    fam_iter.dispatch_rule(run, ctx)
    fam_enc.byte_class_tables(run, ctx)
    fam_flow.option_consumers(run, ctx)
    fam_tmpl.literal_fast_path(run, ctx)
    fam_tmpl.compile_repeat(run, ctx)
    fam_tmpl.compile_alt(run, ctx)
    fam_vm.repeat_arms(run, ctx)
    fam_vm.split_jmp_arms(run, ctx)
    fam_tmpl.atomic_and_group_arms(run, ctx)
    fam_tmpl.visit_delegation_gate(run, ctx)
    fam_tmpl.ctx_rule(run, ctx)
    fam_tmpl.concat_predicates(run, ctx)
    fam_enc.printable_rule(run, ctx)
    fam_enc.assertion_rule(run, ctx)
    fam_enc.any_arms_rule(run, ctx)
    fam_enc.slot_rule(run, ctx)
    fam_enc.escape_rule(run, ctx)
    fam_xfer.analyzer_rule(run, ctx)


def c12(run, ctx):
    fam_enc.slot_rule(run, ctx)
    fam_parse.names_api(run, ctx)
    fam_expand.id_char_rule(run, ctx)
    fam_expand.writers_agree(run, ctx)
    fam_expand.check_rule(run, ctx)
    fam_expand.constructors(run, ctx)
    fam_expand.scanner_shape(run, ctx)
    fns, entries = fam_panic.scope_fns(ctx, "search")
    fam_panic.run(run, ctx, fns, "expand", restrict=lambda sp: sp.startswith("expand::") or sp in ("parse::parse_id", "parse::parse_decimal", "Captures::expand") or sp.startswith("parse::parse_id::") or sp.startswith("parse::parse_decimal::"))


def c13(run, ctx):
    fam_vm.run_returns(run, ctx)
    fam_tmpl.compile_repeat(run, ctx)
    fam_xfer.analyzer_rule(run, ctx)
    fam_xfer.backref_validity(run, ctx)
    fam_tmpl.atomic_and_group_arms(run, ctx)
    fam_tmpl.compile_lookaround_dispatch(run, ctx)
    fam_tmpl.concat_predicates(run, ctx)
    fam_enc.any_arms_rule(run, ctx)
    fam_enc.byte_class_tables(run, ctx)


def c16(run, ctx):
    fam_taint.inner_limits(run, ctx)
    fam_enc.printable_rule(run, ctx)
    fam_iter.iterator_impls(run, ctx, only=("SubCaptureMatches", "CaptureNames"))
    fam_expand.id_char_rule(run, ctx)
    fam_parse.group_counting(run, ctx)
    fam_parse.names_api(run, ctx)
    fam_xfer.analyzer_rule(run, ctx)
    fam_enc.slot_rule(run, ctx)
    fam_enc.wrap_tree_rule(run, ctx)


def c17(run, ctx):
    fam_enc.any_arms_rule(run, ctx)
    fam_tmpl.builder_helpers(run, ctx)
    fam_tmpl.literal_fast_path(run, ctx)
    fam_enc.byte_class_tables(run, ctx)
    fam_enc.escape_rule(run, ctx)
    fam_enc.printable_rule(run, ctx)
    fam_enc.slot_rule(run, ctx)


def c19(run, ctx):
    fam_enc.printable_rule(run, ctx)
    fam_parse.whitespace_sites(run, ctx)
    fam_expand.id_char_rule(run, ctx)
    fam_parse.group_counting(run, ctx)
    fam_parse.backref_registration(run, ctx)
    fam_parse.backref_spellings(run, ctx)
    fam_parse.flags_rule(run, ctx)
    fam_parse.escape_table(run, ctx)
    # comments / free-spacing blanks inside `(?(N) )` are trivia: the bare-test decision must not see them
    fam_parse.conditional_rule(run, ctx)
    # two spellings of one case-less character differ in the `casei` tag of their Literal node (table escapes and
    # escaped punctuation are tagged false, hex escapes and the bare character carry the active flag): identical
    # results then rest on the byte-wise literal fast path being taken only when EVERY part is case-sensitive
    # (seed C19-r6-1 let the first child of a concatenation decide)
    fam_tmpl.literal_fast_path(run, ctx)


_c05_old = c05
_c06_old = c06
_c07_old = c07
_c15_old = c15


def c05(run, ctx):
    _c05_old(run, ctx)
    fam_enc.slot_operands(run, ctx)
    fam_xfer.backref_validity(run, ctx)
    fam_vm.run_returns(run, ctx)
    fam_vm.own_ix(run, ctx)
    fam_vm.end_arm(run, ctx)
    fam_enc.any_arms_rule(run, ctx)
    fam_enc.byte_class_tables(run, ctx)
    fam_vm.backtrack_cut(run, ctx)
    fam_tmpl.builder_helpers(run, ctx)
    # (the explicit-stack imbalance F7 makes a conditional commit to a wrong branch count; it cannot make an
    # offset invalid: a stale count never exceeds the number of live branches, see DESIGN 12.4)
    fam_tmpl.compile_conditional(run, ctx, balance=False)
    fam_expand.writers_agree(run, ctx)


def c06(run, ctx):
    _c06_old(run, ctx)
    fam_taint.hex_digits_rule(run, ctx)
    fam_taint.inner_limits(run, ctx)
    fam_taint.alloc_sinks(run, ctx)
    fam_taint.recursion(run, ctx)
    fam_taint.byte_steps(run, ctx)
    fam_taint.error_mapping(run, ctx)
    fam_parse.whitespace_advance(run, ctx)
    fam_enc.printable_rule(run, ctx)
    fam_tmpl.compile_repeat(run, ctx)
    # to_str's `panic!("attempting to format hard expr")` is audited as unreachable because only non-hard sub-trees are
    # re-serialised: that needs hardness to be inherited from every child (the analyser's transfer function) and the
    # compiler to delegate only what the analysis calls easy
    fam_xfer.analyzer_rule(run, ctx)
    fam_tmpl.visit_delegation_gate(run, ctx)


def c07(run, ctx):
    _c07_old(run, ctx)
    fam_vm.run_returns(run, ctx)
    fam_tmpl.compile_repeat(run, ctx)
    fam_tmpl.builder_helpers(run, ctx)
    fam_tmpl.atomic_and_group_arms(run, ctx)
    fam_xfer.analyzer_rule(run, ctx)


def c15(run, ctx):
    _c15_old(run, ctx)
    fam_xfer.backref_validity(run, ctx)
    fam_tmpl.ctx_rule(run, ctx)
    fam_parse.conditional_rule(run, ctx)
    fam_parse.backref_registration(run, ctx)
    fam_parse.piece_keeps_atom(run, ctx)
    fam_enc.wrap_tree_rule(run, ctx)
    fam_enc.any_arms_rule(run, ctx)
    fam_vm.backtrack_cut(run, ctx)
    fam_xfer.analyzer_rule(run, ctx)


for _p, _f in (("C05", c05), ("C06", c06), ("C07", c07), ("C15", c15)):
    PROPS[_p]["fn"] = _f

_SHAPE_NOTE = "Necessary structural conditions only; shape obligations are tied to the current decomposition of the code, so a behaviour-preserving rewrite of an anchored function is reported as anchor-missing rather than silently passing."

PROPS["C01"] = {"fn": c01, "level": "other",
    "technique": "context/delegation predicates (CTX), symbolic emission templates (TMPL), interpreter-arm obligations, opcode/operand-role tables (ENC), backreference registration (MPT)",
    "claim": "Structural necessary conditions of the reference semantics: priority order is encoded consistently (Split pushes its second operand, the compiler patches the fallback there; greedy/lazy templates; alternation chain in textual order), nothing that may need backtracking into is delegated (context argument of every visit call, concat prefix/suffix predicates, middle children hard), every backreference spelling registers its group so it is not swallowed by a delegate, delegates search anchored at ix, every opcode is handled, \\K lowers to Save(0) and End caps start <= end. Which strings match is not decided.",
    "note": _SHAPE_NOTE + " The behavioural statement (equality with a reference backtracker over all patterns and texts) is outside static reach.",
    "explanation": "Each compile-side builder is interpreted into symbolic templates; each interpreter arm is path-enumerated against its obligations; tables are compared between compiler and VM."}
PROPS["C02"] = {"fn": c02, "level": "other",
    "technique": "slot-layout linear forms (SLOT), group template, undo-log obligations (STATE/OWN), counting agreement parser <-> analyser, counted-repeat opcodes by case-split constant propagation",
    "claim": "One capture-slot layout agreed by the writer and all readers: Save(2g)/Save(2g+1) around group bodies, Delegate copy loop with the +1 shift for the delegate's group 0 and the unset fill for unmatched inner groups, Captures::get/len/truncate, n_groups; group numbers follow opening-parenthesis order (parser counts exactly the Group-producing branches, analyser counts in the Group arm before visiting); nothing left over from abandoned alternatives reduces to the undo-log discipline (shared with C20); the counted-repeat arms of the VM (store the count before a lazy loop pushes its next iteration) and the compiler's choice among them are decided with the repeat rules shared with C07. Which iteration's span is reported for an input is not decided.",
    "note": _SHAPE_NOTE,
    "explanation": "Index expressions that address saves are reduced to linear forms a*g+b and compared with the layout; State methods are path-enumerated."}
PROPS["C03"] = {"fn": c03, "level": "other",
    "technique": "delegation gate and context predicates (CTX), three-column assertion table and printable-vs-hard exhaustiveness (ENC), transfer-function soundness (XFER)",
    "claim": "The VM/automata split is legal wherever it is made (visit delegates iff neither context nor expression is hard; concat predicates; context only weakened at cuts), the two implementations of each primitive mean the same (assertion table parser/to_str/LookMatcher, Any/AnyNoNL vs (?s:.)/., Lit vs push_quoted), re-serialisation is total and precedence-correct on what can be delegated, delegate captures land in the outer slots, the whole-pattern hand-off is taken iff the user's expression is not hard. That regex-automata's answer on a delegated fragment equals the VM's is C04's run-time content and not decided.",
    "note": _SHAPE_NOTE,
    "explanation": "Tables are extracted from the match arms of to_str, Analyzer::visit, Assertion::is_hard and the VM and compared row by row; predicates are extracted from the take_while closures."}
PROPS["C12"] = {"fn": c12, "level": "other",
    "technique": "sibling agreement of the two writers (per-arm path outcomes), Expander::check decided by constant propagation under a case split of (number, named groups present, group count), constructor ownership, scanner alternative order per path, panic audit of the expansion code",
    "claim": "Narrow structural claim: std and no-std writers are identical modulo the write primitive and implement 'named group, else group whose number the name spells, else nothing'; Expander::check accepts a numeric reference only if 0 or (no named groups and < captures_len) and a named one only if it exists; Expander is only constructed with a one-byte substitution character and non-empty delimiters (which makes `$$`-skip and escape's doubling inverse); the scanner tries doubled char, delimited/undelimited name, number, fallback in the documented order; no unaudited panic site in the expansion code. The scanner's string semantics for concrete templates (longest identifier etc. inside parse_id) is not decided.",
    "note": _SHAPE_NOTE,
    "explanation": "Closures of both writers are canonicalised with the write primitive abstracted and compared; other obligations are matched on canonical HIR."}
PROPS["C13"] = {"fn": c13, "level": "other",
    "technique": "extraction of Analyzer::visit's 18 transfer functions and comparison with reference length-set semantics on a finite grid of child facts (XFER); look-behind templates; GoBack arm; UTF-8 byte-class tables",
    "claim": "The analyser's size facts are sound by induction over the tree: for every arm, for all child facts consistent with the induction hypothesis, min_size is a lower bound of every possible match length and const_size implies a single length equal to min_size; hard children make the parent hard; look-behind emission is guarded by const_size (else LookBehindNotConst) and steps back exactly min_size code points before the body; variable-size alternations are split per alternative; GoBack fails at 0 and steps by code points (prev_codepoint_ix stops exactly on non-continuation bytes). The differential clause on concrete multi-byte texts is not decided.",
    "note": "Grid: child length sets over {0,1,2}, lo/hi in {0,1,2,MAX}; lengths capped at 7. Expr::Delegate's size field is trusted as set by the parser. " + _SHAPE_NOTE,
    "explanation": "A small abstract interpreter over the HIR of each arm (no repository code runs) yields formulas over child facts; they are evaluated against the reference semantics on every valuation of the grid."}
PROPS["C16"] = {"fn": c16, "level": "other",
    "technique": "counting agreement parser/analyser/wrap_tree, slot-layout rules for captures_len / len / get / truncate, names API shapes, to_str's print tables decided by constant propagation under a case split of (lo, hi, greedy, precedence, casei)",
    "claim": "Group metadata is consistent by construction: exactly the three Group-producing branches of parse_group increment curr_group (once, before parsing the body) and names are recorded with the new number; the analyser increments group_ix only in the Group arm before visiting; wrap_tree contributes exactly one group in front; n_groups = end_group, truncate(n_groups*2), len = saves/2, get reads (2i, 2i+1) and answers None beyond; capture_names is sized by captures_len and indexed by group number; name(n) = get(index of n); iter yields get(0..len).",
    "note": "The Wrap side (regex-automata group info) is the dependency's contract; equality of the two engines' counts follows from to_str printing Group as a plain capture group (ENC). " + _SHAPE_NOTE,
    "explanation": "Paths of parse_group are enumerated per result kind; Info/Regex/Captures accessors are matched on canonical HIR."}
PROPS["C17"] = {"fn": c17, "level": "other",
    "technique": "set extraction and inclusion: is_special vs parser dispatch bytes vs regex-syntax meta characters; users of the table",
    "claim": "is_special (extracted from its patterns) is a superset of every byte the fancy parser dispatches on and of regex-syntax's meta characters outside classes (read from the vendored source of the locked version), and contains nothing whose escaped form means something else (alphanumerics, <, >, non-ASCII); escape borrows iff the special-byte count is 0 and otherwise quotes with push_quoted, the same function to_str uses for literals. The behavioural round trip for a given string follows from this plus C01/C03 and is not separately decided.",
    "note": "Class-only (&, -, ~), bare-literal (], }) and x-mode-only (#) meta characters of regex-syntax are excluded from the required set and that is stated in the evidence.",
    "explanation": "Character sets are extracted from HIR patterns and from the dependency's source text and compared as sets."}
PROPS["C19"] = {"fn": c19, "level": "other",
    "technique": "sibling agreement of syntax forms, must-pass-through on flag save/restore, escape table rows",
    "claim": "Narrow structural claim on the bookkeeping each documented equivalence depends on: named / Python-named / plain groups count identically; every backreference spelling goes through a constructor that registers and bounds the group; <..> and '..' delimiter forms and (?P=..)/(?P>..) are parsed with identical options, relative references resolve to curr_group + 1 - n, names win over numbers; scoped flag groups restore the saved flags after their body on every path to Ok and unscoped ones do not; flag letters update distinct single bits that take effect where documented; possessive quantifiers parse to AtomicGroup(Repeat); the escape rows \\A \\z \\b \\B \\< \\> \\K \\G \\h \\H \\e .. \\x \\u \\U \\Z expand as documented; the byte-wise literal fast path (Info::is_literal) is taken only when every part of the run is a case-sensitive literal, so spellings that differ in the casei tag of a case-less character cannot diverge. Tree equality of arbitrary respellings over the pattern space is not decided.",
    "note": _SHAPE_NOTE,
    "explanation": "Call sites of the two backreference constructors are enumerated and compared; parse_flags is path-enumerated; escape branches are located by their canonical condition and compared with the table."}
