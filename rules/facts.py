"""Obtain and index the fact file produced by frx-facts for the current /repo tree."""
import fcntl
import hashlib
import json
import os
import subprocess
import sys
import time

VERIF = os.path.dirname(os.path.dirname(os.path.abspath(__file__)))
REPO = os.environ.get("FRX_REPO", "/repo")
DRIVER_DIR = os.path.join(VERIF, "frx-facts")
DRIVER = os.path.join(DRIVER_DIR, "target", "release", "frx-facts")
CACHE = os.path.join(VERIF, ".cache")

CONFIGS = {
    "default": [],
    "nodefault": ["--no-default-features"],
    "std-only": ["--no-default-features", "--features", "std"],
}


class AnalysisError(Exception):
    pass


def _sha_tree(repo):
    h = hashlib.sha256()
    paths = []
    for root, dirs, files in os.walk(os.path.join(repo, "src")):
        dirs.sort()
        for f in sorted(files):
            paths.append(os.path.join(root, f))
    for extra in ("Cargo.toml", "Cargo.lock"):
        p = os.path.join(repo, extra)
        if os.path.exists(p):
            paths.append(p)
    for p in paths:
        h.update(os.path.relpath(p, repo).encode())
        h.update(b"\0")
        with open(p, "rb") as fh:
            h.update(fh.read())
        h.update(b"\0")
    return h


def ensure_driver():
    src_newer = False
    if os.path.exists(DRIVER):
        dm = os.path.getmtime(DRIVER)
        for root, _, files in os.walk(os.path.join(DRIVER_DIR, "src")):
            for f in files:
                if os.path.getmtime(os.path.join(root, f)) > dm:
                    src_newer = True
    if os.path.exists(DRIVER) and not src_newer:
        return
    env = dict(os.environ)
    env["CARGO_NET_OFFLINE"] = "true"
    r = subprocess.run(
        ["cargo", "+nightly", "build", "--release", "--offline"],
        cwd=DRIVER_DIR, env=env, stdout=subprocess.PIPE, stderr=subprocess.STDOUT, text=True)
    if r.returncode != 0 or not os.path.exists(DRIVER):
        raise AnalysisError("could not build frx-facts driver:\n" + r.stdout[-3000:])


def get_facts(config="default", repo=None):
    """Return (facts dict, info dict). Facts are cached by content hash of the tree."""
    repo = repo or REPO
    os.makedirs(CACHE, exist_ok=True)
    with open(os.path.join(CACHE, "lock"), "w") as lock:
        fcntl.flock(lock, fcntl.LOCK_EX)
        ensure_driver()
        fcntl.flock(lock, fcntl.LOCK_UN)
    h = _sha_tree(repo)
    with open(DRIVER, "rb") as fh:
        h.update(hashlib.sha256(fh.read()).digest())
    h.update(config.encode())
    key = h.hexdigest()[:32]
    out = os.path.join(CACHE, key + ".json")
    info = {"cache_key": key, "config": config, "cached": True, "extract_s": 0.0}
    with open(os.path.join(CACHE, "lock-" + key), "w") as lock:
        fcntl.flock(lock, fcntl.LOCK_EX)
        if not os.path.exists(out):
            t0 = time.time()
            tmp_out = out + ".new%d" % os.getpid()
            r = subprocess.run(
                [os.path.join(DRIVER_DIR, "run.sh"), repo, tmp_out] + CONFIGS[config],
                stdout=subprocess.PIPE, stderr=subprocess.STDOUT, text=True)
            if r.returncode != 0 or not os.path.exists(tmp_out):
                raise AnalysisError("fact extraction failed (does %s compile?):\n%s" % (repo, r.stdout[-4000:]))
            os.rename(tmp_out, out)
            info["cached"] = False
            info["extract_s"] = round(time.time() - t0, 2)
            # keep the cache small
            ents = []
            for f in os.listdir(CACHE):
                if f.endswith(".json"):
                    try:
                        ents.append((os.path.getmtime(os.path.join(CACHE, f)), f))
                    except OSError:
                        pass
            ents.sort()
            for _, f in ents[:-40]:
                try:
                    os.remove(os.path.join(CACHE, f))
                    os.remove(os.path.join(CACHE, "lock-" + f[:-5]))
                except OSError:
                    pass
        fcntl.flock(lock, fcntl.LOCK_UN)
    with open(out) as fh:
        facts = json.load(fh)
    import norm
    renamed = norm.rename_fns(facts)
    renamed.update(norm.rename_variants(facts))
    f = Facts(facts, repo)
    f.renamed_fns = renamed
    f.successors = dict(norm.SUCCESSORS)
    norm.apply(f)
    return f, info


class Facts:
    def __init__(self, raw, repo):
        self.raw = raw
        self.repo = repo
        self.features = raw["features"]
        self.mir = {b["path"]: b for b in raw["mir"]}
        self.hir = {b["path"]: b for b in raw["hir"]}
        it = raw["items"]
        self.adts = {a["path"]: a for a in it["adts"]}
        self.impls = it["impls"]
        self.fns = {f["path"]: f for f in it["fns"]}
        self.statics = it["statics"]
        self.consts = {c["path"]: c for c in it["consts"]}
        self.unsafe_blocks = it["unsafe_blocks"]
        self._src = {}
        self.norm = None

    def src_line(self, file, line):
        if file not in self._src:
            try:
                with open(os.path.join(self.repo, file)) as fh:
                    self._src[file] = fh.read().split("\n")
            except OSError:
                self._src[file] = []
        ls = self._src[file]
        return ls[line - 1].strip() if 0 < line <= len(ls) else ""

    def owners_of(self, sp):
        """Baseline functions a (generic-stripped) function path belongs to: itself, or -- for a closure or a helper
        that is not in the baseline table -- the baseline functions it is part of."""
        if self.norm:
            o = self.norm["owner"].get(sp)
            if o:
                return set(o)
        return {sp}

    def owned_by(self, sp, allowed):
        return self.owners_of(sp) <= set(allowed)

    def fn_by_suffix(self, suffix):
        """Find function paths whose def-path equals or ends with '::'+suffix (generic args stripped)."""
        out = []
        for p in self.fns:
            if strip_generics(p) == suffix or strip_generics(p).endswith("::" + suffix):
                out.append(p)
        return out


def strip_generics(path):
    """`Matches::<'r, 't>::next` -> `Matches::next`; `<Matches<'r, 't> as std::iter::Iterator>::next` -> `<Matches as Iterator>::next`."""
    out = []
    depth = 0
    i = 0
    s = path
    # keep leading '<' of qualified paths: handle specially
    if s.startswith("<"):
        # <T as Trait>::name
        # find matching '>' for the leading '<'
        d = 0
        j = 0
        for j, ch in enumerate(s):
            if ch == "<":
                d += 1
            elif ch == ">":
                d -= 1
                if d == 0:
                    break
        inner = s[1:j]
        rest = s[j + 1:]
        if " as " in inner:
            # split at top-level " as "
            d = 0
            k = 0
            idx = -1
            while k < len(inner):
                if inner[k] == "<":
                    d += 1
                elif inner[k] == ">":
                    d -= 1
                elif d == 0 and inner.startswith(" as ", k):
                    idx = k
                    break
                k += 1
            if idx >= 0:
                a = _strip(inner[:idx])
                b = _strip(inner[idx + 4:])
                b = b.split("::")[-1]
                return "<%s as %s>%s" % (a, b, _strip(rest))
        return "<%s>%s" % (_strip(inner), _strip(rest))
    return _strip(s)


def _strip(s):
    out = []
    depth = 0
    i = 0
    while i < len(s):
        ch = s[i]
        if ch == "<":
            depth += 1
        elif ch == ">":
            depth -= 1
        elif depth == 0:
            out.append(ch)
        i += 1
    r = "".join(out)
    while "::::" in r:
        r = r.replace("::::", "::")
    return r.rstrip(":")
