"""Rule-run context: collects rule-instance results, matches known findings, writes evidence."""
import json
import os
import time

VERIF = os.path.dirname(os.path.dirname(os.path.abspath(__file__)))


class Finding:
    def __init__(self, prop, family, instance, key, where, what, detail=None):
        self.prop = prop
        self.family = family
        self.instance = instance
        self.key = key
        self.where = where
        self.what = what
        self.detail = detail or {}

    def to_json(self):
        return {"property": self.prop, "family": self.family, "instance": self.instance,
                "key": self.key, "where": self.where, "what": self.what, "detail": self.detail}


class Run:
    def __init__(self, prop, tier, facts, config="default"):
        self.prop = prop
        self.tier = tier
        self.facts = facts
        self.config = config
        self.instances = []      # dicts: family, instance, fn, sites, status
        self.findings = []       # Finding
        self.samples = []        # obligations written out
        self.obligations = 0
        self.discharged = 0
        self.counters = {}
        self.t0 = time.time()
        self.lines = []

    # ---- reporting API for rules -------------------------------------------------
    def log(self, s):
        self.lines.append(s)
        print(s, flush=True)

    def ok(self, family, instance, where, sites=1, note="", sample=None):
        self.instances.append({"family": family, "instance": instance, "where": where,
                               "sites": sites, "status": "ok", "note": note})
        self.obligations += max(1, sites)
        self.discharged += max(1, sites)
        self.log("RULE %s/%s %s: OK (%d site%s)%s" % (family, instance, where, sites,
                                                       "" if sites == 1 else "s",
                                                       (" " + note) if note else ""))
        if sample is not None and len(self.samples) < 40:
            self.samples.append({"rule": family + "/" + instance, "where": where, "verdict": "ok",
                                 "obligation": sample})

    def violation(self, family, instance, key, where, what, detail=None):
        """key must not contain line numbers."""
        full_key = "%s/%s/%s/%s" % (self.prop, family, instance, key)
        for old in self.findings:
            if old.key == full_key:
                return old
        f = Finding(self.prop, family, instance, full_key, where, what, detail)
        self.findings.append(f)
        self.obligations += 1
        self.instances.append({"family": family, "instance": instance, "where": where,
                               "sites": 1, "status": "finding", "note": what})
        if len(self.samples) < 60:
            self.samples.append({"rule": family + "/" + instance, "where": where,
                                 "verdict": "violated", "obligation": what, "key": full_key})
        return f

    def count(self, name, n=1):
        self.counters[name] = self.counters.get(name, 0) + n

    def floor(self, family, instance, where, got, expected_min, what):
        """Fail closed when a rule matches fewer sites than were confirmed by hand."""
        if got < expected_min:
            self.violation(family, instance, "anchor-missing/%s" % what, where,
                           "anchor-missing: expected at least %d %s, found %d" % (expected_min, what, got))
            return False
        return True


def load_known():
    p = os.path.join(VERIF, "known_findings.json")
    if not os.path.exists(p):
        return []
    with open(p) as fh:
        return json.load(fh).get("findings", [])


def finish(run, level, explanation, trusted_base, assumptions, extra_cov=None, checker_cmd=None,
           write_evidence=True, suffix=""):
    """Print verdict lines, write evidence and replay files. Returns exit code."""
    known = {k["key"]: k for k in load_known() if k.get("status") == "known" and k.get("property") == run.prop}
    viol = []
    known_hit = []
    for f in run.findings:
        if f.key in known:
            known_hit.append((f, known[f.key]))
        else:
            viol.append(f)
    for f, k in known_hit:
        print("RULE %s/%s %s: FINDING %s (known)" % (f.family, f.instance, f.where, f.what))
    code = 0
    replay_dir = os.path.join(VERIF, "replay")
    for f in viol:
        print("RULE %s/%s %s: VIOLATION %s\n      key=%s" % (f.family, f.instance, f.where, f.what, f.key))
    seen_known = set()
    for f, k in known_hit:
        if k["key"] in seen_known:
            continue
        seen_known.add(k["key"])
        print("KNOWN-FINDING: property=%s %s" % (run.prop, k["what"]))
    if viol:
        os.makedirs(replay_dir, exist_ok=True)
        rp = os.path.join(replay_dir, "%s%s.json" % (run.prop, suffix))
        with open(rp, "w") as fh:
            json.dump({"property": run.prop, "tier": run.tier, "config": run.config,
                       "violations": [f.to_json() for f in viol]}, fh, indent=1)
        print("VIOLATION property=%s replay=%s" % (run.prop, rp))
        code = 1
    if write_evidence and not os.environ.get("FRX_REPO"):
        cov = {
            "explanation": explanation,
            "obligations": run.obligations,
            "discharged": run.obligations - len(run.findings),
            "rule_instances": len(run.instances),
            "sites_matched": sum(i["sites"] for i in run.instances),
            "instances": [{"rule": i["family"] + "/" + i["instance"], "where": i["where"],
                           "sites": i["sites"], "status": i["status"]} for i in run.instances][:400],
            "known_findings_matched": [k["key"] for _, k in known_hit],
            "samples": run.samples[:40] if run.samples else [{"note": "no samples recorded"}],
            "trusted_base": trusted_base,
            "bodies_mir": len(run.facts.mir),
            "bodies_hir": len(run.facts.hir),
            "config": run.config,
            "features": run.facts.features,
            "exhaustive": True,
        }
        cov.update(run.counters)
        if checker_cmd:
            cov["checker_cmd"] = checker_cmd
        if extra_cov:
            cov.update(extra_cov)
        ev = {
            "property_id": run.prop,
            "tier": run.tier,
            "seed": int(os.environ.get("VERIF_SEED", "0") or 0),
            "level": level,
            "coverage": cov,
            "assumptions": assumptions,
            "wall_s": round(time.time() - run.t0, 2),
            "violations": len(viol),
        }
        os.makedirs(os.path.join(VERIF, "evidence"), exist_ok=True)
        with open(os.path.join(VERIF, "evidence", run.prop + ".json"), "w") as fh:
            json.dump(ev, fh, indent=1)
    return code
