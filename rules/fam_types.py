"""TYPES family (C18): witness crate + ADT-graph / statics / unsafe scans."""
import hashlib
import os
import re
import shutil
import subprocess

import hirlib as H
from facts import strip_generics, REPO, VERIF, CACHE

DENY = re.compile(r"(^|::)(Cell|RefCell|UnsafeCell|OnceCell|LazyCell|SyncUnsafeCell|Mutex|RwLock|OnceLock|LazyLock|Once|Condvar|Barrier|ReentrantLock|Atomic[A-Za-z0-9]*|Sender|SyncSender|Receiver|Rc|ThreadLocal|LocalKey|Lazy)$")
TRUSTED_CRATES = ("regex_automata::", "regex_syntax::", "bit_set::", "bit_vec::")
STD_OK = ("std::", "core::", "alloc::")


def _prep_witness(repo):
    tag = hashlib.sha256(os.path.abspath(repo).encode()).hexdigest()[:10]
    d = os.path.join(CACHE, "witness-" + tag)
    os.makedirs(os.path.join(d, "src"), exist_ok=True)
    with open(os.path.join(d, "repo_path"), "w") as fh:
        fh.write(os.path.abspath(repo))
    # drop witness build dirs of scratch trees that no longer exist
    for e in os.listdir(CACHE):
        if e.startswith("witness-") and e != "witness-" + tag:
            rp = os.path.join(CACHE, e, "repo_path")
            try:
                if not os.path.exists(rp) or not os.path.exists(open(rp).read().strip()):
                    shutil.rmtree(os.path.join(CACHE, e), ignore_errors=True)
            except OSError:
                pass
    src = os.path.join(VERIF, "witness")
    toml = open(os.path.join(src, "Cargo.toml")).read().replace('path = "/repo"', 'path = "%s"' % os.path.abspath(repo))
    _write_if_changed(os.path.join(d, "Cargo.toml"), toml)
    _write_if_changed(os.path.join(d, "src", "lib.rs"), open(os.path.join(src, "src", "lib.rs")).read())
    lock = os.path.join(repo, "Cargo.lock")
    if os.path.exists(lock):
        # the witness's lock file = the repository's + the witness package itself; cargo completes it offline
        if not os.path.exists(os.path.join(d, "Cargo.lock")):
            shutil.copy(lock, os.path.join(d, "Cargo.lock"))
    return d


def _write_if_changed(p, s):
    if os.path.exists(p) and open(p).read() == s:
        return
    with open(p, "w") as fh:
        fh.write(s)


def witness_check(run, ctx, doc_tests=False):
    fam = "TYPES"
    d = _prep_witness(ctx.facts.repo)
    env = dict(os.environ, CARGO_NET_OFFLINE="true", CARGO_TARGET_DIR=os.path.join(d, "target"))
    cmd = ["cargo", "check", "--offline", "--quiet"]
    r = subprocess.run(cmd, cwd=d, env=env, stdout=subprocess.PIPE, stderr=subprocess.STDOUT, text=True)
    src = open(os.path.join(d, "src", "lib.rs")).read()
    n_asserts = len(re.findall(r"assert_(send_sync_clone|send_sync|unwind_safe)::<", src))
    n_spawn = len(re.findall(r"\bspawn\(", src.split("pub fn shared_use")[1])) if "pub fn shared_use" in src else 0
    if r.returncode != 0:
        errs = [l for l in r.stdout.split("\n") if l.startswith("error")]
        # name the failing obligation
        first = r.stdout.strip().split("\n")
        msg = " | ".join(first[:6])[:600]
        run.violation(fam, "witness", "witness-does-not-compile", "witness/src/lib.rs",
                      "cannot discharge: the Send/Sync/Clone/&self witnesses no longer type-check against the current tree: " + msg,
                      {"output": r.stdout[-3000:]})
    else:
        run.ok(fam, "witness", "witness/src/lib.rs", n_asserts + n_spawn,
               "%d auto-trait assertions and %d concurrent &self uses type-check" % (n_asserts, n_spawn),
               sample="assert_send_sync_clone::<Regex>(); thread::scope(|s| { s.spawn(|| re.is_match(text)); ... })")
    run.checker_cmd = "cd %s && cargo check --offline" % d
    if doc_tests:
        cmd = ["cargo", "+nightly", "test", "--doc", "--offline"]
        r = subprocess.run(cmd, cwd=d, env=env, stdout=subprocess.PIPE, stderr=subprocess.STDOUT, text=True)
        m = re.search(r"test result: (\w+)\. (\d+) passed; (\d+) failed", r.stdout)
        if r.returncode != 0 or not m or m.group(1) != "ok" or int(m.group(2)) < 6:
            run.violation(fam, "witness-controls", "controls", "witness/src/lib.rs",
                          "negative controls / twins of the witness crate did not behave as required: " + r.stdout[-800:])
        else:
            run.ok(fam, "witness-controls", "witness/src/lib.rs", int(m.group(2)),
                   "%s compile_fail controls (with error codes) and compiling twins behave as required" % m.group(2))


def scans(run, ctx):
    fam = "TYPES"
    facts = ctx.facts
    # (3) no unsafe
    ub = [u for u in facts.unsafe_blocks if not (u["span"].get("exp"))]
    ufn = [p for p, f in facts.fns.items() if f.get("unsafe")]
    uimpl = [im for im in facts.impls if im.get("unsafe") and not im.get("derived")]  # #[derive(Clone)] on Copy types emits `unsafe impl TrivialClone`
    for u in ub:
        run.violation(fam, "no-unsafe", "unsafe-block/" + strip_generics(u["in"]), "%s:%d" % (u["span"]["file"], u["span"]["line"]),
                      "cannot discharge: unsafe block in %s (the data-race-freedom argument relies on the crate being safe Rust)" % strip_generics(u["in"]))
    for p in ufn:
        run.violation(fam, "no-unsafe", "unsafe-fn/" + strip_generics(p), "src", "cannot discharge: unsafe fn %s" % strip_generics(p))
    for im in uimpl:
        run.violation(fam, "no-unsafe", "unsafe-impl/" + im.get("trait_ref", "?"), "%s:%d" % (im["span"]["file"], im["span"]["line"]),
                      "cannot discharge: unsafe impl %s (a hand-written Send/Sync impl bypasses the auto-trait proof)" % im.get("trait_ref"))
    if not ub and not ufn and not uimpl:
        run.ok(fam, "no-unsafe", "src", 1, "0 user unsafe blocks / fns / impls in %d bodies, %d impls" % (len(facts.hir), len(facts.impls)))
    # (4) ADT graph from Regex
    root = [p for p in facts.adts if strip_generics(p) == "Regex"]
    if len(root) != 1:
        run.violation(fam, "adt-graph", "anchor-missing/Regex", "src/lib.rs", "anchor-missing: struct Regex not found")
        return
    seen = {}
    stack = [(root[0], "Regex")]
    edges = 0
    while stack:
        adt, via = stack.pop()
        if adt in seen:
            continue
        seen[adt] = via
        a = facts.adts[adt]
        for v in a["variants"]:
            for f in v["fields"]:
                where = "%s.%s" % (strip_generics(adt) + ("::" + v["name"] if a["kind"] == "Enum" else ""), f["name"])
                for m in f["mentions"]:
                    edges += 1
                    if m in facts.adts:
                        stack.append((m, where))
                        continue
                    ms = strip_generics(m)
                    if m.startswith("{rawptr}") or m.startswith("{dyn}") or m.startswith("{fnptr}"):
                        run.violation(fam, "adt-graph", "opaque/%s/%s" % (where, m[:20]), "%s:%d" % (a["span"]["file"], a["span"]["line"]),
                                      "cannot discharge: field %s: %s holds a %s; shared mutable state cannot be excluded" % (where, f["ty"], m))
                    elif DENY.search(ms):
                        run.violation(fam, "adt-graph", "interior-mut/%s/%s" % (where, ms), "%s:%d" % (a["span"]["file"], a["span"]["line"]),
                                      "cannot discharge: field %s: %s is reachable from Regex and contains interior mutability (%s): searches through a shared &Regex could write shared state" % (where, f["ty"], ms))
                    elif m.startswith(TRUSTED_CRATES) or m.startswith(STD_OK) or m.startswith("{param}"):
                        pass
                    else:
                        run.violation(fam, "adt-graph", "foreign/%s/%s" % (where, ms), "%s:%d" % (a["span"]["file"], a["span"]["line"]),
                                      "cannot discharge: field %s: %s mentions foreign type %s outside std and the trusted dependencies" % (where, f["ty"], ms))
                if not f.get("freeze", True) and not any(m.startswith(TRUSTED_CRATES) for m in f["mentions"]):
                    run.violation(fam, "adt-graph", "not-freeze/%s" % where, "%s:%d" % (a["span"]["file"], a["span"]["line"]),
                                  "cannot discharge: rustc reports field %s: %s as !Freeze (contains UnsafeCell)" % (where, f["ty"]))
    run.ok(fam, "adt-graph", "src/lib.rs", edges,
           "%d crate-local types reachable from Regex (%s), %d field type mentions, no interior mutability" % (len(seen), ", ".join(sorted(strip_generics(s) for s in seen)), edges))
    # (5) statics
    bad = 0
    for st in facts.statics:
        ms = [strip_generics(m) for m in st["mentions"]]
        if st["mut"] or st["thread_local"] or not st.get("freeze", True) or any(DENY.search(m) for m in ms):
            bad += 1
            run.violation(fam, "statics", "static/" + strip_generics(st["path"]), "%s:%d" % (st["span"]["file"], st["span"]["line"]),
                          "cannot discharge: static %s: %s is mutable / thread-local / interior-mutable shared state" % (strip_generics(st["path"]), st["ty"]))
    if not bad:
        run.ok(fam, "statics", "src", max(1, len(facts.statics)), "%d statics in the library target, none mutable / interior-mutable / thread-local" % len(facts.statics))
    # thread_local! expands to statics with #[thread_local] or LocalKey consts
    for p, c in facts.consts.items():
        if "LocalKey" in c.get("ty", ""):
            run.violation(fam, "statics", "thread-local/" + strip_generics(p), "%s:%d" % (c["span"]["file"], c["span"]["line"]),
                          "cannot discharge: thread_local! %s" % strip_generics(p))
    # (6) search entry points take &self; vm::run takes &Prog and builds its State locally
    n = 0
    for p, f in facts.fns.items():
        sp = strip_generics(p)
        if f.get("self_adt") and strip_generics(f["self_adt"]) == "Regex" and f.get("has_self") and f.get("exported"):
            n += 1
            if not f["inputs"] or not f["inputs"][0].startswith("&") or f["inputs"][0].startswith("&mut"):
                run.violation(fam, "shared-self", "self/" + sp, "%s:%d" % (f["span"]["file"], f["span"]["line"]),
                              "cannot discharge: %s takes %s, not &self: it cannot be called through a shared reference" % (sp, f["inputs"][:1]))
    runs = [f for p, f in facts.fns.items() if strip_generics(p) == "vm::run"]
    if len(runs) != 1:
        run.violation(fam, "shared-self", "anchor-missing/vm::run", "src/vm.rs", "anchor-missing: vm::run not found")
    else:
        f = runs[0]
        if not f["inputs"] or f["inputs"][0].replace(" ", "") not in ("&vm::Prog", "&Prog"):
            run.violation(fam, "shared-self", "run-prog", "%s:%d" % (f["span"]["file"], f["span"]["line"]),
                          "cannot discharge: vm::run takes %s, expected a shared &Prog" % f["inputs"][:1])
        if any(i.startswith("&mut") for i in f["inputs"]):
            run.violation(fam, "shared-self", "run-mut", "%s:%d" % (f["span"]["file"], f["span"]["line"]),
                          "cannot discharge: vm::run takes a &mut parameter %s: per-call state must be built inside" % f["inputs"])
        hb = [b for pth, b in facts.hir.items() if strip_generics(pth) == "vm::run"][0]
        news = [x for x in H.walk(hb["body"]) if x.get("k") == "Call" and H.canon(x).startswith("State::new(")]
        if len(news) != 1:
            run.violation(fam, "shared-self", "run-state", H.where(hb), "cannot discharge: vm::run must construct its own State (found %d State::new calls)" % len(news))
    run.ok(fam, "shared-self", "src/lib.rs", n + 3, "%d exported Regex methods take &self; vm::run(&Prog, ..) builds State per call" % n)
