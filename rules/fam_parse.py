"""Parser bookkeeping rules (C01(c), C15, C16, C19)."""
import re

import hirlib as H
import shape as S
from fam_vm import feasible
from facts import strip_generics


def _fn(run, ctx, name, fam, label):
    return S.get_fn(run, ctx, "parse::Parser::" + name, fam, label)


# ---------------------------------------------------------------------------------------------
# group counting (C16, C19)
# ---------------------------------------------------------------------------------------------

def _tuple_arm_ok(val, armpat):
    """Feasibility of the `match (la, skip)` arms for the tuple value built on this path."""
    if not (val.startswith("(") and val.endswith(")")):
        return True
    first = val[1:-1].split(",", 1)[0]
    second = val[1:-1].split(",", 1)[1] if "," in val else ""
    if armpat.startswith("(Some("):
        return first.startswith("Some(")
    if armpat == "(None,2)" or armpat == "(Option::None,2)":
        return first in ("None", "Option::None") and second == "2"
    # wildcard arm: only when the earlier ones do not apply
    return first in ("None", "Option::None") and second != "2"


def group_counting(run, ctx):
    fam, label = "PARSE", "group-counting"
    fn = _fn(run, ctx, "parse_group", fam, label)
    if fn is None:
        return
    w = H.where(fn)
    paths = [p for p in S.paths_of(fn["body"], max_paths=200000) if feasible(p)]
    n = 0
    kinds = {}
    for p in paths:
        v = S.ret_value(p)
        if v is None or not v.startswith("Ok(("):
            continue
        evs = p.events
        tl = [ev for ev in evs if ev.kind == "let" and ev.a.startswith("(") and "skip" in ev.a and (ev.b or "").startswith("(")]
        arm = [ev for ev in evs if ev.kind == "arm" and ev.a.startswith("(") and ev.a == (tl[0].a if tl else None)]
        res = [ev for ev in evs if ev.kind == "let" and re.match(r"^Expr::(Group|LookAround|AtomicGroup)\(", ev.b or "")]
        if not tl or not res:
            continue   # paths that return through parse_flags / parse_conditional / named backrefs
        if arm:
            if not _tuple_arm_ok(tl[0].b, arm[0].b):
                continue
        else:
            # the same decision written as an if-let chain on `la` and a test of `skip`: keep the feasible paths
            mt = re.match(r"^\((\w+),(\w+)\)$", tl[0].a)
            val = tl[0].b
            first = val[1:-1].split(",", 1)[0] if val.startswith("(") else ""
            second = val[1:-1].split(",", 1)[1] if val.startswith("(") and "," in val else ""
            feas = bool(mt)
            if mt:
                LA_, SK_ = mt.group(1), mt.group(2)
                for ev in evs:
                    if ev.kind == "letcond" and ev.b == LA_ and (ev.a or "").startswith("Some("):
                        feas = feas and (first.startswith("Some(") == bool(ev.c))
                    if ev.kind == "arm" and ev.a == LA_:
                        feas = feas and (first.startswith("Some(") == (ev.b or "").startswith("Some("))
                    if ev.kind == "cond" and ev.a in ("(2 == %s)" % SK_, "(%s == 2)" % SK_):
                        # (a computed skip -- prefix plus the length of `<name>` -- is more than 2, as in _tuple_arm_ok)
                        feas = feas and ((second == "2") == bool(ev.b))
            if not feas:
                continue
        n += 1
        incs = [i for i, ev in enumerate(evs) if ev.kind == "assign" and ev.a == "self.curr_group"]
        names = [i for i, ev in enumerate(evs) if ev.kind == "call" and ev.a.startswith("self.named_groups.insert(")]
        r = res[0].b
        kind = "Group" if r.startswith("Expr::Group(") else "LookAround" if r.startswith("Expr::LookAround(") else "AtomicGroup" if r.startswith("Expr::AtomicGroup(") else r[:20]
        kinds[kind] = kinds.get(kind, 0) + 1
        if kind == "Group":
            if len(incs) != 1 or evs[incs[0]].b != "+=" or evs[incs[0]].c != "1":
                run.violation(fam, label, "group-inc/%s" % tl[0].b, w, "a path producing Expr::Group must increment curr_group exactly once (found %d increments; branch %s): group numbers would no longer follow opening-parenthesis order" % (len(incs), tl[0].b))
            for i in names:
                if not incs or i < incs[0]:
                    run.violation(fam, label, "name-before-inc", w, "a group name is recorded before curr_group is incremented: the name would point at the previous group")
                elif not H.pat_match("self.named_groups.insert({id}.to_string(),self.curr_group)", evs[i].a):
                    run.violation(fam, label, "name-value", w, "a group name must be recorded with the new group's number (self.curr_group), found %s" % evs[i].a)
            rec = [i for i, ev in enumerate(evs) if ev.kind == "call" and ev.a.startswith("self.parse_re(")]
            if incs and rec and incs[0] > rec[0]:
                run.violation(fam, label, "inc-after-body", w, "curr_group must be incremented before the group's body is parsed (nested groups get higher numbers)")
        else:
            if incs:
                run.violation(fam, label, "nongroup-inc/%s" % kind, w, "a path producing %s increments curr_group: only capture groups are numbered" % kind)
            if names:
                run.violation(fam, label, "nongroup-name/%s" % kind, w, "a path producing %s records a group name" % kind)
    for k, c in (("Group", 3), ("LookAround", 4), ("AtomicGroup", 1)):
        if kinds.get(k, 0) < c:
            run.violation(fam, label, "anchor-missing/" + k, w, "anchor-missing: expected at least %d parse_group paths producing %s, found %d" % (c, k, kinds.get(k, 0)))
    # the named forms agree (sibling): (?<name> and (?P<name>: the name is parsed K bytes after `(`, where K is the
    # length of what precedes `<`, and the same K is added to the bytes to skip  (path-based)
    seen_named = {}
    for p in paths:
        v = S.ret_value(p)
        if v is None or not v.startswith("Ok(("):
            continue
        evs = p.events
        env = {ev.a: ev.b for ev in evs if ev.kind == "let" and re.match(r"^\w+$", ev.a or "") and ev.b and "(" not in ev.b and "?" not in ev.b}
        sub = lambda t: H.subst_lets(t or "", env)
        pref = None
        for ev in evs:
            if ev.kind == "cond" and ev.b is True:
                m = re.match(r'^self\.re\[ix\.\.\]\.starts_with\("(\?P?<)"\)$', sub(ev.a))
                if m:
                    pref = m.group(1)
        if pref is None:
            continue
        K = len(pref) - 1
        ids = [(ev.a, sub(ev.b)) for ev in evs if ev.kind in ("letcond", "let") and "parse_id(" in (ev.b or "") and (ev.kind == "let" or ev.c)]
        tl = [ev for ev in evs if ev.kind == "let" and (ev.a or "").startswith("(") and "skip" in ev.a and (ev.b or "").startswith("(")]
        good = False
        if ids and tl:
            m = re.match(r"^(?:Some\()?\((\w+),(\w+)\)\)?$", ids[0][0])
            want_call = 'parse_id(self.re[(%d + ix)..],"<",">",false)' % K
            # (the failure case may be spelled `else { return Err }` or `.ok_or(..)?`)
            if m and (ids[0][1] == want_call or ids[0][1].startswith(want_call + ".ok_or")):
                skipv = sub(tl[0].b)
                good = skipv in ("(None,(%d + %s))" % (K, m.group(2)), "(None,(%s + %d))" % (m.group(2), K))
        seen_named[pref] = seen_named.get(pref, True) and good
    for pref, off in (("?<", 1), ("?P<", 2)):
        if not seen_named.get(pref):
            run.violation(fam, label, 'named-form/"%s"' % pref, w, "the named-group form \"%s\" must count the group, parse the name after %d byte(s), record it and skip the prefix; shape not found" % (pref, off))
    run.ok(fam, label, w, n, "parse_group result paths %s: exactly the Group-producing ones count and name" % kinds)
    # only parse_group writes curr_group
    piece_keeps_atom(run, ctx)
    label = "curr_group-writer"
    writers = set()
    for path, f2 in ctx.facts.hir.items():
        for nd in H.walk(f2["body"]):
            if nd.get("k") in ("Assign", "AssignOp") and H.canon(nd["l"]).endswith(".curr_group"):
                writers.add(strip_generics(path))
    if writers != {"parse::Parser::parse_group"}:
        run.violation(fam, label, "writers", "src/parse.rs", "curr_group is written in %s; only parse_group may count groups" % sorted(writers))
    else:
        run.ok(fam, label, w, 1, "curr_group written only in parse_group")


def _mentions(text, names):
    return any(re.search(r"(?<![A-Za-z_0-9.])%s(?![A-Za-z_0-9(])" % re.escape(n), text or "") for n in names)


def piece_keeps_atom(run, ctx):
    """parse_piece hands the parsed atom on, bare or wrapped: a quantifier never makes the atom (and the groups that
    were already counted and named while parsing it) disappear from the tree."""
    fam, label = "PARSE", "piece-keeps-atom"
    fn = _fn(run, ctx, "parse_piece", fam, label)
    if fn is None:
        return
    n = 0
    for p in S.paths_of(fn["body"], max_paths=200000):
        if not feasible(p):
            continue
        v = S.ret_value(p)
        if v is None or not v.startswith("Ok(("):
            continue
        holders = None
        for ev in p.events:
            if ev.kind == "let" and holders is None and "self.parse_atom(" in (ev.b or ""):
                m = re.match(r"^\((\w+),(\w+)\)$", ev.a or "")
                if m:
                    holders = {m.group(2)}
                continue
            if holders is None:
                continue
            if ev.kind == "let" and re.match(r"^\w+$", ev.a or ""):
                if _mentions(ev.b, holders):
                    holders.add(ev.a)
                else:
                    holders.discard(ev.a)
            elif ev.kind == "assign" and re.match(r"^\w+$", ev.a or "") and ev.b == "=":
                if _mentions(ev.c, holders):
                    holders.add(ev.a)
                else:
                    holders.discard(ev.a)
        if holders is None:
            run.violation(fam, label, "anchor-missing/atom", H.where(fn), "anchor-missing: parse_piece does not bind `(ix, atom) = self.parse_atom(..)?`")
            return
        n += 1
        m = re.match(r"^Ok\(\((.*?),(.*)\)\)$", v)
        expr = m.group(2) if m else v
        if not _mentions(expr, holders):
            run.violation(fam, label, "atom-dropped", H.where(fn), "parse_piece returns %s on a path where that value no longer contains the parsed atom: groups opened inside the atom were already counted and named, so captures_len / capture_names / group numbers would disagree with the tree (e.g. (a){0}b)" % v[:60])
    run.floor(fam, label, H.where(fn), n, 4, "Ok paths of parse_piece")
    run.ok(fam, label, H.where(fn), n, "%d Ok paths of parse_piece, each returns the atom or an expression wrapping it" % n)


def names_api(run, ctx):
    """capture_names / Captures::name / SubCaptureMatches (C16)."""
    fam, label = "PARSE", "names-api"
    n = 0
    fn = S.get_fn(run, ctx, "Regex::capture_names", fam, label)
    if fn is not None:
        c = H.canon(fn["body"])
        n += 1
        forms = ["let {v} = Vec::new(); {v}.resize(self.captures_len(),None); for ({nm},{i}) in self.named_groups {{v}[{i}] = Some({nm})}; CaptureNames({v}.into_iter())",
                 "let {v} = from_elem(None,self.captures_len()); for ({nm},{i}) in self.named_groups {{v}[{i}] = Some({nm})}; CaptureNames({v}.into_iter())"]
        if not any(H.pat_match(f_, c) for f_ in forms):
            run.violation(fam, label, "capture_names", H.where(fn), "capture_names must yield captures_len() entries with each name at its group's index, found %s" % c)
    fn = S.get_fn(run, ctx, "Captures::name", fam, label)
    if fn is not None:
        c = H.canon(H.peel(fn["body"]))
        N = fn["params"][1].get("name")
        n += 1
        ok = H.pat_match("self.named_groups.get(%s).and_then(|{i}| self.get({i}))" % N, c) is not None
        if not ok:
            # the same with `?` / match / if let: on every path the index found for the name is what get() is asked for
            ok = True
            some = 0
            for p in S.paths_of(fn["body"]):
                v = S.ret_value(p)
                sm = S.Summary(p)
                oc = S.opt_outcomes(p, "self.named_groups.get(%s)" % N)
                tries = [ev for ev in p.events if ev.kind == "try-ok" and ev.a == "self.named_groups.get(%s)" % N]
                if p.exit == "try-err":
                    continue
                if v is None:
                    ok = False
                elif tries:
                    some += 1
                    ok = ok and sm.val == "self.get(self.named_groups.get(%s)?)" % N
                elif oc and oc[-1][1] == "some":
                    some += 1
                    b_ = re.sub(r"^\w+\((\w+)\)$", r"\1", oc[-1][2] or "")
                    ok = ok and sm.val == "self.get(%s)" % b_
                elif oc and oc[-1][1] == "none":
                    ok = ok and v == "None"
                else:
                    ok = False
            ok = ok and some >= 1
        if not ok:
            run.violation(fam, label, "name", H.where(fn), "Captures::name(n) must be get(index of n), found %s" % c)
    fn = S.get_fn(run, ctx, "<SubCaptureMatches as Iterator>::next", fam, label)
    if fn is not None:
        c = H.canon(H.peel(fn["body"]))
        n += 1
        good = True
        kinds_ = set()
        for p in S.paths_of(fn["body"], combinators=True):
            v = S.ret_value(p)
            if v is None:
                continue
            first_inc = next((i for i, ev in enumerate(p.events) if ev.kind == "assign" and ev.a == "self.i"), None)
            pf = S.PathFacts(p.events, first_inc)
            inside = pf.proves("Lt", "self.i", ({"len(self.caps)": 1}, 0))
            outside = pf.proves("Ge", "self.i", ({"len(self.caps)": 1}, 0))
            sm = S.Summary(p)
            gets = [i for i, ev in enumerate(p.events) if ev.kind == "call" and ev.a == "self.caps.get(self.i)"]
            incs = [i for i, ev in enumerate(p.events) if ev.kind == "assign" and ev.a == "self.i"]
            if inside:
                good = good and len(gets) == 1 and len(incs) == 1 and gets[0] < incs[0] and p.events[incs[0]].b == "+=" and p.events[incs[0]].c == "1" \
                    and sm.val == "Some(self.caps.get(self.i))"
            elif outside:
                good = good and v == "None" and not gets and not incs
            else:
                good = False
            kinds_.add(bool(inside))
        if not good or kinds_ != {True, False}:
            run.violation(fam, label, "iter", H.where(fn), "Captures::iter must yield get(i) for i in 0..len(), found %s" % c)
    fn = S.get_fn(run, ctx, "Captures::iter", fam, label)
    if fn is not None:
        c = H.canon(H.peel(fn["body"]))
        n += 1
        if c != "SubCaptureMatches{caps:self,i:0}":
            run.violation(fam, label, "iter-start", H.where(fn), "Captures::iter must start at group 0, found %s" % c)
    run.ok(fam, label, "src/lib.rs", n, "capture_names sized by captures_len and indexed by group number; name = get(index); iter = get(0..len)")


# ---------------------------------------------------------------------------------------------
# backreference registration (C01(c), C19)
# ---------------------------------------------------------------------------------------------

def backref_registration(run, ctx):
    fam, label = "PARSE", "backref-registration"
    n = 0
    for name in ("parse_named_backref", "parse_numbered_backref"):
        fn = _fn(run, ctx, name, fam, label)
        if fn is None:
            continue
        ok_paths = 0
        for p in S.paths_of(fn["body"]):
            if not feasible(p):
                continue
            ce = [i for i, ev in enumerate(p.events) if ev.kind == "call" and H.pat_match("create_expr({g})", ev.a)]
            if not ce:
                continue
            ok_paths += 1
            n += 1
            G = H.pat_match("create_expr({g})", p.events[ce[0]].a).group("g")
            ins = [i for i, ev in enumerate(p.events) if ev.kind == "call" and ev.a == "self.backrefs.insert(%s)" % G]
            if not ins or ins[0] > ce[0]:
                run.violation(fam, label, name + "/no-insert", H.where(fn), "%s builds a reference to group %s without registering it in `backrefs` first: the referenced group would not be marked hard and could be swallowed into an automata delegate (e.g. (x|xy)\\1)" % (name, G))
            # bound before insert (TAINT sanitiser): group < len/2
            pf = S.PathFacts(p.events, ins[0] if ins else None)
            bound_ok = any(ev.kind in ("cond", "letcond") and ("(len(self.re) / 2)" in (ev.a or "") or "(len(self.re) / 2)" in str(ev.b)) for ev in p.events[:ins[0] if ins else 0])
            if ins and not bound_ok:
                run.violation(fam, label, name + "/unbounded", H.where(fn), "%s inserts group %s into the backref bit set without the `group < pattern length / 2` bound on that path (allocation proportional to the number written in the pattern)" % (name, G))
        if ok_paths < 1:
            run.violation(fam, label, name + "/anchor-missing", H.where(fn), "anchor-missing: no path of %s calls create_expr" % name)
    # Expr::Backref / SubroutineCall are constructed only through those two functions (closures passed as create_expr) or from a parsed Backref
    sites = []
    for path, f2 in ctx.facts.hir.items():
        sp = strip_generics(path)
        if not sp.startswith("parse::"):
            continue

        def walk_with_parents(nd, parents):
            if isinstance(nd, dict):
                if nd.get("k") == "Call":
                    f = H.peel(nd["f"])
                    if f.get("adt", "").endswith("Expr") and f.get("variant") in ("Backref", "SubroutineCall", "BackrefExistsCondition"):
                        sites.append((sp, f["variant"], nd, list(parents)))
                elif nd.get("k") == "Path" and nd.get("adt", "").endswith("Expr") and nd.get("variant") in ("Backref", "SubroutineCall", "BackrefExistsCondition") \
                        and "Ctor" in str(nd.get("dk", "")) and not any(p_.get("k") == "Call" and H.peel(p_["f"]) is nd for p_ in parents[-3:]):
                    # the constructor used as a function value: fine as the create_expr argument itself
                    par = [p_ for p_ in parents if p_.get("k") == "MethodCall" and p_["name"] in ("parse_named_backref", "parse_numbered_backref")
                           and any(H.peel(a_) is nd for a_ in p_.get("args") or [])]
                    sites.append((sp, nd["variant"], nd, list(parents) + ([{"k": "Closure"}] if par else [])))
                for ch in H.children(nd):
                    walk_with_parents(ch, parents + [nd])
        walk_with_parents(f2["body"], [])
    bad = 0
    for sp, var, nd, parents in sites:
        n += 1
        if var == "BackrefExistsCondition":
            # built from a Backref that went through registration: `if let Expr::Backref(group) = condition`
            encl = [p for p in parents if p.get("k") == "If" and "let Expr::Backref(" in H.canon(p["cond"])]
            if not encl:
                bad += 1
                run.violation(fam, label, "bec/" + sp, H.where(nd), "Expr::BackrefExistsCondition built in %s from something other than a parsed (registered) Expr::Backref" % sp)
            continue
        clo = [p for p in parents if p.get("k") == "Closure"]
        call = [p for p in parents if p.get("k") == "MethodCall" and p["name"] in ("parse_named_backref", "parse_numbered_backref")]
        if not clo or not call:
            bad += 1
            run.violation(fam, label, "ctor/%s/%s" % (sp, var), H.where(nd), "Expr::%s is constructed in %s outside a create_expr closure of parse_named_backref / parse_numbered_backref: the group would not be registered in `backrefs`" % (var, sp))
    run.floor(fam, label, "src/parse.rs", len(sites), 11, "constructions of Expr::Backref / SubroutineCall / BackrefExistsCondition in the parser")
    # `backrefs` only grows: after a group was registered nothing may take it out again (MIR: writes / &mut borrows of Parser.backrefs)
    PA = [p for p in ctx.facts.adts if strip_generics(p) == "parse::Parser"]
    nb = 0
    if len(PA) != 1:
        run.violation(fam, label, "anchor-missing/Parser", "src/parse.rs", "anchor-missing: struct parse::Parser")
    else:
        for path, body in ctx.cg.bodies.items():
            sp = strip_generics(path)
            muts = {}      # local holding &mut self.backrefs -> span
            for bi, b in enumerate(body.blocks):
                for st in b["stmts"]:
                    if st["k"] != "Assign":
                        continue
                    pl = st["place"]
                    fl = [x for x in (pl.get("p") or []) if x["k"] == "Field" and x.get("adt") == PA[0] and x.get("name") == "backrefs"]
                    if fl:
                        nb += 1
                        run.violation(fam, label, "backrefs-overwritten/" + sp, "%s:%d" % (st["span"]["file"], st["span"]["line"]),
                                      "%s assigns Parser.backrefs: the set of referenced groups may only grow (a group taken out again is no longer marked hard and can be swallowed into an automata delegate, e.g. (?:(a)|a)(?(1)x|y))" % sp)
                    rv = st["rv"]
                    if rv["k"] == "Ref" and rv.get("mut"):
                        fl = [x for x in (rv["place"].get("p") or []) if x["k"] == "Field" and x.get("adt") == PA[0] and x.get("name") == "backrefs"]
                        if fl:
                            muts[pl.get("l")] = st["span"]
            if not muts:
                continue
            for callee, bi, t in ctx.cg.calls.get(path, []):
                for a in t["args"]:
                    loc = (a.get("place") or {}).get("l") if isinstance(a, dict) else None
                    if loc in muts:
                        nb += 1
                        cs = strip_generics(callee)
                        if not cs.endswith("BitSet::insert"):
                            run.violation(fam, label, "backrefs-mutated/%s/%s" % (sp, cs), "%s:%d" % (t["span"]["file"], t["span"]["line"]),
                                          "%s passes &mut Parser.backrefs to %s: only BitSet::insert may change the set of referenced groups" % (sp, cs))
        run.floor(fam, label, "src/parse.rs", nb, 2, "mutable uses of Parser.backrefs")
    run.ok(fam, label, "src/parse.rs", n, "%d reference constructions, all behind backrefs.insert(group) with the length bound" % len(sites))


def backref_spellings(run, ctx):
    """Delimiter forms of \\k, \\g, (?( agree (C19)."""
    fam, label = "PARSE", "backref-spellings"
    fn = _fn(run, ctx, "parse_escape", fam, label)
    n = 0
    if fn is not None:
        # the calls as made on each path, with named temporaries (e.g. a `(open, close)` pair chosen first) read through
        calls = set()
        branches = [nd["then"] for nd in H.walk(fn["body"]) if nd.get("k") == "If" and re.search(r"b'[kg]'", H.canon(nd["cond"]))]
        for br in branches:
            for p in S.paths_of(br, max_paths=200000):
                sm = S.Summary(p)
                for c_ in sm.calls:
                    if c_.startswith("self.parse_named_backref("):
                        calls.add(c_)
        k_forms = [c for c in calls if "Expr::Backref(" in c]
        g_forms = [c for c in calls if "Expr::SubroutineCall(" in c]
        for forms, what in ((k_forms, "\\k"), (g_forms, "\\g")):
            n += 1
            sig = sorted(set(re.sub(r"\|(\w+)\| .*$", "", c) for c in forms))
            want = sorted(["self.parse_named_backref(end,\"'\",\"'\",true,", "self.parse_named_backref(end,\"<\",\">\",true,"])
            if sig != want:
                run.violation(fam, label, what, H.where(fn), "the %s<..> and %s'..' forms must both accept names, numbers and relative numbers (allow_relative = true) starting after the escape letter; found %s" % (what, what, sig))
    fn = _fn(run, ctx, "parse_conditional", fam, label)
    if fn is not None:
        calls = [H.canon(nd) for nd in H.walk(fn["body"]) if nd.get("k") == "MethodCall" and nd["name"] == "parse_named_backref"]
        sig = sorted(re.sub(r"\|(\w+)\| .*$", "", c) for c in calls)
        n += 1
        # both spellings start at the same position (whatever it is called), differ only in the delimiters
        pos = {re.sub(r"^self\.parse_named_backref\((.*?),\".*$", r"\1", c) for c in sig}
        P0 = sorted(pos)[0] if len(pos) == 1 else "ix"
        want = sorted(["self.parse_named_backref(%s,\"'\",\"'\",true," % P0, "self.parse_named_backref(%s,\"<\",\">\",true," % P0])
        if sig != want:
            run.violation(fam, label, "conditional", H.where(fn), "(?(<name>).. and (?('name').. must be parsed identically, found %s" % sig)
    fn = _fn(run, ctx, "parse_group", fam, label)
    if fn is not None:
        calls = [H.canon(nd) for nd in H.walk(fn["body"]) if nd.get("k") == "MethodCall" and nd["name"] == "parse_named_backref"]
        sig = sorted(re.sub(r"\|(\w+)\| ", "|g| ", c) for c in calls)
        n += 1
        want = sorted(['self.parse_named_backref((3 + ix),"",")",false,|g| Expr::Backref(group))', 'self.parse_named_backref((3 + ix),"",")",false,|g| Expr::SubroutineCall(group))'])
        if sig != want:
            run.violation(fam, label, "python-forms", H.where(fn), "(?P=name) / (?P>name) must parse the name after the 3-byte prefix up to `)`, found %s" % sig)
    # relative form: curr_group + (n + 1) with n negative
    fn = _fn(run, ctx, "parse_named_backref", fam, label)
    if fn is not None:
        c = H.canon(fn["body"])
        n += 1
        if "self.curr_group.checked_add_signed((1 + group))" not in c and "self.curr_group.checked_add_signed((group + 1))" not in c:
            run.violation(fam, label, "relative", H.where(fn), "a relative reference -n must resolve to curr_group + 1 - n (checked), shape not found")
        if "if let Some(group) = self.named_groups.get(id) {Some(group)} else {if let Ok(group) = id.parse()" not in c:
            run.violation(fam, label, "name-first", H.where(fn), "a reference must be resolved as a group name first and as a number only if no such name exists")
    run.ok(fam, label, "src/parse.rs", n, "delimiter / Python forms route through parse_named_backref with identical options; relative = curr_group + 1 - n")


# ---------------------------------------------------------------------------------------------
# flags (C19)
# ---------------------------------------------------------------------------------------------

def group_flag_scope(run, ctx):
    """An inline flag group `(?i)` applies to the end of the enclosing group: parse_group has to put the flags back
    after the body of a capturing / atomic / look-around group (reference: regex crate, PCRE, Oniguruma)."""
    fam, label = "PARSE", "group-flag-scope"
    fn = _fn(run, ctx, "parse_group", fam, label)
    if fn is None:
        return
    n = bad = 0
    for p in S.paths_of(fn["body"], max_paths=200000):
        if not feasible(p):
            continue
        v = S.ret_value(p)
        if v is None or not v.startswith("Ok(("):
            continue
        body = [i for i, ev in enumerate(p.events) if ev.kind == "call" and (ev.a or "").startswith("self.parse_re(")]
        if not body:
            continue
        n += 1
        saved = [ev.a for ev in p.events[:body[0]] if ev.kind == "let" and ev.b == "self.flags"]
        rest = [ev for ev in p.events[body[0]:] if ev.kind == "assign" and ev.a == "self.flags" and ev.b == "=" and ev.c in saved]
        if not rest:
            bad += 1
    run.floor(fam, label, H.where(fn), n, 3, "group-producing paths of parse_group")
    if bad:
        run.violation(fam, label, "flags-leak", H.where(fn),
                      "parse_group does not restore the flags after the body of a capturing / atomic / look-around group (%d of %d paths): an inline flag leaks out of the group, e.g. ((?i)a)b matches \"AB\" and (?>(?i)a)b matches \"aB\"" % (bad, n))
    else:
        run.ok(fam, label, H.where(fn), n, "flags restored after the body of every group")


def flags_rule(run, ctx):
    literal_casei(run, ctx)
    group_flag_scope(run, ctx)
    fam, label = "PARSE", "flags"
    fn = _fn(run, ctx, "parse_flags", fam, label)
    if fn is None:
        return
    w = H.where(fn)
    n = 0
    scoped = unscoped = 0
    for p in S.paths_of(fn["body"], max_paths=200000):
        if not feasible(p):
            continue
        v = S.ret_value(p)
        if v is None or not v.startswith("Ok(("):
            continue
        n += 1
        evs = p.events
        old = [i for i, ev in enumerate(evs) if ev.kind == "let" and ev.b == "self.flags"]
        upd = [i for i, ev in enumerate(evs) if ev.kind == "call" and ev.a.startswith("self.update_flag(")]
        body = [i for i, ev in enumerate(evs) if ev.kind == "call" and ev.a.startswith("self.parse_re(")]
        rest = [i for i, ev in enumerate(evs) if ev.kind == "assign" and ev.a == "self.flags"]
        if not old or (upd and old[0] > upd[0]):
            run.violation(fam, label, "oldflags", w, "parse_flags must remember the flags in force before applying any flag letter")
            continue
        OLD = evs[old[0]].a
        if body:
            scoped += 1
            if not rest or evs[rest[-1]].c != OLD or rest[-1] < body[0]:
                run.violation(fam, label, "no-restore", w, "after the body of a scoped flag group (?flags:...) the previous flags must be restored on the way to Ok (found %s)" % [evs[i].c for i in rest])
        else:
            unscoped += 1
            if rest:
                run.violation(fam, label, "unscoped-restore", w, "an unscoped (?flags) group must leave its flags in force for the rest of the enclosing group")
            if not v.endswith(",Expr::Empty))"):
                run.violation(fam, label, "unscoped-value", w, "(?flags) must parse to Expr::Empty, found %s" % v)
    if scoped < 1 or unscoped < 1:
        run.violation(fam, label, "anchor-missing/paths", w, "anchor-missing: scoped (%d) and unscoped (%d) success paths of parse_flags" % (scoped, unscoped))
    # flag letter table
    c = H.canon(fn["body"])
    for ch, fl in (("i", "FLAG_CASEI"), ("m", "FLAG_MULTI"), ("s", "FLAG_DOTNL"), ("U", "FLAG_SWAP_GREED"), ("x", "FLAG_IGNORE_SPACE")):
        n += 1
        if not H.find_pat(c, "b'%s' => self.update_flag(%s,{neg})" % (ch, fl)):
            run.violation(fam, label, "letter/" + ch, w, "flag letter `%s` must update %s with the current negation" % (ch, fl))
    uf = _fn(run, ctx, "update_flag", fam, label)
    if uf is not None:
        cu = H.canon(H.peel(uf["body"]))
        F, N = uf["params"][1].get("name"), uf["params"][2].get("name")
        n += 1
        if cu != "if %s {self.flags &= !%s} else {self.flags |= %s}" % (N, F, F):
            run.violation(fam, label, "update_flag", H.where(uf), "update_flag must clear the flag when negated and set it otherwise, found %s" % cu)
    fl = _fn(run, ctx, "flag", fam, label)
    if fl is not None:
        cf = H.canon(H.peel(fl["body"]))
        F = fl["params"][1].get("name")
        n += 1
        if cf not in ("(0 != (%s & self.flags))" % F, "(0 != (self.flags & %s))" % F):
            run.violation(fam, label, "flag", H.where(fl), "flag() must test the bit, found %s" % cf)
    # flag constants are distinct single bits
    vals = {}
    for p_, c_ in ctx.facts.consts.items():
        sp = strip_generics(p_)
        if sp.startswith("parse::FLAG_") and "val" in c_:
            vals[sp] = c_["val"]
    n += 1
    if len(vals) < 6 or len(set(vals.values())) != len(vals) or any(v & (v - 1) for v in vals.values()):
        run.violation(fam, label, "flag-bits", "src/parse.rs", "parser flag constants must be distinct single bits: %s" % vals)
    run.ok(fam, label, w, n, "scoped groups restore the saved flags after their body, unscoped ones do not; letter table; distinct bits")
    # where each flag takes effect
    label = "flag-effects"
    atom = _fn(run, ctx, "parse_atom", fam, label)
    m = 0
    if atom is not None:
        ca = H.canon(atom["body"])
        # `^` / `$`: decided per path by the multi-line flag (any placement of the `if`)
        for byte, line, text, what in (("b'^'", "Assertion::StartLine{crlf:false}", "Assertion::StartText", "`^` is a line anchor iff (?m)"),
                                       ("b'$'", "Assertion::EndLine{crlf:false}", "Assertion::EndText", "`$` is a line anchor iff (?m)")):
            arms_ = [a_ for nd in H.walk(atom["body"]) if nd.get("k") == "Match" for a_ in nd["arms"] if H.pat_canon(a_["pat"]) == byte]
            good = len(arms_) == 1
            seen_ = set()
            if good:
                for p in S.paths_of(arms_[0]["body"]):
                    tr = [ev.b for ev in p.events if ev.kind == "cond" and ev.a == "self.flag(FLAG_MULTI)"]
                    v = S.ret_value(p)
                    if not tr or v is None:
                        good = False
                        break
                    seen_.add(bool(tr[-1]))
                    good = good and v == "Ok(((1 + ix),Expr::Assertion(%s)))" % (line if tr[-1] else text)
            m += 1
            if not good or seen_ != {True, False}:
                run.violation(fam, label, "atom/" + what, H.where(atom), "parse_atom: %s; shape not found" % what)
        for want, what in (("b'.' => Ok(((1 + ix),Expr::Any{newline:self.flag(FLAG_DOTNL)}))", "`.` matches newline iff (?s)"),
                           ("Expr::Literal{casei:self.flag(FLAG_CASEI),val:From::from(self.re[ix..next])}", "a literal is case-insensitive iff (?i)")):
            m += 1
            if want not in ca:
                run.violation(fam, label, "atom/" + what[:12], H.where(atom), "parse_atom: %s; shape not found" % what)
    piece = _fn(run, ctx, "parse_piece", fam, label)
    if piece is not None:
        cp = H.canon(piece["body"])
        m += 2
        if not H.find_pat(cp, "{g} ^= self.flag(FLAG_SWAP_GREED)"):
            run.violation(fam, label, "swap-greed", H.where(piece), "(?U) must swap greediness of every quantifier")
        if not H.find_pat(cp, "if (({ix} < len(self.re)) && (b'+' == self.re[{ix}])) {{ix} += 1; {node} = Expr::AtomicGroup(Box::new({node}))}"):
            run.violation(fam, label, "possessive", H.where(piece), "a possessive quantifier x*+ must parse to AtomicGroup(Repeat) (documented as equivalent to (?>x*))")
    ow = _fn(run, ctx, "optional_whitespace", fam, label)
    if ow is not None:
        co = H.canon(ow["body"])
        m += 2
        if "b' '|b'\\x0d'|b'\\x0a'|b'\\x09' if self.flag(FLAG_IGNORE_SPACE) => ix += 1" not in co:
            run.violation(fam, label, "x-space", H.where(ow), "whitespace is skipped only under (?x); shape not found")
        if "b'#' if self.flag(FLAG_IGNORE_SPACE) =>" not in co:
            run.violation(fam, label, "x-comment", H.where(ow), "`#` starts a comment only under (?x); shape not found")
    run.ok(fam, label, "src/parse.rs", m, "DOTNL/MULTI/CASEI/SWAP_GREED/IGNORE_SPACE take effect where documented; possessive = AtomicGroup(Repeat)")


ESCAPE_TABLE = {
    # escape letter -> expected construction (canonical fragments)
    "A": "Expr::Assertion(Assertion::StartText)",
    "z": "Expr::Assertion(Assertion::EndText)",
    "b": "Expr::Assertion(Assertion::WordBoundary)",
    "B": "Expr::Assertion(Assertion::NotWordBoundary)",
    "<": "Expr::Assertion(Assertion::LeftWordBoundary)",
    ">": "Expr::Assertion(Assertion::RightWordBoundary)",
    "K": "Expr::KeepOut",
    "G": "Expr::ContinueFromPreviousMatchEnd",
}


def literal_casei(run, ctx):
    """Every literal the parser builds from pattern text carries the case-insensitivity flag in force, whichever
    spelling (raw character, \\x.., \\u...., escaped punctuation) produced it."""
    fam, label = "PARSE", "literal-casei"
    n = 0
    for path, fn in sorted(ctx.facts.hir.items()):
        sp = strip_generics(path)
        if not sp.startswith("parse::Parser::"):
            continue
        for nd in H.walk(fn["body"]):
            if nd.get("k") == "Struct" and nd.get("adt", "").endswith("Expr") and nd.get("variant") in ("Literal", "Delegate"):
                n += 1
                d = {f["name"]: H.canon(f["e"]) for f in nd["fields"]}
                if nd.get("variant") == "Delegate":
                    # classes: the flag in force, or `false` for the fixed letter-free classes (\\h, \\H, \\R, `\\n*$`)
                    if d.get("casei") not in ("self.flag(FLAG_CASEI)", "false"):
                        run.violation(fam, label, "casei-class/%s" % sp, H.where(nd), "Expr::Delegate built in %s with casei = %s (expected the flag in force)" % (sp, d.get("casei")))
                    continue
                if d.get("casei") != "self.flag(FLAG_CASEI)":
                    run.violation(fam, label, "casei/%s" % sp, H.where(nd), "Expr::Literal built in %s with casei = %s: every spelling of a character must take the flag in force (`self.flag(FLAG_CASEI)`), otherwise e.g. (?i)\\xE9 and (?i)\u00e9 parse to different trees" % (sp, d.get("casei")))
    run.floor(fam, label, "src/parse.rs", n, 6, "Expr::Literal / Expr::Delegate constructions in Parser methods")
    run.ok(fam, label, "src/parse.rs", n, "%d Expr::Literal / Expr::Delegate constructions in Parser methods take casei from the flag in force (fixed letter-free classes: false)" % n)


def class_text(run, ctx):
    """parse_class copies a bracket class to the inner engine item by item: structural brackets, raw pattern text,
    an escaped single character (escape_into), or the text of an escape that stands for a class (\\h, \\H, \\d ...)
    exactly as parse_escape produced it.  Anything else written into the class text changes what the class means."""
    fam, label = "PARSE", "class-text"
    fn = _fn(run, ctx, "parse_class", fam, label)
    if fn is None:
        return
    # names bound by the patterns Expr::Literal{val,..} / Expr::Delegate{inner,..}
    lit, dele = set(), set()
    for nd in H.walk(fn["body"]):
        if nd.get("k") == "Match":
            for arm in nd["arms"]:
                pc = H.pat_canon(arm["pat"])
                m = re.match(r"^Expr::Literal\{.*?val:(\w+)", pc)
                if m:
                    lit.add(m.group(1))
                m = re.match(r"^Expr::Delegate\{.*?inner:(\w+)", pc)
                if m:
                    dele.add(m.group(1))
    # the variable holding the class text: the String that ends up as `inner` of the returned Delegate
    CL = None
    for nd in H.walk(fn["body"]):
        if nd.get("k") == "Struct" and nd.get("variant") == "Delegate":
            d = {f["name"]: H.canon(f["e"]) for f in nd["fields"]}
            CL = d.get("inner")
    if CL is None or not lit or not dele:
        run.violation(fam, label, "anchor-missing", H.where(fn), "anchor-missing: parse_class should build a Delegate from a class string and handle Literal / Delegate escapes (found %s, %s, %s)" % (CL, lit, dele))
        return
    n = 0
    for nd in H.walk(fn["body"]):
        if nd.get("k") == "MethodCall" and H.canon(nd["recv"]) == CL:
            arg = H.canon(nd["args"][0]) if nd.get("args") else ""
            n += 1
            if nd["name"] == "push" and arg in ("'['", "']'", "'^'"):
                continue
            if nd["name"] == "push_str" and (arg in dele or H.pat_match("self.re[{a}..{b}]", arg)):
                continue
            run.violation(fam, label, "write/%s(%s)" % (nd["name"], arg), H.where(nd), "parse_class writes %s.%s(%s): the class text may only receive brackets, raw pattern text, an escaped literal, or the unmodified text of a class escape (e.g. [_\\H] must stay [_[^0-9A-Fa-f]])" % (CL, nd["name"], arg))
        elif nd.get("k") == "Call" and any(H.canon(a) == CL for a in nd.get("args") or []):
            n += 1
            c = H.canon(nd)
            if not any(c == "escape_into(%s,%s)" % (v, CL) for v in lit):
                run.violation(fam, label, "write/" + c, H.where(nd), "parse_class passes the class text to %s: only escape_into(<literal of the escape>, class) may write it" % c)
    run.floor(fam, label, H.where(fn), n, 8, "writes to the class text")
    run.ok(fam, label, H.where(fn), n, "%d writes to the class text: brackets, raw text, escaped literal, unmodified class escape" % n)


def escape_table(run, ctx):
    class_text(run, ctx)
    fam, label = "PARSE", "escape-table"
    fn = _fn(run, ctx, "parse_escape", fam, label)
    if fn is None:
        return
    c = H.canon(fn["body"])
    n = 0
    ifs = {}
    for nd in H.walk(fn["body"]):
        if nd.get("k") == "If":
            ifs.setdefault(H.canon(nd["cond"]), nd)
    for ch, want in ESCAPE_TABLE.items():
        n += 1
        nd = ifs.get("((b'%s' == b) && !in_class)" % ch) or ifs.get("((b == b'%s') && !in_class)" % ch)
        if nd is None:
            run.violation(fam, label, "missing/" + ch, H.where(fn), "no branch for the escape \\%s outside classes" % ch)
            continue
        th = H.canon(nd["then"])
        if not th.endswith("(end,%s)" % want):
            run.violation(fam, label, "value/" + ch, H.where(nd), "\\%s must parse to %s; found %s" % (ch, want, th[-160:]))
    for want, what in (('"[0-9A-Fa-f]"', "\\h"), ('"[^0-9A-Fa-f]"', "\\H"), ('b\'e\' => "\\x1b"', "\\e"), ('b\'a\' => "\\x07"', "\\a"), ('b\'f\' => "\\x0c"', "\\f"),
                       ('b\'n\' => "\\n"', "\\n"), ('b\'r\' => "\\r"', "\\r"), ('b\'t\' => "\\t"', "\\t"), ('b\'v\' => "\\x0b"', "\\v"),
                       ('b\'b\' => "\\x08"', "\\b inside a class (backspace; outside a class it is the word boundary)")):
        n += 1
        if want not in c and want.replace("\\n", "\n").replace("\\r", "\r").replace("\\t", "\t").replace("\\x1b", "\x1b").replace("\\x07", "\x07").replace("\\x0c", "\x0c").replace("\\x0b", "\x0b").replace("\\x08", "\x08") not in c:
            run.violation(fam, label, "row/" + what, H.where(fn), "%s must expand as documented (%s); row not found" % (what, want))
    for want, what in (("return self.parse_hex(end,2)", "\\x"), ("return self.parse_hex(end,4)", "\\u"), ("return self.parse_hex(end,8)", "\\U")):
        n += 1
        if want not in c:
            run.violation(fam, label, "hex/" + what, H.where(fn), "%sHH.. must read the documented number of hex digits (%s)" % (what, want))
    n += 1
    if 'Expr::LookAround(Box::new(Expr::Delegate{casei:false,inner:"\\n*$".to_string(),size:0}),LookAround::LookAhead)' not in c.replace("\n", "\\n") and 'inner:"\n*$".to_string()' not in c:
        run.violation(fam, label, "Z", H.where(fn), "\\Z must be a look-ahead for optional newlines before the end of text")
    run.ok(fam, label, H.where(fn), n, "escape rows \\A \\z \\b \\B \\< \\> \\K \\G \\h \\H \\e ... \\x \\u \\U \\Z as documented")


# ---------------------------------------------------------------------------------------------
# conditionals (C15)
# ---------------------------------------------------------------------------------------------

def conditional_rule(run, ctx):
    """What parse_conditional may return, path by path (reference: `(?(c)yes|no)` = Conditional{c, yes, no}, `no` empty
    if omitted; only `(?(N))` with no branch text at all is the bare group test)."""
    fam, label = "PARSE", "conditional"
    fn = _fn(run, ctx, "parse_conditional", fam, label)
    if fn is None:
        return
    w = H.where(fn)
    c = H.canon(fn["body"])
    n = 0
    alt_pats = [nd for nd in H.walk(fn["body"]) if nd.get("k") in ("TupleStructPat", "StructPat") and nd.get("adt", "").endswith("Expr") and nd.get("variant") == "Alt"]
    if alt_pats or "let Expr::Alt(" in c:
        run.violation(fam, label, "alt-destructuring", w, "parse_conditional: the body must not be split by destructuring an Expr::Alt: a true branch that merely consists of a group such as (?:a|b) (or a flag group (?i:a|b)) parses to a bare alternation and would be torn into true/false branches")
    kinds = {"bare": 0, "cond": 0, "cond-else": 0}
    for p in S.paths_of(fn["body"], max_paths=200000):
        if not feasible(p):
            continue
        v = S.ret_value(p)
        if v is None or not v.startswith("Ok(("):
            continue
        n += 1
        sm = S.Summary(p)
        val = sm.val
        # the pieces this path parsed
        T = FB = None
        for ev in p.events:
            if ev.kind == "let" and "self.parse_branch(" in (ev.b or ""):
                m = re.match(r"^\((\w+),(\w+)\)$", ev.a or "")
                if m and T is None:
                    T = m.group(2)
            if ev.kind == "let" and "self.parse_re(" in (ev.b or "") and "(1 + " in (ev.b or ""):
                m = re.match(r"^\((\w+),(\w+)\)$", ev.a or "")
                if m:
                    FB = m.group(2)
        bar = [ev.b for ev in p.events if ev.kind == "cond" and re.search(r"starts_with\('\|'\)$", ev.a or "")]
        has_bar = bool(bar and bar[-1])
        isref = [(ev.a, ev.c) for ev in p.events if ev.kind == "letcond" and (ev.a or "").startswith("Expr::Backref(")]
        G = None
        if isref and isref[-1][1]:
            G = re.match(r"^Expr::Backref\((\w+)\)$", isref[-1][0]).group(1)
        # "nothing follows the condition" is decided by comparing two positions; comments and free-spacing blanks are
        # not a branch, so either both positions are taken after skipping trivia or neither is (otherwise
        # `(?(1)(?#c))` / `(?x)(?(1) )` parse differently from `(?(1))`)
        if not has_bar:
            for i_, ev in enumerate(p.events):
                mt = re.match(r"^\((\w+) == (.*)\)$", ev.a or "") if ev.kind == "cond" else None
                if not mt or "next" not in (ev.a or "") and "check_for_close_paren" not in sm.conds.__repr__():
                    continue
                defs = {}
                for e2 in p.events[:i_]:
                    if e2.kind == "let" and re.match(r"^(mut )?\w+$", e2.a or ""):
                        defs[e2.a.replace("mut ", "")] = e2.b or ""
                    elif e2.kind == "assign" and e2.b == "=" and re.match(r"^\w+$", e2.a or ""):
                        defs[e2.a] = e2.c or ""
                sides = [mt.group(1), mt.group(2)]
                if not all(re.match(r"^\w+$", x_) is None or x_ in defs for x_ in sides):
                    continue
                triv = ["optional_whitespace(" in (x_ + " " + defs.get(x_, "")) for x_ in sides]
                posish = all(("optional_whitespace(" in (x_ + defs.get(x_, "")) or "check_for_close_paren(" in (x_ + defs.get(x_, "")) or "parse_branch(" in defs.get(x_, "")) for x_ in sides)
                if posish and triv[0] != triv[1]:
                    run.violation(fam, label, "trivia-asymmetric", w, "parse_conditional decides `no branch follows the condition` by comparing %s (taken %s skipping comments / free-spacing blanks) with %s (taken %s): a comment or a blank after the condition turns the bare group test `(?(N))`, which fails for an unset group, into a conditional with two empty branches, which always continues" % (sides[0], "after" if triv[0] else "without", sides[1], "after" if triv[1] else "without"))
                    break
        m = H.pat_match("Ok(({*a},Expr::BackrefExistsCondition({g})))", val)
        if m:
            # the bare test: only when nothing at all follows the condition
            eqs = [(t, tr) for t, tr, _, _ in sm.conds if re.match(r"^\(.* == .*\)$", t) and "check_for_close_paren(" in t]
            if G is None or m.group("g") != G or not eqs or not eqs[-1][1]:
                run.violation(fam, label, "bare-test", w, "parse_conditional returns the bare group test %s on a path where the construct is not `(?(N))` with nothing after the condition (a `|` or a branch makes it a conditional that continues either way)" % val[:80])
            else:
                kinds["bare"] += 1
            continue
        m = H.pat_match("Ok(({*a},Expr::Conditional{condition:Box::new({*c}),false_branch:Box::new({*f}),true_branch:Box::new({*t})}))", val)
        if not m:
            run.violation(fam, label, "result-shape", w, "parse_conditional returns %s: with a branch or a `|` present the result must be Conditional{condition, true_branch: text up to the first top-level `|`, false_branch: the rest or Empty}; reducing `(?(c)|)` to the bare condition makes it fail where it must continue" % val[:120])
            continue
        C_, F_, T_ = m.group("c"), m.group("f"), m.group("t")
        want_c = ("Expr::BackrefExistsCondition(%s)" % G) if G else None
        if (G and C_ != want_c) or (not G and ("BackrefExistsCondition" in C_ or "Backref(" in C_)):
            run.violation(fam, label, "group-condition", w, "parse_conditional: a group-number / name condition must become BackrefExistsCondition(group), any other condition is kept as an expression (found %s)" % C_)
        if T is None or T_ != T:
            run.violation(fam, label, "true-branch", w, "parse_conditional: the true branch is what parse_branch reads up to the first top-level `|` (found %s)" % T_)
        if has_bar:
            if FB is None or F_ != FB:
                run.violation(fam, label, "false-branch", w, "parse_conditional: everything after the first top-level `|` (parse_re, possibly a further alternation) is the false branch (found %s)" % F_)
            kinds["cond-else"] += 1
        else:
            if F_ != "Expr::Empty":
                run.violation(fam, label, "false-default", w, "parse_conditional: an absent false branch must be Expr::Empty (found %s)" % F_)
            kinds["cond"] += 1
    for k_, v_ in kinds.items():
        if v_ < 1:
            run.violation(fam, label, "anchor-missing/" + k_, w, "anchor-missing: parse_conditional has no path of kind %s (%s)" % (k_, kinds))
    run.ok(fam, label, w, n, "first alternative = true branch, rest = false branch (Empty if absent), only `(?(N))` alone = BackrefExistsCondition; %s" % kinds)


WS_SITES = {
    # function: (minimum number of skip sites, what each one makes insignificant)
    "check_for_close_paren": (1, "whitespace / comments before a closing parenthesis (after a back-reference condition nothing else skips them)"),
    "parse_atom": (1, "whitespace / comments before an atom"),
    "parse_flags": (1, "whitespace between flag letters"),
    "parse_group": (1, "whitespace / comments right after an opening parenthesis"),
    "parse_piece": (2, "whitespace between an atom and its quantifier, and between the quantifier and a lazy `?` / possessive `+`"),
    "parse_re": (2, "whitespace before `|` and after each alternative"),
    "parse_repeat": (4, "whitespace inside `{ n , m }`"),
}


def whitespace_sites(run, ctx):
    """Free-spacing whitespace and (?#..) comments are skipped at every token boundary (C19)."""
    fam, label = "PARSE", "whitespace-sites"
    n = 0
    for name, (floor, what) in WS_SITES.items():
        fn = _fn(run, ctx, name, fam, label)
        if fn is None:
            continue
        calls = [nd for nd in H.walk(fn["body"]) if nd.get("k") == "MethodCall" and nd["name"] == "optional_whitespace"]
        n += len(calls)
        if len(calls) < floor:
            run.violation(fam, label, "%s/count" % name, H.where(fn),
                          "%s skips whitespace/comments at %d site(s), %d were confirmed as token boundaries: %s would become significant under (?x) or with a (?#..) comment" % (name, len(calls), floor, what))
    # the two entry skips happen before anything is examined
    for name in ("check_for_close_paren", "parse_atom"):
        fn = _fn(run, ctx, name, fam, label)
        if fn is None:
            continue
        st = fn["body"].get("stmts", [])
        IX = fn["params"][1].get("name")
        c0 = H.canon(st[0]) if st else ""
        if not H.pat_match("let {ix} = self.optional_whitespace(%s)?" % IX, c0):
            run.violation(fam, label, "%s/first" % name, H.where(fn), "%s must skip whitespace/comments before looking at the next byte (first statement is `%s`)" % (name, c0[:80]))
    ow = _fn(run, ctx, "optional_whitespace", fam, label)
    if ow is not None:
        co = H.canon(ow["body"])
        if not H.find_pat(co, "b'(' if {b}[{ix}..].starts_with(\"(?#\") =>"):
            run.violation(fam, label, "comment-group", H.where(ow), "(?#...) comments are skipped in every mode; shape not found")
    run.ok(fam, label, "src/parse.rs", n, "%d whitespace/comment skip sites at the confirmed token boundaries" % n)


def whitespace_advance(run, ctx):
    """C06: optional_whitespace guards `bytes[ix]` with an EQUALITY test against the length, which protects the access
    only if no advance of the index can step past the end.  Every `ix += R` is therefore matched against the bytes
    that were examined before it (seed C06-r6-1: `ix += position(..).unwrap_or(rest.len()) + 1` steps to len + 1 on
    an unterminated trailing `#` comment and the next `bytes[ix]` panics).  If every loop of the function tests
    `ix >= len` instead, overshooting is harmless and nothing more is demanded."""
    import re as _re
    fam, label = "PARSE", "whitespace-advance"
    fn = _fn(run, ctx, "optional_whitespace", fam, label)
    if fn is None:
        return
    IX = fn["params"][1].get("name")
    LEN = "len(self.re)"
    loops = []      # (loop node, guard kind)
    adv = []        # (node, ancestors)

    def rec(n, anc):
        if isinstance(n, dict):
            k = n.get("k")
            if k == "Loop":
                loops.append(n)
            if k == "AssignOp" and H.canon(n["l"]) == IX:
                adv.append((n, list(anc)))
            if k == "Assign" and H.canon(n["l"]) == IX:
                adv.append((n, list(anc)))
            anc.append(n)
            if k == "Match":
                rec(n["scrut"], anc)
                for a in n["arms"]:
                    anc.append({"k": "_Arm", "arm": a, "match": n})
                    rec(a.get("guard"), anc)
                    rec(a["body"], anc)
                    anc.pop()
            elif k == "If":
                rec(n["cond"], anc)
                anc.append({"k": "_Then", "cond": n["cond"]})
                rec(n.get("then"), anc)
                anc.pop()
                anc.append({"k": "_Else", "cond": n["cond"]})
                rec(n.get("else") or n.get("els"), anc)
                anc.pop()
            else:
                for key, v in n.items():
                    if key not in ("span", "ty"):
                        rec(v, anc)
            anc.pop()
        elif isinstance(n, list):
            for v in n:
                rec(v, anc)
    rec(fn["body"], [])
    if not loops:
        run.violation(fam, label, "anchor-missing/loop", H.where(fn), "anchor-missing: optional_whitespace has no loop")
        return

    def guard_kind(lp):
        st = lp["body"].get("stmts", [])
        c0 = H.canon(st[0]) if st else H.canon(lp["body"].get("expr") or {})
        if c0.startswith("if (%s <= %s) {return" % (LEN, IX)):
            return "ge"
        if c0.startswith("if (%s == %s) {return" % (IX, LEN)) or c0.startswith("if (%s == %s) {return" % (LEN, IX)):
            return "eq"
        return None
    kinds = [guard_kind(lp) for lp in loops]
    if any(k is None for k in kinds):
        run.violation(fam, label, "no-guard", H.where(fn), "every loop of optional_whitespace must begin by comparing the index with the pattern length and returning before `bytes[ix]` is read (found %s)" % kinds)
        return
    if all(k == "ge" for k in kinds):
        run.ok(fam, label, H.where(fn), len(loops), "every loop tests `ix >= len` before the byte access")
        return
    per_arm = {}
    for nd, anc in adv:
        # ancestors up to the nearest enclosing loop
        li = max(i for i, a in enumerate(anc) if a.get("k") == "Loop") if any(a.get("k") == "Loop" for a in anc) else -1
        inner = anc[li + 1:]
        arms = [a for a in inner if a.get("k") == "_Arm"]
        R = H.canon(nd["r"]) if nd["k"] == "AssignOp" else None
        op = nd.get("op", "")
        why = None
        if nd["k"] == "AssignOp" and "Add" in op:
            examined = any(H.pat_match("{b}[%s]" % IX, H.canon(a["match"]["scrut"])) for a in arms)
            if R == "1" and examined:
                why = "one byte examined"
            m = _re.fullmatch(r"\d+", R or "")
            if why is None and m and int(R) >= 1:
                N = int(R)
                for a in arms:
                    g = H.canon(a["arm"].get("guard") or {}) if a["arm"].get("guard") else ""
                    ms = _re.search(r'\[%s\.\.\]\.starts_with\("((?:[^"\\]|\\.)*)"\)' % _re.escape(IX), g)
                    if ms and len(ms.group(1)) >= N and "\\" not in ms.group(1):
                        why = "%d-byte prefix tested" % N
                    if N >= 2 and "((%d + %s) < %s)" % (N - 1, IX, LEN) in g and examined:
                        why = "ix + %d < len tested" % (N - 1)
                for t in inner:
                    if t.get("k") == "_Then" and N >= 2 and examined and "((%d + %s) < %s)" % (N - 1, IX, LEN) in H.canon(t["cond"]):
                        why = "ix + %d < len tested" % (N - 1)
            if why is None:
                for a in arms:
                    pt = a["arm"]["pat"]
                    xs = [q.get("name") for q in pt.get("pats", [])] if pt.get("k") == "TupleStructPat" and pt.get("variant") == "Some" else []
                    sc = H.canon(a["match"]["scrut"])
                    if len(xs) == 1 and xs[0] and R in ("(1 + %s)" % xs[0], xs[0]) and _re.match(r"\w+\[%s\.\.\]\.iter\(\)\.position\(" % _re.escape(IX), sc):
                        why = "offset of a byte found in bytes[ix..]"
        if why is None and nd["k"] == "AssignOp" and "Add" in op:
            # let-else form: `let Some(x) = bytes[ix..].iter().position(..) else { return .. }; ix += x + 1`
            for blk in inner:
                if blk.get("k") != "Block":
                    continue
                for st in blk.get("stmts", []):
                    pt = st.get("pat") or {}
                    if st.get("k") == "Let" and pt.get("k") == "TupleStructPat" and pt.get("variant") == "Some" and len(pt.get("pats", [])) == 1:
                        x = pt["pats"][0].get("name")
                        if x and R in ("(1 + %s)" % x, x) and _re.match(r"\w+\[%s\.\.\]\.iter\(\)\.position\(" % _re.escape(IX), H.canon(st.get("init") or {})):
                            why = "offset of a byte found in bytes[ix..] (let-else)"
        if why is None:
            run.violation(fam, label, "advance", H.where(nd), "optional_whitespace advances its index by `%s` without having examined that many bytes; the loop guards `bytes[%s]` only with `%s == len`, so an index past the end panics (compile must not panic on any pattern)" % (H.canon(nd)[:100], IX, IX))
            continue
        key = (id(anc[li]) if li >= 0 else 0, id(arms[-1]["arm"]) if arms else 0, tuple((t["k"], id(t["cond"])) for t in inner if t.get("k") in ("_Then", "_Else")))
        per_arm[key] = per_arm.get(key, 0) + 1
    for key, c in per_arm.items():
        if c > 1:
            run.violation(fam, label, "advance-twice", H.where(fn), "two advances of the index on one arm of one loop iteration: the second is not covered by the bytes examined")
    if len(adv) < 3:
        run.violation(fam, label, "anchor-missing/advances", H.where(fn), "anchor-missing: expected at least 3 index advances in optional_whitespace, found %d" % len(adv))
    run.ok(fam, label, H.where(fn), len(adv), "every index advance is covered by bytes examined in the same iteration (equality guard before bytes[ix])")
