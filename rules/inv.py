#!/usr/bin/env python3
import sys, os, time, json
sys.path.insert(0, os.path.dirname(__file__))
from facts import get_facts, strip_generics
import mirlib as M, panics as P
facts, info = get_facts()
cg = M.CallGraph(facts)
which = sys.argv[1] if len(sys.argv)>1 else "all"
fns = set(cg.bodies) if which=="all" else cg.reachable([p for p in cg.bodies if strip_generics(p).endswith(which)])
sites = P.inventory(cg, fns)
pfs = {}
for s in sites:
    pf = pfs.setdefault(s.fn, M.PointFacts(s.body))
    P.try_prove(s, pf)
print("sites", len(sites), "proved", sum(1 for s in sites if s.proved))
if "--groups" in sys.argv:
    g={}
    for s in sites:
        if s.proved: continue
        k=(strip_generics(s.fn), s.kind, M.show(s.ops[0]) if s.ops and "index" in s.kind else "")
        g.setdefault(k,[]).append(s)
    for k,v in sorted(g.items()):
        print(json.dumps({"fn":k[0],"kind":k[1],"base":k[2],"count":len(v),"proved":sorted(set(sum((s.proved_obls for s in v),[]))),"lines":[s.line for s in v],"ops":[s.opstr()[:60] for s in v][:3]}))
else:
    cur=None
    for s in sites:
        if s.fn!=cur:
            cur=s.fn; print("==", strip_generics(s.fn))
        print("  %s %-18s %-5s %s  [un:%s pr:%s] %s" % (s.where(), s.kind, "OK" if s.proved else "--", s.opstr()[:110], ",".join(s.unproved_obls), ",".join(s.proved_obls), ("exp="+",".join(s.exp)) if s.exp else ""))
