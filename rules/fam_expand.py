"""Template expansion rules (C12, narrow): writers agree, check() obligations, Expander constructors."""
import re

import hirlib as H
import shape as S
from facts import strip_generics

W_FMT = re.compile(r'dst\.write_fmt\(let args = \((\w+)\); let args = \[Argument::new_display\(args\.0\)\]; Arguments::new\(".*?",args\)\)', re.S)
W_VEC = re.compile(r"Ok\(dst\.extend\((\w+)(?:\.to_string\(\))?\)\)")


def writers_agree(run, ctx):
    fam, label = "EXPAND", "writers"
    a = S.find_fn(ctx, "expand::Expander::write_expansion")
    b = S.find_fn(ctx, "expand::Expander::write_expansion_vec")
    if not b:
        run.violation(fam, label, "anchor-missing/vec", "src/expand.rs", "anchor-missing: Expander::write_expansion_vec")
        return
    cb = W_VEC.sub(lambda m: "W(%s)" % m.group(1), H.canon(b[0]["body"]))
    want = ("self.exec({t},|{st}| match {st} {Step::Char({c}) => W({c}); "
            "Step::GroupName({nm}) => if let Some({m}) = {caps}.name({nm}) {W({m})} else {if let Some({m2}) = {nm}.parse().ok().and_then(|{k}| {caps}.get({k})) {W({m2})} else {Ok(())}}; "
            "Step::GroupNum({num}) => if let Some({m3}) = {caps}.get({num}) {W({m3})} else {Ok(())}; Step::Error => Ok(())})")
    n = 1
    if not H.pat_match(want, cb):
        run.violation(fam, label, "vec-shape", H.where(b[0]), "write_expansion_vec: `$name` inserts the named group (or, failing that, the group whose number the name spells), `$N` the numbered group, absent groups nothing, a malformed reference nothing beyond the literal `$`; found %s" % cb[:300])
    if a:
        ca = W_FMT.sub(lambda m: "W(%s)" % m.group(1), H.canon(a[0]["body"]))
        n += 1
        if not H.pat_match(want, ca):
            run.violation(fam, label, "std-vs-vec", H.where(a[0]), "write_expansion (std) and write_expansion_vec (no-std) differ beyond the write primitive: %s  vs  %s" % (ca[:200], cb[:200]))
    # expansion / append_expansion use them
    for name in ("expand::Expander::expansion", "expand::Expander::append_expansion"):
        fn = S.get_fn(run, ctx, name, fam, label)
        if fn is None:
            continue
        c = H.canon(fn["body"])
        n += 1
        if not re.search(r"self\.write_expansion(_vec)?\(cursor,template,captures\)\.expect\(", c):
            run.violation(fam, label, name, H.where(fn), "%s must expand through write_expansion(_vec)(cursor, template, captures), found %s" % (name, c[:160]))
    fn = S.get_fn(run, ctx, "Captures::expand", fam, label)
    if fn is not None:
        c = H.canon(H.peel(fn["body"]))
        n += 1
        if c not in ("Expander::default().append_expansion(dst,replacement,self)", "<Expander as Default>::default().append_expansion(dst,replacement,self)", "Default::default().append_expansion(dst,replacement,self)"):
            run.violation(fam, label, "Captures::expand", H.where(fn), "Captures::expand must use the default ($-syntax) expander, found %s" % c)
    run.ok(fam, label, "src/expand.rs", n, "std / no-std writers identical modulo the write primitive; expansion entry points route through them")


def check_rule(run, ctx):
    fam, label = "EXPAND", "check"
    fn = S.get_fn(run, ctx, "expand::Expander::check", fam, label)
    if fn is None:
        return
    c = H.canon(fn["body"])
    ps = [p.get("name") for p in fn["params"]]
    T, R = ps[1], ps[2]
    want_num = ("let {ogn} = |{num}| if (0 == {num}) {Ok(())} else {if !%s.named_groups.is_empty() {Err(Error::CompileError(CompileError::NamedBackrefOnly))} "
                "else {if ({num} < %s.captures_len()) {Ok(())} else {Err(Error::CompileError(CompileError::InvalidBackref))}}}" % (R, R))
    n = 0
    n += 1
    mnum = H.find_pat(c, want_num)
    OGN = mnum.group("ogn") if mnum else "on_group_num"
    if not mnum:
        run.violation(fam, label, "group-num", H.where(fn), "Expander::check: a numeric reference is acceptable only if it is 0, or the regex has no named groups and the number is below captures_len(); shape not found in %s" % c[:260])
    want_exec = ("self.exec(%s,|{st}| match {st} {Step::Char(_) => Ok(()); "
                 "Step::GroupName({nm}) => if %s.named_groups.contains_key({nm}) {Ok(())} else {if let Ok({k}) = {nm}.parse() {%s({k})} else {Err(Error::CompileError(CompileError::InvalidBackref))}}; "
                 "Step::GroupNum({k2}) => %s({k2}); Step::Error => Err(" % (T, R, OGN, OGN))
    n += 1
    if not H.find_pat(c, want_exec):
        run.violation(fam, label, "steps", H.where(fn), "Expander::check: every step kind must be judged (named reference must exist or be a valid number; malformed reference is an error); shape not found in %s" % c[:400])
    run.ok(fam, label, H.where(fn), n, "numeric reference: 0 | (no named groups & < captures_len); named reference must exist; malformed => Err")


def constructors(run, ctx):
    fam, label = "EXPAND", "constructors"
    sites = []
    for path, fn in ctx.facts.hir.items():
        for nd in H.walk(fn["body"]):
            if nd.get("k") == "Struct" and nd.get("adt", "").endswith("expand::Expander"):
                sites.append((strip_generics(path), nd))
    allowed = {"<expand::Expander as Default>::default", "expand::Expander::python"}
    n = 0
    for sp, nd in sites:
        n += 1
        if sp not in allowed:
            run.violation(fam, label, "site/" + sp, H.where(nd), "Expander is constructed in %s; only default() and python() may (the scanner relies on a one-byte substitution character and non-empty delimiters)" % sp)
        f = {x["name"]: H.peel(x["e"]) for x in nd["fields"]}
        sc = f.get("sub_char", {})
        if sc.get("k") != "Lit" or sc["lit"]["t"] != "char" or sc["lit"]["v"] > 127:
            run.violation(fam, label, "sub_char/" + sp, H.where(nd), "Expander.sub_char must be an ASCII character literal (the scanner skips exactly one byte after a doubled substitution character), found %s" % H.canon(sc))
        for d in ("open", "close"):
            dv = f.get(d, {})
            if dv.get("k") != "Lit" or dv["lit"]["t"] != "str" or not dv["lit"]["v"]:
                run.violation(fam, label, "%s/%s" % (d, sp), H.where(nd), "Expander.%s must be a non-empty string literal" % d)
    run.floor(fam, label, "src/expand.rs", len(sites), 2, "Expander constructions")
    run.ok(fam, label, "src/expand.rs", n, "Expander built only in default()/python() with ASCII sub_char and non-empty delimiters")


def scanner_shape(run, ctx):
    """Key steps of Expander::exec (necessary conditions; the scanner's string semantics are not decided)."""
    fam, label = "EXPAND", "exec"
    fn = S.get_fn(run, ctx, "expand::Expander::exec", fam, label)
    if fn is None:
        return
    c = H.canon(fn["body"])
    ps = [p.get("name") for p in fn["params"]]
    T, F = ps[1], ps[2]
    n = 0

    def need(s, key, what):
        nonlocal n
        n += 1
        if not H.find_pat(c, s):
            run.violation(fam, label, key, H.where(fn), "Expander::exec: %s; `%s` not found in %s" % (what, s, c[:200]))
    whole = ("let {it} = %s.chars(); while let Some({c}) = {it}.next() {if ({c} == self.sub_char) {let {tail} = {it}; "
             "let {skip} = if {tail}.starts_with(self.sub_char) {%s(Step::Char(self.sub_char))?; 1} "
             "else {if let Some(({id},{sk1})) = parse_id({tail},self.open,self.close,false).or_else(|| if self.allow_undelimited_name {parse_id({tail},\"\",\"\",false)} else {None}) {%s(Step::GroupName({id}))?; {sk1}} "
             "else {if let Some(({sk2},{num})) = parse_decimal({tail},0) {%s(Step::GroupNum({num}))?; {sk2}} "
             "else {%s(Step::Error)?; %s(Step::Char(self.sub_char))?; 0}}}; "
             "{it} = {it}[{skip}..].chars()} else {%s(Step::Char({c}))?}}; Ok(())") % (T, F, F, F, F, F, F)
    need(whole, "scanner", "the template is scanned char by char; at the substitution character the alternatives are tried in the documented order (doubled character -> one literal char and skip exactly 1 byte; delimited name, then if allowed the longest undelimited identifier; decimal group number; otherwise the character is copied verbatim after reporting the malformed reference) and scanning resumes `skip` bytes into the tail")
    es = S.get_fn(run, ctx, "expand::Expander::escape", fam, label)
    if es is not None:
        ce = H.canon(es["body"])
        X = es["params"][1].get("name")
        n += 1
        want = "if %s.contains(self.sub_char) {let quoted = String::with_capacity((2 * self.sub_char.len_utf8())); quoted.push(self.sub_char); quoted.push(self.sub_char); Cow::Owned(%s.replace(self.sub_char,quoted))} else {Cow::Borrowed(%s)}" % (X, X, X)
        if ce.replace("let mut quoted", "let quoted") != want:
            run.violation(fam, label, "escape", H.where(es), "Expander::escape must double every substitution character (the inverse of the `doubled` scanner case) and borrow otherwise, found %s" % ce[:200])
    run.ok(fam, label, H.where(fn), n, "scanner alternatives in documented order; escape doubles sub_char")


def id_char_rule(run, ctx):
    fam, label = "EXPAND", "id-char"
    fn = S.get_fn(run, ctx, "parse::is_id_char", fam, label)
    if fn is None:
        return
    c = H.canon(H.peel(fn["body"]))
    P = fn["params"][0].get("name")
    if c not in ("(%s.is_alphanumeric() || ('_' == %s))" % (P, P), "(('_' == %s) || %s.is_alphanumeric())" % (P, P)):
        run.violation(fam, label, "shape", H.where(fn), "identifier characters are the (Unicode) alphanumerics and `_` -- group names, `$name` and `${name}` are scanned with this predicate (longest identifier); found %s" % c)
    else:
        run.ok(fam, label, H.where(fn), 1, c)
