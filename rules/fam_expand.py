"""Template expansion rules (C12, narrow): writers agree, check() obligations, Expander constructors."""
import re

import hirlib as H
import shape as S
from facts import strip_generics

W_FMT = re.compile(r'dst\.write_fmt\(let args = \((\w+)\); let args = \[Argument::new_display\(args\.0\)\]; Arguments::new\(".*?",args\)\)', re.S)
W_VEC = re.compile(r"Ok\(dst\.extend\((\w+)(?:\.to_string\(\))?\)\)")
W_VEC_IN = re.compile(r"^dst\.extend\((\w+)(?:\.to_string\(\)|\.encode_utf8\([^()]*\))?\)$")
W_FMT_IN = re.compile(r'^dst\.write_fmt\(let args = \((\w+)\); let args = \[Argument::new_display\(args\.0\)\]; Arguments::new\(".*?",args\)\)$', re.S)


def _step_arms(fn):
    """{Step variant: (bound pattern text, arm body node)} of the closure handed to self.exec(..) in fn."""
    for nd in H.walk(fn["body"]):
        if nd.get("k") == "Match":
            arms = {}
            for a in nd["arms"]:
                for v in H.arm_variants(a, "Step"):
                    arms[v] = (H.pat_canon(a["pat"]), a)
            if len(arms) >= 3:
                return arms
    return {}


def _step_closure(fn):
    """Body of the closure that contains the match on Step (the closure handed to self.exec)."""
    for nd in H.walk(fn["body"]):
        if nd.get("k") == "Closure":
            for m_ in H.walk(nd["body"]):
                if m_.get("k") == "Match" and sum(len(H.arm_variants(a, "Step")) for a in m_["arms"]) >= 3:
                    return nd["body"]
    return None


def _opt_paths(ctx_paths, scrut_pat):
    return None


def writers_agree(run, ctx):
    fam, label = "EXPAND", "writers"
    a = S.find_fn(ctx, "expand::Expander::write_expansion")
    b = S.find_fn(ctx, "expand::Expander::write_expansion_vec")
    if not b:
        run.violation(fam, label, "anchor-missing/vec", "src/expand.rs", "anchor-missing: Expander::write_expansion_vec")
        return
    n = 1
    what = "`$name` inserts the named group (or, failing that, the group whose number the name spells), `$N` the numbered group, absent groups nothing, a malformed reference nothing beyond the literal `$`"

    def outcomes(fn, wrx):
        """per Step variant: set of (decisions, written value) over the paths of its arm; W(x) = the write primitive"""
        arms = _step_arms(fn)
        out = {}
        clo = _step_closure(fn)
        for v, (pat, arm) in arms.items():
            res = set()
            # paths of the whole closure that go through this arm: what the arm hands to a common tail after the
            # match (`let group = match step {..}; match group {..}`) belongs to it
            if clo is not None:
                arm_paths = [p for p in S.paths_of(clo, combinators=True) if any(ev.kind == "arm" and ev.node is arm for ev in p.events)]
            else:
                arm_paths = S.paths_of(arm["body"], combinators=True)
            for p in arm_paths:
                if p.exit == "try-err":
                    continue
                # what is written on this path (the write primitive applied to ..), wherever the value goes
                inner = W_VEC_IN if wrx is W_VEC else W_FMT_IN
                plain = {ev.a: ev.b for ev in p.events if ev.kind == "let" and re.match(r"^\w+$", ev.a or "") and re.match(r"^\w+(\.to_string\(\))?$", ev.b or "")}
                writes = []
                for ev in p.events:
                    if ev.kind == "call":
                        ta = H.subst_lets(ev.a or "", plain)        # (the written value may have gone through a helper's parameter)
                        if inner.match(ta):
                            writes.append("W(%s)" % inner.match(ta).group(1))
                val = "Err" if (p.val or "").startswith("Err(") else "-"
                dec = []
                feasible_ = True
                known = {}
                lets_ = {}
                aliases = {}
                for i_, kind, bound in S.opt_outcomes(p, "{*x}"):
                    ev = p.events[i_]
                    scr = ev.b if ev.kind in ("letcond", "let", "let-else") else ev.a
                    # a named temporary holding an Option reads through to what it was computed from on this path
                    for e2 in p.events[:i_]:
                        if e2.kind == "let" and re.match(r"^\w+$", e2.a or "") and e2.b is not None:
                            lets_[e2.a] = e2.b
                    if scr in lets_:
                        scr = H.subst_lets(scr, lets_)
                    scr = re.sub(r"\.ok\(\)$", "", scr or "")      # Ok(x) / Err of a Result is the same decision as Some(x) / None of its .ok()
                    bnd = re.sub(r"^\w+\((\w+)\)$", r"\1", bound or "")
                    if scr == "None" or (scr or "").startswith("Some("):
                        # a literal decides itself
                        if (scr == "None") != (kind == "none"):
                            feasible_ = False
                        continue
                    if scr in known:
                        if known[scr] != kind:
                            feasible_ = False      # the same Option cannot be Some and None on one path
                        else:
                            aliases.setdefault(scr, []).append(bnd)   # decided before: another name for the same payload
                        continue
                    known[scr] = kind
                    dec.append((scr, kind, bnd))
                if not feasible_:
                    continue
                # name the bound variables positionally
                names = {}
                for di, (scr_, _, bnd) in enumerate(dec):
                    for b_ in [bnd] + aliases.get(scr_, []):
                        if re.match(r"^\w+$", b_ or ""):
                            names[b_] = "m%d" % di
                pm = re.match(r"^Step::\w+\((\w+)\)$", pat)
                if pm:
                    names[pm.group(1)] = "ARG"
                ren = lambda t: re.sub(r"(?<![.\w])(%s)(?![\w(])" % "|".join(map(re.escape, names)), lambda m: names[m.group(1)], t) if names else t
                res.add((tuple((ren(s_ or ""), k_) for s_, k_, _ in dec), val, tuple(ren(w_) for w_ in writes)))
            out[v] = res
        return out

    want = {
        "Char": {((), "-", ("W(ARG)",))},
        "Error": {((), "-", ())},
        "GroupNum": {((("captures.get(ARG)", "some"),), "-", ("W(m0)",)), ((("captures.get(ARG)", "none"),), "-", ())},
        "GroupName": {((("captures.name(ARG)", "some"),), "-", ("W(m0)",)),
                      ((("captures.name(ARG)", "none"), ("ARG.parse()", "some"), ("captures.get(m1)", "some")), "-", ("W(m2)",)),
                      ((("captures.name(ARG)", "none"), ("ARG.parse()", "some"), ("captures.get(m1)", "none")), "-", ()),
                      ((("captures.name(ARG)", "none"), ("ARG.parse()", "none")), "-", ())},
    }

    def norm_clo(o):
        return o
    ob = norm_clo(outcomes(b[0], W_VEC))
    if ob != want:
        run.violation(fam, label, "vec-shape", H.where(b[0]), "write_expansion_vec: %s; found %s" % (what, {k: sorted(v) for k, v in ob.items() if want.get(k) != v} or ob))
    if a:
        n += 1
        oa = norm_clo(outcomes(a[0], W_FMT))
        if oa != ob:
            diff = sorted(k for k in set(oa) | set(ob) if oa.get(k) != ob.get(k))
            run.violation(fam, label, "std-vs-vec", H.where(a[0]), "write_expansion (std) and write_expansion_vec (no-std) differ beyond the write primitive in the step kind(s) %s: %s  vs  %s" % (diff, [sorted(oa.get(k, [])) for k in diff], [sorted(ob.get(k, [])) for k in diff]))
    # expansion / append_expansion use them
    for name in ("expand::Expander::expansion", "expand::Expander::append_expansion"):
        fn = S.get_fn(run, ctx, name, fam, label)
        if fn is None:
            continue
        c = H.canon(fn["body"])
        n += 1
        delegates = name.endswith("::expansion") and re.search(r"self\.append_expansion\((\w+),template,captures\)", c) is not None
        ps_ = [p_.get("name") for p_ in fn["params"]]
        T_, C_ = (ps_[1], ps_[2]) if name.endswith("::expansion") and len(ps_) >= 3 else ((ps_[2], ps_[3]) if len(ps_) >= 4 else ("template", "captures"))
        mw = re.search(r"self\.write_expansion(?:_vec)?\((\w+),%s,%s\)\.expect\(" % (re.escape(T_), re.escape(C_)), c)
        # the buffer (whatever it is called) must be the one the result is built from
        buf_ok = bool(mw) and re.search(r"String::from_utf8\(%s\)" % re.escape(mw.group(1)), c) is not None
        if not delegates and not buf_ok:
            run.violation(fam, label, name, H.where(fn), "%s must expand through write_expansion(_vec)(cursor, template, captures), found %s" % (name, c[:160]))
        # ... on every path: a shortcut that copies the template (or anything else) without scanning it with this
        # expander's own syntax makes the entry points disagree (e.g. a `$`-only test in front of the Python expander)
        for p in S.paths_of(fn["body"]):
            if p.exit in ("fall", "return") and not any(ev.kind == "call" and re.match(r"^self\.(write_expansion(_vec)?|append_expansion)\(", ev.a or "") for ev in p.events):
                run.violation(fam, label, name + "/shortcut", H.where(fn), "%s has a path that produces its result without write_expansion(_vec): %s" % (name, p.show()[:160]))
                break
    fn = S.get_fn(run, ctx, "Captures::expand", fam, label)
    if fn is not None:
        c = H.canon(H.peel(fn["body"]))
        n += 1
        if c not in ("Expander::default().append_expansion(dst,replacement,self)", "<Expander as Default>::default().append_expansion(dst,replacement,self)", "Default::default().append_expansion(dst,replacement,self)"):
            run.violation(fam, label, "Captures::expand", H.where(fn), "Captures::expand must use the default ($-syntax) expander, found %s" % c)
    run.ok(fam, label, "src/expand.rs", n, "std / no-std writers identical modulo the write primitive; expansion entry points route through them")


def check_rule(run, ctx):
    fam, label = "EXPAND", "check"
    fn = S.get_fn(run, ctx, "expand::Expander::check", fam, label)
    if fn is None:
        return
    c = H.canon(fn["body"])
    ps = [p.get("name") for p in fn["params"]]
    T, R = ps[1], ps[2]
    n = 0
    # every step kind judged, arm by arm, path by path; the numeric judgement (shared closure, helper or written
    # out) is decided under sample valuations of (number, named groups present, number of groups)
    arms = _step_arms(fn)
    n += 2
    bad = None
    EMPTY = "%s.named_groups.is_empty()" % R
    LEN = "%s.captures_len()" % R

    def judge_number(paths, NUM, what, extra=None):
        for num_ in (0, 1, 2, 3, 7):
            for empty_ in (True, False):
                for len_ in (1, 2, 3, 8):
                    vals = {NUM: num_, EMPTY: empty_, LEN: len_}
                    vals.update(extra or {})
                    feas = [p for p in paths if S.consistent(p, vals) is not False]
                    sure = [p for p in feas if S.consistent(p, vals) is True]
                    if len(feas) != 1 or len(sure) != 1:
                        return "%s: the judgement of number %d (named groups %s, %d groups) is not decided by one path (%d candidates)" % (what, num_, "absent" if empty_ else "present", len_, len(feas))
                    got = S.Summary(feas[0]).val or feas[0].val or ""
                    if num_ == 0 or (empty_ and num_ < len_):
                        ok_ = got == "Ok(())"
                        want_ = "Ok(())"
                    elif not empty_:
                        ok_ = got.startswith("Err(") and "Error::CompileError(" in got and "NamedBackrefOnly" in got
                        want_ = "Err(CompileError(NamedBackrefOnly))"
                    else:
                        ok_ = got.startswith("Err(") and "Error::CompileError(" in got and "InvalidBackref" in got
                        want_ = "Err(CompileError(InvalidBackref))"
                    if not ok_:
                        return "%s: number %d with named groups %s and %d groups must be judged %s, found %s" % (what, num_, "absent" if empty_ else "present", len_, want_, got)
        return None
    for v in ("Char", "GroupName", "GroupNum", "Error"):
        if v not in arms:
            bad = "no arm for Step::%s" % v
            break
        pat, arm = arms[v]
        pm = re.match(r"^Step::\w+\((\w+)\)$", pat)
        ARG = pm.group(1) if pm else None
        paths = [p for p in S.paths_of(arm["body"], combinators=True, scope=fn["body"]) if p.exit != "try-err"]
        if v == "GroupNum":
            bad = judge_number(paths, ARG, "Step::GroupNum")
            if bad:
                break
            continue
        numeric = {}
        for p in paths:
            val = p.val or ""
            if v == "Char":
                ok = val == "Ok(())"
            elif v == "Error":
                ok = val.startswith("Err(")
            else:
                known = [ev.b for ev in p.events if ev.kind == "cond" and ev.a == "%s.named_groups.contains_key(%s)" % (R, ARG)]
                num = S.opt_outcomes(p, "%s.parse()" % ARG)
                if known and known[-1]:
                    ok = val == "Ok(())"
                elif known and num and num[-1][1] == "some":
                    k_ = re.sub(r"^\w+\((\w+)\)$", r"\1", num[-1][2] or "")
                    numeric.setdefault(k_, []).append(p)
                    ok = True
                elif known and num and num[-1][1] == "none":
                    ok = val.startswith("Err(") and "InvalidBackref" in val
                else:
                    ok = False
            if not ok:
                bad = "Step::%s: %s" % (v, p.show()[:200])
                break
        if not bad and v == "GroupName":
            if len(numeric) != 1:
                bad = "Step::GroupName: a name that is not a group name must be judged as a number when it parses as one (found %s)" % sorted(numeric)
            else:
                k_, ps_ = list(numeric.items())[0]
                bad = judge_number(ps_, k_, "Step::GroupName spelled as a number", {"%s.named_groups.contains_key(%s)" % (R, ARG): False})
        if bad:
            break
    if bad:
        run.violation(fam, label, "steps", H.where(fn), "Expander::check: every step kind must be judged (a numeric reference is acceptable only if it is 0, or the regex has no named groups and the number is below captures_len(); a named reference must exist or be a valid number; a malformed reference is an error); %s" % bad)
    run.ok(fam, label, H.where(fn), n, "numeric reference: 0 | (no named groups & < captures_len); named reference must exist; malformed => Err")


def constructors(run, ctx):
    fam, label = "EXPAND", "constructors"
    sites = []
    for path, fn in ctx.facts.hir.items():
        for nd in H.walk(fn["body"]):
            if nd.get("k") == "Struct" and nd.get("adt", "").endswith("expand::Expander"):
                sites.append((strip_generics(path), nd))
    allowed = {"<expand::Expander as Default>::default", "expand::Expander::python"}
    n = 0
    for sp, nd in sites:
        n += 1
        if sp not in allowed:
            run.violation(fam, label, "site/" + sp, H.where(nd), "Expander is constructed in %s; only default() and python() may (the scanner relies on a one-byte substitution character and non-empty delimiters)" % sp)
        f = {x["name"]: H.peel(x["e"]) for x in nd["fields"]}
        sc = f.get("sub_char", {})
        if sc.get("k") != "Lit" or sc["lit"]["t"] != "char" or sc["lit"]["v"] > 127:
            run.violation(fam, label, "sub_char/" + sp, H.where(nd), "Expander.sub_char must be an ASCII character literal (the scanner skips exactly one byte after a doubled substitution character), found %s" % H.canon(sc))
        for d in ("open", "close"):
            dv = f.get(d, {})
            if dv.get("k") != "Lit" or dv["lit"]["t"] != "str" or not dv["lit"]["v"]:
                run.violation(fam, label, "%s/%s" % (d, sp), H.where(nd), "Expander.%s must be a non-empty string literal" % d)
    run.floor(fam, label, "src/expand.rs", len(sites), 2, "Expander constructions")
    run.ok(fam, label, "src/expand.rs", n, "Expander built only in default()/python() with ASCII sub_char and non-empty delimiters")


def scanner_shape(run, ctx):
    """Key steps of Expander::exec (necessary conditions; the scanner's string semantics are not decided)."""
    fam, label = "EXPAND", "exec"
    fn = S.get_fn(run, ctx, "expand::Expander::exec", fam, label)
    if fn is None:
        return
    c = H.canon(fn["body"])
    ps = [p.get("name") for p in fn["params"]]
    T, F = ps[1], ps[2]
    n = 0

    def need(s, key, what):
        nonlocal n
        n += 1
        alts = [s] if isinstance(s, str) else s
        if not any(H.find_pat(c, a_) for a_ in alts):
            run.violation(fam, label, key, H.where(fn), "Expander::exec: %s; `%s` not found in %s" % (what, alts[0], c[:200]))
    # path-based: one iteration of the scanning loop, classified by the decisions it took
    what = ("the template is scanned char by char; at the substitution character the alternatives are tried in the documented order "
            "(doubled character -> one literal char and skip exactly 1 byte; delimited name, then if allowed the longest undelimited identifier; "
            "decimal group number; otherwise the character is copied verbatim after reporting the malformed reference) and scanning resumes `skip` bytes into the tail")
    loops = [nd for nd in H.walk(fn["body"]) if nd.get("k") == "While"]
    n += 1
    bad = None
    classes = {"plain": 0, "doubled": 0, "name": 0, "bare-name": 0, "number": 0, "malformed": 0}
    if len(loops) != 1 or H.peel(loops[0]["cond"]).get("k") != "LetCond" or H.canon(H.peel(loops[0]["cond"])["init"]) not in ("iter.next()",) and False:
        bad = "no single `while let Some(c) = iter.next()` loop"
    else:
        cnd = H.peel(loops[0]["cond"])
        mc = re.match(r"^Some\((\w+)\)$", H.pat_canon(cnd["pat"]))
        mi = re.match(r"^(\w+)\.next\(\)$", H.canon(cnd["init"]))
        if not mc or not mi:
            bad = "loop header is not `while let Some(c) = <iter>.next()`"
        else:
            C_, IT = mc.group(1), mi.group(1)
            for p in S.paths_of(loops[0]["body"], combinators=True):
                if p.exit == "try-err":
                    continue
                sm = S.Summary(p, ("%s(" % F,))
                lets_ = {ev.a: ev.b for ev in p.events if ev.kind == "let" and re.match(r"^\w+$", ev.a or "") and ev.b in (IT,)}
                sub = [tr for t, tr, _, _ in sm.conds if t in ("(%s == self.sub_char)" % C_, "(self.sub_char == %s)" % C_)]
                sub += [not tr for t, tr, _, _ in sm.conds if t in ("(%s != self.sub_char)" % C_, "(self.sub_char != %s)" % C_)]
                if not sub:
                    bad = "an iteration does not compare the character with the substitution character"
                    break
                fcalls = [c_ for c_ in sm.calls]
                resume = sm.final.get(IT)
                if not sub[-1]:
                    if fcalls != ["%s(Step::Char(%s))" % (F, C_)] or resume is not None:
                        bad = "an ordinary character must be copied as it is (found %s)" % fcalls
                        break
                    classes["plain"] += 1
                    continue
                # decisions, in the order they were taken
                order = []
                for i_, ev in enumerate(p.events):
                    t = H.subst_lets(ev.a or "", lets_) if ev.kind == "cond" else None
                    if ev.kind == "cond" and t in ("%s.starts_with(self.sub_char)" % IT,):
                        order.append(("doubled", bool(ev.b), None, i_))
                    if ev.kind == "cond" and t == "self.allow_undelimited_name":
                        order.append(("allow", bool(ev.b), None, i_))
                for i_, kind, bound in S.opt_outcomes(p, "{*x}"):
                    ev = p.events[i_]
                    scr = H.subst_lets((ev.b if ev.kind in ("letcond", "let", "let-else") else ev.a) or "", lets_)
                    nm = {"parse_id(%s,self.open,self.close,false)" % IT: "name", 'parse_id(%s,"","",false)' % IT: "bare-name", "parse_decimal(%s,0)" % IT: "number"}.get(scr)
                    if nm:
                        order.append((nm, kind == "some", bound, i_))
                order.sort(key=lambda x: x[3])
                # a decision repeated on the same value (e.g. `.or_else(..)` followed by `if let Some(..)` on its
                # result) counts once; contradicting itself makes the path infeasible
                dedup, seen_, feas_ = [], {}, True
                for a_, b_, c_, i_ in order:
                    if a_ in seen_:
                        if seen_[a_] != b_:
                            feas_ = False
                        elif c_ and b_:
                            dedup = [(x0, x1, c_ if x0 == a_ else x2, x3) for x0, x1, x2, x3 in dedup]
                        continue
                    seen_[a_] = b_
                    dedup.append((a_, b_, c_, i_))
                if not feas_:
                    continue
                # a literal None / Some(..) scrutinee decides itself
                lit_bad = False
                for i_, kind, bound in S.opt_outcomes(p, "{*x}"):
                    ev = p.events[i_]
                    scr0 = (ev.b if ev.kind in ("letcond", "let", "let-else") else ev.a) or ""
                    if (scr0 == "None" and kind == "some") or (scr0.startswith("Some(") and kind == "none"):
                        lit_bad = True
                if lit_bad:
                    continue
                order = dedup
                seq = [(a_, b_) for a_, b_, _, _ in order]
                want_order = ["doubled", "name", "allow", "bare-name", "number"]
                if [a_ for a_, _ in seq] != [x for x in want_order if x in [a_ for a_, _ in seq]] or not seq or seq[0][0] != "doubled":
                    bad = "the alternatives are not tried in the documented order (found %s)" % seq
                    break
                def pair_of(b_text):
                    """the two components of the parsed pair, as the rest of the path names them"""
                    mb_ = re.match(r"^Some\(\((\w+),(\w+)\)\)$", b_text or "")
                    if mb_:
                        return [(mb_.group(1), mb_.group(2))]
                    ma_ = re.match(r"^Some\((\w+)\)$", b_text or "")
                    if not ma_:
                        return []
                    x_ = ma_.group(1)
                    out_ = [("%s.0" % x_, "%s.1" % x_)]
                    for ev_ in p.events:
                        scr_ = (ev_.b if ev_.kind in ("letcond", "let", "let-else") else None) or ""
                        pat_ = (ev_.a if ev_.kind in ("letcond", "let", "let-else") else "") or ""
                        md_ = re.match(r"^(?:Some\()?\((\w+),(\w+)\)\)?$", pat_)
                        if md_ and scr_ in (x_, "Some(%s)" % x_) and (ev_.kind != "letcond" or ev_.c):
                            out_.append((md_.group(1), md_.group(2)))
                    return out_
                d = dict(seq)
                m_res = re.match(r"^(?:%s)\[(.*)\.\.\]\.chars\(\)$" % re.escape(IT), H.subst_lets(resume or "", lets_))
                skip = m_res.group(1) if m_res else None
                bnd = {a_: c_ for a_, b_, c_, _ in order if b_ and c_}
                if d["doubled"]:
                    ok_, cl = fcalls == ["%s(Step::Char(self.sub_char))" % F] and skip == "1" and len(seq) == 1, "doubled"
                elif d.get("name") or (d.get("name") is False and d.get("allow") and d.get("bare-name")):
                    cl = "name" if d.get("name") else "bare-name"
                    ok_ = any(fcalls == ["%s(Step::GroupName(%s))" % (F, a1)] and skip == a2 for a1, a2 in pair_of(bnd.get(cl, ""))) and "number" not in d
                elif d.get("name") is False and (d.get("allow") is False or d.get("bare-name") is False) and d.get("number"):
                    cl = "number"
                    ok_ = any(fcalls == ["%s(Step::GroupNum(%s))" % (F, a2)] and skip == a1 for a1, a2 in pair_of(bnd.get("number", "")))
                elif d.get("name") is False and (d.get("allow") is False or d.get("bare-name") is False) and d.get("number") is False:
                    cl = "malformed"
                    ok_ = fcalls == ["%s(Step::Error)" % F, "%s(Step::Char(self.sub_char))" % F] and skip == "0"
                else:
                    ok_, cl = False, "?"
                if not ok_:
                    bad = "wrong outcome for the decisions %s: steps %s, resume after %s byte(s)" % (seq, fcalls, skip)
                    break
                classes[cl] += 1
            if bad is None and min(classes.values()) < 1:
                bad = "missing outcome(s): %s" % classes
    if bad:
        run.violation(fam, label, "scanner", H.where(fn), "Expander::exec: %s; %s" % (what, bad))
    es = S.get_fn(run, ctx, "expand::Expander::escape", fam, label)
    if es is not None:
        ce = H.canon(es["body"])
        X = es["params"][1].get("name")
        n += 1
        seen = set()
        bad = None
        for p in S.paths_of(es["body"]):
            v = S.ret_value(p)
            if v is None:
                continue
            has = [ev.b for ev in p.events if ev.kind == "cond" and ev.a == "%s.contains(self.sub_char)" % X]
            if not has:
                bad = "no test whether the text contains the substitution character"
                break
            seen.add(bool(has[-1]))
            if not has[-1]:
                if not H.pat_match("{*c}Borrowed(%s)" % X, v):
                    bad = "text without the substitution character must be borrowed (found %s)" % v
            else:
                m = H.pat_match("{*c}Owned(%s.replace(self.sub_char,{q}))" % X, v)
                pushes = [ev.a for ev in p.events if ev.kind == "call" and m and ev.a == "%s.push(self.sub_char)" % m.group("q")]
                others = [ev.a for ev in p.events if ev.kind == "call" and m and ev.a.startswith("%s.push" % m.group("q")) and ev.a not in pushes]
                # the replacement text: two pushes of the character, or the character repeated twice and collected
                lets_q = {ev.a: ev.b for ev in p.events if ev.kind == "let"}
                rep2 = bool(m) and lets_q.get(m.group("q")) in ("repeat(self.sub_char).take(2).collect()", "std::iter::repeat(self.sub_char).take(2).collect()", "core::iter::repeat(self.sub_char).take(2).collect()", "iter::repeat(self.sub_char).take(2).collect()")
                if rep2 and not others and not pushes:
                    continue
                if not m or len(pushes) != 2 or others:
                    bad = "every substitution character must be replaced by exactly two of them (found %s with pushes %s)" % (v, pushes + others)
        if bad or seen != {True, False}:
            run.violation(fam, label, "escape", H.where(es), "Expander::escape must double every substitution character (the inverse of the `doubled` scanner case) and borrow otherwise: %s; found %s" % (bad or "missing outcome", ce[:200]))
    run.ok(fam, label, H.where(fn), n, "scanner alternatives in documented order; escape doubles sub_char")


def id_char_rule(run, ctx):
    fam, label = "EXPAND", "id-char"
    fn = S.get_fn(run, ctx, "parse::is_id_char", fam, label)
    if fn is None:
        return
    c = H.canon(H.peel(fn["body"]))
    P = fn["params"][0].get("name")
    if c not in ("(%s.is_alphanumeric() || ('_' == %s))" % (P, P), "(('_' == %s) || %s.is_alphanumeric())" % (P, P)):
        run.violation(fam, label, "shape", H.where(fn), "identifier characters are the (Unicode) alphanumerics and `_` -- group names, `$name` and `${name}` are scanned with this predicate (longest identifier); found %s" % c)
    else:
        run.ok(fam, label, H.where(fn), 1, c)
