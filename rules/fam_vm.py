"""VM state / interpreter-arm obligations (C20, C07, parts of C01, C05, C13, C15)."""
import re

import hirlib as H
import mirlib as M
import shape as S
from facts import strip_generics


# ---------------------------------------------------------------------------------------------
# region helpers
# ---------------------------------------------------------------------------------------------

def vm_run(run, ctx, fam, label):
    return S.get_fn(run, ctx, "vm::run", fam, label)


def insn_match(fn):
    """The match on Insn inside vm::run (the one with the most arms)."""
    ms = H.match_arms_on(fn["body"], "vm::Insn")
    if not ms:
        return None
    return max(ms, key=lambda m: len(m["arms"]))


def insn_arms(fn):
    m = insn_match(fn)
    out = {}
    if m is None:
        return out
    for a in m["arms"]:
        for v in H.arm_variants(a, "vm::Insn"):
            out.setdefault(v, []).append(a)
    return out


def feasible(path):
    """Drop paths that take the same canonical condition both ways with no intervening write."""
    seen = {}
    for ev in path.events:
        if ev.kind == "cond":
            k = ev.a
            if k in seen and seen[k] != ev.b:
                return False
            seen[k] = ev.b
        elif ev.kind == "havoc":
            for tgt in ev.a:
                for k in list(seen):
                    if re.search(r"(?<![A-Za-z0-9_])%s(?![A-Za-z0-9_])" % re.escape(tgt), k):
                        del seen[k]
        elif ev.kind in ("assign", "let"):
            tgt = ev.a
            for k in list(seen):
                if re.search(r"(?<![A-Za-z0-9_])%s(?![A-Za-z0-9_])" % re.escape(tgt), k):
                    del seen[k]
        elif ev.kind == "call" and ev.node is not None and ev.node.get("k") == "MethodCall" and ev.node.get("recv_ty", "").startswith("&mut"):
            r = H.canon(ev.node["recv"])
            for k in list(seen):
                if r in k:
                    del seen[k]
    return True


def fpaths(node):
    return [p for p in S.paths_of(node) if feasible(p)]


# ---------------------------------------------------------------------------------------------
# OWN: who may write State
# ---------------------------------------------------------------------------------------------

def own_state(run, ctx):
    fam, label = "OWN", "State-fields"
    state = [p for p in ctx.facts.adts if strip_generics(p) == "vm::State"]
    if len(state) != 1:
        run.violation(fam, label, "anchor-missing/State", "src/vm.rs", "anchor-missing: struct vm::State")
        return
    ST = state[0]
    n = 0
    nbodies = 0
    for path, body in ctx.cg.bodies.items():
        sp = strip_generics(path)
        inside = sp.startswith("vm::State::")
        nbodies += 1
        for bi, b in enumerate(body.blocks):
            for st in b["stmts"]:
                if st["k"] != "Assign":
                    continue
                places = [(st["place"], "write")]
                rv = st["rv"]
                if rv["k"] == "Ref" and rv.get("mut"):
                    places.append((rv["place"], "&mut"))
                for pl, how in places:
                    fl = [x for x in (pl.get("p") or []) if x["k"] == "Field" and x.get("adt") == ST]
                    if not fl:
                        continue
                    n += 1
                    if not inside:
                        sp_ = st["span"]
                        run.violation(fam, label, "%s/%s/%s" % (sp, how, fl[0].get("name")), "%s:%d" % (sp_["file"], sp_["line"]),
                                      "%s of State.%s outside impl State (in %s): the copy-on-write undo log can only be kept consistent if every write goes through State's methods" % (how, fl[0].get("name"), sp))
    run.floor(fam, label, "src/vm.rs", n, 10, "writes / &mut borrows of State fields")
    run.ok(fam, label, "src/vm.rs", n, "%d writes/&mut borrows of State fields in %d bodies, all inside impl State" % (n, nbodies))
    # Vec<Branch>::push only in State::push, Vec<Save>::push only in State::save, saves growth only in stack_push/new
    label = "stack-growth"
    allowed = {"vm::Branch": {"vm::State::push"}, "vm::Save": {"vm::State::save"}}
    cnt = 0
    for path, calls in ctx.cg.calls.items():
        sp = strip_generics(path)
        for callee, bi, t in calls:
            f = t["func"]
            if strip_generics(f.get("fn", "")).endswith("Vec::push"):
                g = (f.get("gargs") or ["?"])[0]
                if g in allowed:
                    cnt += 1
                    if not ctx.facts.owned_by(sp, allowed[g]):
                        run.violation(fam, label, "%s/push-%s" % (sp, g), "%s:%d" % (t["span"]["file"], t["span"]["line"]),
                                      "Vec<%s>::push in %s: only %s may grow that vector (depth cap / undo-log bookkeeping)" % (g, sp, sorted(allowed[g])))
    run.floor(fam, label, "src/vm.rs", cnt, 2, "Vec<Branch>/Vec<Save> push sites")
    run.ok(fam, label, "src/vm.rs", cnt, "branch stack grows only in State::push, undo log only in State::save")
    # inside impl State: direct element writes of saves only in save/pop; saves.push only in stack_push
    label = "saves-writers"
    w = {}
    for path, fn in ctx.facts.hir.items():
        sp = strip_generics(path)
        if not sp.startswith("vm::State::"):
            continue
        for nd in H.walk(fn["body"]):
            if nd.get("k") == "Assign" and H.canon(nd["l"]).startswith("self.saves["):
                w.setdefault("elem", set()).add(sp)
            if nd.get("k") == "MethodCall" and nd["name"] in ("push", "insert", "resize", "truncate", "clear", "pop", "swap", "remove") and H.canon(nd["recv"]) == "self.saves":
                w.setdefault(nd["name"], set()).add(sp)
    ok = True
    if not w.get("elem", set()) <= {"vm::State::save", "vm::State::pop"}:
        ok = False
        run.violation(fam, label, "elem", "src/vm.rs", "self.saves[..] is assigned in %s; only save (logging the old value) and pop (replaying the log) may write slots" % sorted(w.get("elem")))
    if not w.get("push", set()) <= {"vm::State::stack_push"}:
        ok = False
        run.violation(fam, label, "push", "src/vm.rs", "self.saves.push in %s; the save vector may only grow in stack_push" % sorted(w.get("push")))
    other = {k: v for k, v in w.items() if k not in ("elem", "push")}
    if other:
        ok = False
        run.violation(fam, label, "other", "src/vm.rs", "self.saves is restructured by %s" % other)
    if ok:
        run.ok(fam, label, "src/vm.rs", sum(len(v) for v in w.values()), "slot writes only in save/pop, growth only in stack_push")


# ---------------------------------------------------------------------------------------------
# State::save / push / pop / stack_push / stack_pop / backtrack_cut
# ---------------------------------------------------------------------------------------------

def state_methods(run, ctx):
    fam = "STATE"
    # ---- save
    fn = S.get_fn(run, ctx, "vm::State::save", fam, "save")
    if fn is not None:
        ps = [p.get("name") for p in fn["params"]]
        SLOT, VAL = ps[1], ps[2]
        paths = fpaths(fn["body"])
        n = 0
        for p in paths:
            ws = [i for i, ev in enumerate(p.events) if ev.kind == "assign" and ev.a == "self.saves[%s]" % SLOT]
            if p.exit not in ("return", "fall"):
                continue
            n += 1
            if len(ws) != 1 or p.events[ws[0]].c != VAL or p.events[ws[0]].b != "=":
                run.violation(fam, "save", "write", H.where(fn), "State::save: every completed path must store the new value exactly once in self.saves[slot] (found %s)" % [p.events[i].c for i in ws])
                continue
            wi = ws[0]
            pre = p.events[:wi]
            found = [ev for ev in pre if ev.kind == "cond" and ev.b and H.pat_match("(self.oldsave[{*ix}].slot == %s)" % SLOT, ev.a)]
            # the same search written with iterator adaptors over the top nsave entries
            TOP = ("self.oldsave.iter().rev().take(self.nsave)", "self.oldsave[(len(self.oldsave) - self.nsave)..].iter()",
                   "self.oldsave[(len(self.oldsave) - self.nsave)..].iter().rev()", "self.oldsave[(len(self.oldsave) - self.nsave)..]")
            ienv = {ev.a: ev.b for ev in pre if ev.kind == "let" and (ev.b or "").startswith("self.oldsave")}
            found_iter = False
            for ev in pre:
                if ev.kind == "cond" and ev.b:
                    m_ = H.pat_match("({x}.slot == %s)" % SLOT, ev.a) or H.pat_match("(%s == {x}.slot)" % SLOT, ev.a)
                    if m_:
                        its = [e2 for e2 in pre if e2.kind == "for-iter" and e2.a == m_.group("x")]
                        if its and H.subst_lets(its[-1].b, ienv) in TOP:
                            found_iter = True
                    a_ = H.subst_lets(ev.a or "", ienv)
                    for t_ in TOP:
                        if H.pat_match("%s.any(|{x}| ({x}.slot == %s))" % (t_, SLOT), a_) or H.pat_match("%s.any(|{x}| (%s == {x}.slot))" % (t_, SLOT), a_):
                            found_iter = True
            if found_iter and not found:
                if [i for i, ev in enumerate(pre) if ev.kind == "call" and H.pat_match("self.oldsave.push({*x})", ev.a)] or [ev for ev in pre if ev.kind == "assign" and ev.a == "self.nsave"]:
                    run.violation(fam, "save", "double-log", H.where(fn), "State::save logs the old value although the slot is already in the current delta")
                continue
            logged = [i for i, ev in enumerate(pre) if ev.kind == "call" and H.pat_match("self.oldsave.push(Save{slot:%s,value:self.saves[%s]})" % (SLOT, SLOT), ev.a)]
            inc = [i for i, ev in enumerate(pre) if ev.kind == "assign" and ev.a == "self.nsave" and ev.b == "+=" and ev.c == "1"]
            if found:
                if logged or inc:
                    run.violation(fam, "save", "double-log", H.where(fn), "State::save logs the old value although the slot is already in the current delta")
                # the search must range over the top nsave entries
                it = [ev for ev in pre if ev.kind == "for-iter"]
                ixs = H.pat_match("(self.oldsave[{*ix}].slot == %s)" % SLOT, found[0].a).group("ix")
                if not it or it[0].b != "0..self.nsave":
                    run.violation(fam, "save", "search-range", H.where(fn), "State::save must look for the slot among the top nsave undo entries (loop over 0..self.nsave), found %s" % (it[0].b if it else None))
                elif H.pat_match("((len(self.oldsave) - {i}) - 1)", ixs) is None:
                    run.violation(fam, "save", "search-index", H.where(fn), "State::save must index the undo log from the top (len - i - 1), found %s" % ixs)
            else:
                if len(logged) != 1 or len(inc) != 1:
                    run.violation(fam, "save", "not-logged", H.where(fn), "State::save overwrites a slot without logging its old value and counting the entry (log %d, nsave+=1 %d): backtracking could not restore it" % (len(logged), len(inc)))
                # not-found path must have examined all nsave entries (for loop skipped or completed)
        run.floor(fam, "save", H.where(fn), n, 2, "completed paths of State::save")
        run.ok(fam, "save", H.where(fn), n, "slot write preceded by found-in-delta or (log old value, nsave += 1)")
    # ---- push
    fn = S.get_fn(run, ctx, "vm::State::push", fam, "push")
    if fn is not None:
        ps = [p.get("name") for p in fn["params"]]
        PC, IX = ps[1], ps[2]
        n = 0
        okp = errp = 0
        for p in fpaths(fn["body"]):
            v = S.ret_value(p)
            if v is None:
                continue
            n += 1
            pushes = [i for i, ev in enumerate(p.events) if ev.kind == "call" and ev.a.startswith("self.stack.push(")]
            if pushes:
                okp += 1
                pf = S.PathFacts(p.events, pushes[0])
                if not pf.proves("Le", "len(self.stack)", "self.max_stack"):
                    run.violation(fam, "push", "no-cap", H.where(fn), "State::push grows the branch stack without `stack.len() < max_stack` (or <=) being established")
                zero = [i for i, ev in enumerate(p.events) if ev.kind == "assign" and ev.a == "self.nsave" and ev.b == "=" and ev.c == "0"]
                if len(pushes) != 1:
                    run.violation(fam, "push", "no-push", H.where(fn), "State::push under the cap must push exactly one Branch")
                    continue
                m = H.pat_match("self.stack.push(Branch{ix:{ix},nsave:{ns},pc:{pc}})", p.events[pushes[0]].a)
                lets = {ev.a: ev.b for ev in p.events[:pushes[0]] if ev.kind == "let"}
                if not m or m.group("ix") != IX or m.group("pc") != PC or lets.get(m.group("ns"), m.group("ns")) != "self.nsave":
                    run.violation(fam, "push", "branch-fields", H.where(fn), "State::push must record (pc, ix, current nsave) in the Branch, found %s" % p.events[pushes[0]].a)
                if not zero or zero[0] < pushes[0]:
                    run.violation(fam, "push", "nsave-reset", H.where(fn), "State::push must start a new (empty) delta after recording the old one: self.nsave = 0 after the push")
                if v != "Ok(())":
                    run.violation(fam, "push", "ok-value", H.where(fn), "State::push under the cap must return Ok(())")
            else:
                errp += 1
                pf = S.PathFacts(p.events)
                if "StackOverflow" not in v or not v.startswith("Err("):
                    run.violation(fam, "push", "overflow-err", H.where(fn), "State::push without pushing must return Err(StackOverflow), found %s" % v)
                if not pf.proves("Ge", "len(self.stack)", "self.max_stack"):
                    run.violation(fam, "push", "spurious-overflow", H.where(fn), "State::push reports StackOverflow although the cap is not known to be reached")
        if okp < 1 or errp < 1:
            run.violation(fam, "push", "anchor-missing/paths", H.where(fn), "anchor-missing: State::push needs an under-cap and an at-cap path")
        run.ok(fam, "push", H.where(fn), n, "depth cap, Branch{pc,ix,nsave}, nsave reset")
    # ---- pop
    fn = S.get_fn(run, ctx, "vm::State::pop", fam, "pop")
    if fn is not None:
        n = 0
        for p in fpaths(fn["body"]):
            v = S.ret_value(p)
            if v is None:
                continue
            n += 1
            evs = p.events
            br = [i for i, ev in enumerate(evs) if ev.kind == "let" and ev.b == "self.stack.pop().unwrap()"]
            if len(br) != 1:
                run.violation(fam, "pop", "branch-pop", H.where(fn), "State::pop must pop exactly one Branch")
                continue
            m = H.pat_match("Branch{ix:{ix},nsave:{ns},pc:{pc}}", evs[br[0]].a)
            if not m and re.match(r"^\w+$", evs[br[0]].a or ""):
                # the popped branch kept as a whole and read through its fields
                class _M:
                    def __init__(self, b):
                        self.b = b

                    def group(self, k_):
                        return "%s.%s" % (self.b, {"ns": "nsave"}.get(k_, k_))
                m = _M(evs[br[0]].a)
            if not m:
                run.violation(fam, "pop", "branch-pattern", H.where(fn), "State::pop must destructure Branch{pc, ix, nsave}, found %s" % evs[br[0]].a)
                continue
            ns = [i for i, ev in enumerate(evs) if ev.kind == "assign" and ev.a == "self.nsave" and ev.b == "=" and ev.c == m.group("ns")]
            if not ns or ns[0] < br[0]:
                run.violation(fam, "pop", "nsave-restore", H.where(fn), "State::pop must restore the popped branch's nsave")
            if v != "(%s,%s)" % (m.group("pc"), m.group("ix")):
                run.violation(fam, "pop", "result", H.where(fn), "State::pop must return (pc, ix) of the popped branch, found %s" % v)
            it = [i for i, ev in enumerate(evs) if ev.kind in ("for-iter", "for-skip")]
            if not it or evs[it[0]].b != "0..self.nsave" or it[0] > br[0]:
                run.violation(fam, "pop", "replay-range", H.where(fn), "State::pop must replay exactly nsave undo entries (for _ in 0..self.nsave) before popping the branch, found %s" % (evs[it[0]].b if it else None))
                continue
            if evs[it[0]].kind == "for-iter":
                body = evs[it[0]:br[0]]
                un = [ev for ev in body if ev.kind == "let" and ev.b == "self.oldsave.pop().unwrap()"]
                mm = H.pat_match("Save{slot:{s},value:{v}}", un[0].a) if un else None
                wr = [ev for ev in body if ev.kind == "assign" and mm and ev.a == "self.saves[%s]" % mm.group("s") and ev.c == mm.group("v")]
                if not un or not mm or not wr:
                    run.violation(fam, "pop", "replay-body", H.where(fn), "State::pop must restore saves[slot] = value from each popped undo entry")
        run.floor(fam, "pop", H.where(fn), n, 2, "completed paths of State::pop")
        run.ok(fam, "pop", H.where(fn), n, "replays nsave undo entries, pops the branch, restores its nsave")
    # ---- get / backtrack_count
    for name, want in (("vm::State::get", "self.saves[{s}]"), ("vm::State::backtrack_count", "len(self.stack)")):
        fn = S.get_fn(run, ctx, name, fam, name.split("::")[-1])
        if fn is not None:
            c = H.canon(H.peel(fn["body"]))
            if not H.pat_match(want, c):
                run.violation(fam, name.split("::")[-1], "body", H.where(fn), "%s must be %s, found %s" % (name, want, c))
            else:
                run.ok(fam, name.split("::")[-1], H.where(fn), 1, c)
    # ---- stack_push / stack_pop
    fn = S.get_fn(run, ctx, "vm::State::stack_push", fam, "stack_push")
    if fn is not None:
        VAL = [p.get("name") for p in fn["params"]][1]
        n = 0
        for p in fpaths(fn["body"]):
            if S.ret_value(p) is None:
                continue
            n += 1
            evs = p.events
            lets = {ev.a: ev.b for ev in evs if ev.kind == "let"}

            def res(x):
                for _ in range(4):
                    x = lets.get(x, x)
                return x
            sps = [ev for ev in evs if ev.kind == "let" and res(ev.a) in ("self.get(self.explicit_sp)",) or ev.kind == "let" and ev.b in ("self.get(explicit_sp)",) and res("explicit_sp") == "self.explicit_sp"]
            if not sps:
                run.violation(fam, "stack_push", "sp-read", H.where(fn), "stack_push must read the stack pointer from its slot (self.get(self.explicit_sp))")
                continue
            SP = sps[0].a
            stores = [ev for ev in evs if ev.kind == "call" and (ev.a == "self.saves.push(%s)" % VAL or ev.a == "self.save(%s,%s)" % (SP, VAL))]
            if len(stores) != 1:
                run.violation(fam, "stack_push", "store", H.where(fn), "stack_push must store the value exactly once at the stack pointer (push when it is the end of saves, save() otherwise)")
            else:
                grow = [ev for ev in evs if ev.kind == "cond" and H.pat_match("(len(self.saves) == %s)" % SP, ev.a)]
                if stores[0].a.startswith("self.saves.push") and not (grow and grow[0].b):
                    run.violation(fam, "stack_push", "grow-cond", H.where(fn), "stack_push may append only when the stack pointer is the end of saves")
                if stores[0].a.startswith("self.save(") and not (grow and not grow[0].b):
                    run.violation(fam, "stack_push", "overwrite-cond", H.where(fn), "stack_push must overwrite an existing entry through save() (so that it is restored on backtrack)")
            bump = [ev for ev in evs if ev.kind == "call" and res(ev.a.replace("explicit_sp", "self.explicit_sp") if "self.explicit_sp" not in ev.a else ev.a) == "self.save(self.explicit_sp,(1 + %s))" % SP]
            if len(bump) != 1:
                run.violation(fam, "stack_push", "sp-bump", H.where(fn), "stack_push must advance the stack pointer through save(explicit_sp, sp + 1)")
        run.ok(fam, "stack_push", H.where(fn), n, "value stored at sp (append only at the end), sp+1 saved through the undo log")
    fn = S.get_fn(run, ctx, "vm::State::stack_pop", fam, "stack_pop")
    if fn is not None:
        c = H.canon(fn["body"])
        want = "let explicit_sp = self.explicit_sp; let sp = (self.get(explicit_sp) - 1); let result = self.get(sp); self.save(explicit_sp,sp); result"
        ok = False
        for p in fpaths(fn["body"]):
            evs = p.events
            lets = {ev.a: ev.b for ev in evs if ev.kind == "let"}
            E = [k for k, v in lets.items() if v == "self.explicit_sp"]
            Es = E[0] if E else "self.explicit_sp"
            SPs = [k for k, v in lets.items() if v == "(self.get(%s) - 1)" % Es]
            if not SPs:
                continue
            SP = SPs[0]
            R = [k for k, v in lets.items() if v == "self.get(%s)" % SP]
            sv = [ev for ev in evs if ev.kind == "call" and ev.a == "self.save(%s,%s)" % (Es, SP)]
            if R and sv and S.ret_value(p) == R[0]:
                ok = True
        if not ok:
            run.violation(fam, "stack_pop", "shape", H.where(fn), "stack_pop must read sp-1, return the value there and save the decremented pointer through save(); found: %s" % c[:160])
        else:
            run.ok(fam, "stack_pop", H.where(fn), 1, "reads saves[sp-1], saves sp-1 through the undo log")


def backtrack_cut(run, ctx):
    """Key steps of the cut (necessary conditions; the algorithm as a whole is not decided)."""
    fam, label = "STATE", "backtrack_cut"
    fn = S.get_fn(run, ctx, "vm::State::backtrack_cut", fam, label)
    if fn is None:
        return
    w = H.where(fn)
    COUNT = [p.get("name") for p in fn["params"]][1]
    body = fn["body"]
    c = H.canon(body)
    paths = fpaths(body)
    n = 0
    # 1. early return iff nothing to discard
    early = [p for p in paths if p.exit == "return" and not any(ev.kind in ("assign", "call") and not ev.a.startswith("len(") for ev in p.events)]
    n += 1
    if not early or not any(ev.kind == "cond" and ev.b and H.pat_match("(%s == len(self.stack))" % COUNT, ev.a) for ev in early[0].events):
        run.violation(fam, label, "early-return", w, "backtrack_cut: the only early return must be `stack.len() == count` (nothing to discard)")
    full = [p for p in paths if p.exit in ("fall",) and S.ret_value(p) is not None]
    # walk statements structurally
    calls = [H.canon(nd) for nd in H.walk(body) if nd.get("k") == "MethodCall"]
    assigns = [(H.canon(nd["l"]), nd.get("op", "="), H.canon(nd["r"])) for nd in H.walk(body) if nd.get("k") in ("Assign", "AssignOp")]
    lets = {}
    for nd in H.walk(body):
        if nd.get("k") == "Let" and nd.get("init") is not None:
            lets[H.pat_canon(nd["pat"])] = H.canon(nd["init"])

    def need(cond, key, what):
        nonlocal n
        n += 1
        if not cond:
            run.violation(fam, label, key, w, "backtrack_cut: " + what)
    trunc_stack = [x for x in calls if x.startswith("self.stack.truncate(")]
    need(trunc_stack == ["self.stack.truncate(%s)" % COUNT], "truncate-stack",
         "must discard exactly the branches pushed since the atomic group was entered: self.stack.truncate(count), found %s" % trunc_stack)
    trunc_old = [x for x in calls if x.startswith("self.oldsave.truncate(")]
    m = H.pat_match("self.oldsave.truncate({k})", trunc_old[0]) if len(trunc_old) == 1 else None
    need(m is not None, "truncate-oldsave", "must truncate the undo log to the kept entries, found %s" % trunc_old)
    KEEP = m.group("k") if m else "?"
    ns = [a for a in assigns if a[0] == "self.nsave"]
    mm = H.pat_match("(%s - {start})" % KEEP, ns[0][2]) if len(ns) == 1 else None
    need(mm is not None and ns[0][1] == "=", "nsave", "the new delta size must be (kept end - start of the surviving branch's entries), found %s" % ns)
    START = mm.group("start") if mm else "?"
    # 2. the bounds of the surviving branch's own undo entries, found by the roles the variables play:
    #    END starts as oldsave.len() - self.nsave and is lowered by the nsave of every branch above the surviving one,
    #    START = END - stack[count].nsave   (block-valued tuple, two lets, shadowing rebinds: all the same)
    END = "?"
    loops = [nd for nd in H.walk(body) if nd.get("k") == "For" and H.canon(nd["iter"]) in ("self.stack[(1 + %s)..]" % COUNT, "self.stack[(1 + %s)..].iter()" % COUNT)]
    # the same quantity computed in one go: end = oldsave.len() - self.nsave - sum(nsave of the branches above)
    sum_rx = re.compile(r"^self\.stack\[\(1 \+ %s\)\.\.\]\.iter\(\)\.map\(\|(\w+)\| \1\.nsave\)\.sum\(\)$" % re.escape(COUNT))
    sums = [k_ for k_, v_ in lets.items() if re.match(r"^\w+$", k_) and sum_rx.match(v_)]
    X_sum = [k_ for k_, v_ in lets.items() if re.match(r"^\w+$", k_) and any(v_ == "((len(self.oldsave) - self.nsave) - %s)" % s_ for s_ in sums)]
    need(len(loops) == 1 or (not loops and len(X_sum) == 1), "end-loop", "end must be lowered by the nsave of every branch above the surviving one: for Branch{nsave,..} in &self.stack[count+1..] { end -= nsave }")
    if len(loops) == 1 or X_sum:
        if loops:
            lp = loops[0]
            pc_ = H.pat_canon(lp["pat"])
            mN = re.match(r"^Branch\{nsave:(\w+),\.\.\}$", pc_)
            subs = [nd for nd in H.walk(lp["body"]) if nd.get("k") == "AssignOp" and nd["op"].startswith("Sub")]
            okl = len(subs) == 1 and len([x for x in H.walk(lp["body"]) if x.get("k") in ("Assign", "AssignOp", "MethodCall", "Call")]) == 1
            if okl:
                rhs = H.canon(subs[0]["r"])
                okl = (mN is not None and rhs == mN.group(1)) or (re.match(r"^\w+$", pc_) and rhs == "%s.nsave" % pc_)
            need(okl, "end-loop", "the loop over the discarded branches must do nothing but `end -= branch.nsave`, found %s" % H.canon(lp["body"])[:120])
        else:
            okl = True
        if okl:
            X = H.canon(subs[0]["l"]) if loops else X_sum[0]
            inits = [H.canon(nd["init"]) for nd in H.walk(body) if nd.get("k") == "Let" and nd.get("init") is not None and H.pat_canon(nd["pat"]) == X]
            inits += [a[2] for a in assigns if a[0] == X and a[1] == "="]
            need("(len(self.oldsave) - self.nsave)" in inits or not loops, "end-init", "end of the surviving entries must start from oldsave.len() - self.nsave (the current delta is discarded or merged), found %s" % inits)
            others = [a for a in assigns if a[0] == X and not (a[1].startswith("Sub") and a is not None)]
            # names the final value of X goes by
            names_ = {X}
            for k_, v_ in lets.items():
                if re.match(r"^\w+$", k_) and (v_ in names_ or any(v_.endswith("; %s" % x_) for x_ in names_)):
                    names_.add(k_)      # an alias, or the value of the block that computed it
            for k_, v_ in lets.items():
                mt = H.pat_match("({s},{e})", k_)
                if mt and re.search(r"\(\w+,%s\)$" % re.escape(X), v_):
                    names_.add(mt.group("e"))
            starts_ = ["(%s - self.stack[%s].nsave)" % (x_, COUNT) for x_ in names_]
            sdef = [k_ for k_, v_ in lets.items() if v_ in starts_]
            tup_s = [H.pat_match("({s},{e})", k_).group("s") for k_, v_ in lets.items() if H.pat_match("({s},{e})", k_) and any(("let %s = %s" % (sd, st)) in v_ for sd in ["start"] + list(lets) for st in starts_)]
            good_start = START in sdef or START in tup_s or any(("let %s = %s" % (sd, st)) in v_ and re.search(r"\(%s,\w+\)$" % re.escape(sd), v_) and H.pat_match("({s},{e})", k_) and H.pat_match("({s},{e})", k_).group("s") == START
                                                               for k_, v_ in lets.items() for st in starts_ for sd in re.findall(r"let (\w+) = ", v_))
            need(good_start, "start", "start must be end - stack[count].nsave, found %s" % {k_: v_[:80] for k_, v_ in lets.items() if START in k_})
            # END as the later steps name it
            cands = [x_ for x_ in names_ if re.search(r"self\.oldsave\[%s\.\.%s\]" % (re.escape(START), re.escape(x_)), c) or re.search(r"in %s\.\.len\(self\.oldsave\)" % re.escape(x_), c)]
            END = cands[0] if cands else X
    # 3. slots already logged for the surviving branch are kept as they are
    need(re.search(r"for Save\{slot:(\w+),\.\.\} in self\.oldsave\[%s\.\.%s\] \{(\w+)\.insert\(\1\)\}" % (re.escape(START), re.escape(END)), c) is not None
         or re.search(r"let \w+ = self\.oldsave\[%s\.\.%s\]\.iter\(\)\.map\(\|(\w+)\| \1\.slot\)\.collect\(\)" % (re.escape(START), re.escape(END)), c) is not None,
         "seed-saved", "the slots of the surviving branch's own undo entries must seed the `saved` set")
    # 4. later entries are kept iff their slot is new, compacted in order
    m2 = re.search(r"for (\w+) in %s\.\.len\(self\.oldsave\) \{let Save\{slot:(\w+),\.\.\} = self\.oldsave\[\1\]; let (\w+) = (\w+)\.insert\(\2\); if \3 \{self\.oldsave\.swap\((\w+),\1\); \5 \+= 1\}\}" % re.escape(END), c)
    need(m2 is not None, "compact-loop",
         "entries above the surviving branch must be scanned oldest-first and kept (swap to the kept end, kept end += 1) exactly when their slot was not seen before")
    if m2:
        need(m2.group(5) == KEEP, "compact-keep", "the kept-end counter of the compaction must be the one used for truncate/nsave")
        need(lets.get("mut " + KEEP, lets.get(KEEP)) == END, "keep-init", "the kept end must start at the end of the surviving branch's entries, found %s" % lets.get(KEEP))
    run.ok(fam, label, w, n, "early return; truncate(count); undo-log bounds; first-entry-per-slot compaction; nsave")


# ---------------------------------------------------------------------------------------------
# interpreter arms
# ---------------------------------------------------------------------------------------------

def atomic_arms(run, ctx):
    fam, label = "VMARM", "atomic"
    fn = vm_run(run, ctx, fam, label)
    if fn is None:
        return
    arms = insn_arms(fn)
    for v, want in (("BeginAtomic", "let {c} = state.backtrack_count(); state.stack_push({c})"),
                    ("EndAtomic", "let {c} = state.stack_pop(); state.backtrack_cut({c})")):
        a = arms.get(v)
        if not a:
            run.violation(fam, label, "anchor-missing/" + v, H.where(fn), "anchor-missing: no arm for Insn::%s" % v)
            continue
        c = H.canon(a[0]["body"])
        if not H.pat_match(want, c):
            run.violation(fam, label, v, H.where(a[0]), "Insn::%s must be `%s` (the cut discards exactly the branches created since entry), found %s" % (v, want, c))
        else:
            run.ok(fam, label, H.where(a[0]), 1, "%s: %s" % (v, c))
    # FailNegativeLookAround
    a = arms.get("FailNegativeLookAround")
    if not a:
        run.violation(fam, label, "anchor-missing/FailNegativeLookAround", H.where(fn), "anchor-missing: no arm for FailNegativeLookAround")
    else:
        # path-based: the arm pops branches; it stops popping exactly when the popped pc is its own pc + 1, and then
        # fails -- whatever loop form is used
        c = H.canon(a[0]["body"])
        bad = None
        nexit = 0
        for p in S.paths_of(a[0]["body"]):
            pops = [i for i, ev in enumerate(p.events) if ev.kind == "call" and ev.a == "state.pop()"]
            popvars = set()
            for ev in p.events:
                if ev.kind == "let" and (ev.b or "") == "state.pop()":
                    m = re.match(r"^\((\w+),", ev.a or "")
                    if m:
                        popvars.add(m.group(1))
            eq = None
            for ev in p.events:
                if ev.kind != "cond":
                    continue
                m = re.match(r"^\((.*) (==|!=) (.*)\)$", ev.a or "")
                if not m:
                    continue
                l, op, r = m.group(1), m.group(2), m.group(3)
                sides = {l, r}
                if "(1 + pc)" in sides and (sides - {"(1 + pc)"}) and next(iter(sides - {"(1 + pc)"})) in (popvars | {"state.pop().0"}):
                    eq = (ev.b if op == "==" else (not ev.b))
            if p.exit == "loopback":
                if not pops or eq is not False:
                    bad = "a loop iteration that does not pop a branch and compare its pc with pc + 1 (%s)" % p.show()[:120]
            elif p.exit == "break" and p.label == "'fail":
                nexit += 1
                if not pops or eq is not True:
                    bad = "the arm fails without having popped down to its own branch (pc + 1) (%s)" % p.show()[:120]
            else:
                bad = "a path leaves the arm by %s instead of failing" % p.exit
        if bad or nexit < 1:
            run.violation(fam, label, "FailNegativeLookAround", H.where(a[0]),
                          "FailNegativeLookAround must pop branches until the popped pc is its own pc + 1 and then fail: %s; found %s" % (bad or "no failing exit", c[:160]))
        else:
            run.ok(fam, label, H.where(a[0]), 1, "FailNegativeLookAround pops to its own branch (pc + 1), then fails")


def limit_rule(run, ctx):
    """C07(a): every resumed branch is counted and compared with the user's limit."""
    fam, label = "LIMIT", "backtrack-limit"
    fn = vm_run(run, ctx, fam, label)
    if fn is None:
        return
    OPT = [p.get("name") for p in fn["params"]][4]
    # the outer loop: statements after the labelled inner loop
    outer = None
    for nd in H.walk(fn["body"]):
        if nd.get("k") == "Loop" and not nd.get("label"):
            b = nd["body"]
            st = b.get("stmts", [])
            idx = [i for i, s in enumerate(st) if s["k"] in ("ExprStmt", "Semi") and H.peel(s["e"]).get("k") == "Loop" and H.peel(s["e"]).get("label")]
            if idx:
                outer = (nd, st, idx[0])
                break
    if outer is None:
        run.violation(fam, label, "anchor-missing/outer-loop", H.where(fn), "anchor-missing: vm::run's outer loop with the inner labelled 'fail loop")
        return
    nd, st, i = outer
    tail = {"k": "Block", "stmts": st[i + 1:], "expr": nd["body"].get("expr"), "span": nd["span"]}
    paths = fpaths(tail)
    # the counter
    pops = 0
    n = 0
    CNT = None
    for p in paths:
        evs = p.events
        pp = [j for j, ev in enumerate(evs) if ev.kind == "call" and ev.a == "state.pop()"]
        v = S.ret_value(p) if p.exit == "return" else None
        n += 1
        emp = [ev for ev in evs if ev.kind == "cond" and ev.a == "state.stack.is_empty()"]
        if not emp:
            run.violation(fam, label, "no-empty-test", H.where(nd), "after a failure vm::run must test whether any branch is left")
            continue
        if emp[0].b:
            if v != "Ok(None)" and v != "Ok(Option::None)":
                run.violation(fam, label, "empty-result", H.where(nd), "with no branch left the search must return Ok(None), found %s" % v)
            if pp:
                run.violation(fam, label, "pop-empty", H.where(nd), "state.pop() on an empty stack")
            continue
        incs = [j for j, ev in enumerate(evs) if ev.kind == "assign" and ev.b == "+=" and ev.c == "1"]
        if len(incs) != 1:
            run.violation(fam, label, "count", H.where(nd), "every backtrack must increment the counter exactly once before resuming (found %d increments)" % len(incs))
            continue
        CNT = evs[incs[0]].a
        LIM = "%s.backtrack_limit" % OPT
        pf = S.PathFacts(evs)
        if p.exit == "return":
            if not (v or "").startswith("Err(") or "BacktrackLimitExceeded" not in v:
                run.violation(fam, label, "limit-result", H.where(nd), "unexpected return %s in the backtrack tail" % v)
                continue
            if pp:
                run.violation(fam, label, "pop-before-err", H.where(nd), "the limit error is returned after popping")
            if not pf.proves("Gt", CNT, LIM):
                run.violation(fam, label, "limit-weak", H.where(nd), "BacktrackLimitExceeded is returned without `count > limit` being established after the increment: a search needing exactly `limit` backtracks would fail")
        else:
            if len(pp) != 1:
                run.violation(fam, label, "resume-pop", H.where(nd), "resuming must pop exactly one branch")
                continue
            pops += 1
            if incs[0] > pp[0]:
                run.violation(fam, label, "count-after-pop", H.where(nd), "the counter is incremented after the pop")
            if not pf.proves("Le", CNT, LIM):
                run.violation(fam, label, "limit-strong", H.where(nd), "execution resumes without `count <= limit` being established: the limit would not be enforced as documented (comparison against %s)" % LIM)
            lets = [ev for ev in evs if ev.kind == "let" and ev.b == "state.pop()"]
            mm = H.pat_match("({a},{b})", lets[0].a) if lets else None
            asg = {ev.a: ev.c for ev in evs if ev.kind == "assign" and ev.b == "="}
            if not mm or asg.get("pc") != mm.group("a") or asg.get("ix") != mm.group("b"):
                run.violation(fam, label, "resume-state", H.where(nd), "after the pop pc and ix must be set from the popped branch")
    if pops < 1:
        run.violation(fam, label, "anchor-missing/resume", H.where(nd), "anchor-missing: no resuming path found in the backtrack tail")
    # counter starts at zero
    init = [x for x in H.walk(fn["body"]) if x.get("k") == "Let" and x["pat"].get("name") == CNT]
    if CNT and (len(init) != 1 or H.canon(init[0].get("init")) != "0"):
        run.violation(fam, label, "count-init", H.where(fn), "the backtrack counter must start at 0")
    # single writer: the limit is only meaningful if nothing else adjusts the counter (seed C14-r6-2 refunded the
    # branches an EndAtomic cuts, so a search could backtrack without bound under any limit)
    if CNT:
        writes = [x for x in H.walk(fn["body"]) if x.get("k") in ("Assign", "AssignOp") and H.canon(x["l"]) == CNT]
        extra = [x for x in writes if not (x["k"] == "AssignOp" and H.canon(x) == "%s += 1" % CNT)]
        borrows = [x for x in H.walk(fn["body"]) if x.get("k") == "AddrOf" and x.get("mut") and H.canon(x.get("e", {})) == CNT]
        for x in extra + borrows:
            run.violation(fam, label, "count-writer", H.where(x), "the backtrack counter `%s` is written outside the one increment of the backtrack tail (`%s`): backtracks already spent would be forgotten and the limit not enforced" % (CNT, H.canon(x)[:120]))
        if len(writes) - len(extra) != 1:
            run.violation(fam, label, "count-writer-anchor", H.where(nd), "anchor-missing: expected exactly one `%s += 1` in vm::run, found %d" % (CNT, len(writes) - len(extra)))
    run.ok(fam, label, H.where(nd), n, "empty => Ok(None); count += 1; count > limit => Err; else pop and resume")
    # stack cap constant and default limit are not tiny
    label = "caps"
    news = [x for x in H.walk(fn["body"]) if x.get("k") == "Call" and H.canon(x).startswith("State::new(")]
    if len(news) == 1:
        args = [H.peel(a) for a in news[0]["args"]]
        a1 = args[1] if len(args) > 1 else {}
        val = a1.get("val") if a1.get("k") == "Path" else (a1.get("lit", {}).get("v") if a1.get("k") == "Lit" else None)
        if val is None or not (1000 <= val <= 100000000):
            run.violation(fam, label, "max-stack", H.where(news[0]), "State::new must receive a branch-stack cap between 10^3 and 10^8 (found %s): too small breaks small searches, unbounded breaks termination in bounded memory" % H.canon(news[0]))
        else:
            run.ok(fam, label, H.where(news[0]), 1, "branch stack cap %d" % val)
    df = [b for pth, b in ctx.facts.hir.items() if strip_generics(pth) == "<RegexOptions as Default>::default"]
    if len(df) == 1:
        bl = [f for nd2 in H.walk(df[0]["body"]) if nd2.get("k") == "Struct" for f in nd2["fields"] if f["name"] == "backtrack_limit"]
        val = H.peel(bl[0]["e"]).get("lit", {}).get("v") if bl else None
        if val is None or val < 1000:
            run.violation(fam, label, "default-limit", H.where(df[0]), "default backtrack_limit must not be tiny (found %s)" % val)
        else:
            run.ok(fam, label, H.where(df[0]), 1, "default backtrack_limit %d" % val)


REPEAT_SPEC = {
    # variant: (epsilon?, greedy?)
    "RepeatGr": (False, True), "RepeatNg": (False, False),
    "RepeatEpsilonGr": (True, True), "RepeatEpsilonNg": (True, False),
}


def repeat_arms(run, ctx):
    """The four counted-repeat arms of the VM (never interpreted by any test for lazy / counted forms)."""
    fam, label = "VMARM", "repeat"
    fn = vm_run(run, ctx, fam, label)
    if fn is None:
        return
    arms = insn_arms(fn)
    total = 0
    for var, (eps, greedy) in REPEAT_SPEC.items():
        a = arms.get(var)
        if not a:
            run.violation(fam, label, "anchor-missing/" + var, H.where(fn), "anchor-missing: no arm for Insn::%s" % var)
            continue
        arm = a[0]
        binds = {}
        for pn in H.walk(arm["pat"]):
            if pn.get("k") == "StructPat":
                for f in pn["fields"]:
                    if f["pat"].get("k") == "Binding":
                        binds[f["name"]] = f["pat"]["name"]
        LO, NEXT, REP = binds.get("lo"), binds.get("next"), binds.get("repeat")
        HI, CHK = binds.get("hi"), binds.get("check")
        w = H.where(arm)

        def v(key, what):
            run.violation(fam, label, "%s/%s" % (var, key), w, "Insn::%s: %s" % (var, what))
        if not (LO and NEXT and REP) or (eps and not CHK) or ((not eps) and not HI):
            v("fields", "arm does not bind the expected fields (%s)" % binds)
            continue
        # decided under sample valuations of (count so far, lo, hi, "this iteration started where the last one did"):
        # exactly one path is feasible for each, and what it does to the state is compared with the reference
        paths = [p for p in fpaths(arm["body"]) if p.exit != "try-err"]
        GETR, GETC = "state.get(%s)" % REP, "state.get(%s)" % (CHK or "?")
        bad = None
        for n_ in (0, 1, 2, 3, 6):
            for lo_ in (0, 1, 2, 3):
                for hi_ in ((1, 2, 3, 6, S.UMAX) if not eps else (S.UMAX,)):
                    for same_ in ((True, False) if eps else (False,)):
                        if not eps and (n_ > hi_):
                            continue          # the count never passes hi
                        total += 1
                        vals = {GETR: n_, LO: lo_, "ix": 7, "prog.body[pc]": "Insn::" + var}     # (arms merged by an or-pattern ask which one it is)
                        if not eps:
                            vals[HI] = hi_
                        else:
                            vals[GETC] = 7 if same_ else 5
                        feas = [p for p in paths if S.consistent(p, vals) is not False]
                        sure = [p for p in feas if S.consistent(p, vals) is True]
                        desc = "count %d, lo %d%s%s" % (n_, lo_, "" if eps else ", hi %s" % ("MAX" if hi_ == S.UMAX else hi_), (", iteration %s" % ("empty" if same_ else "advanced")) if eps else "")
                        if len(feas) != 1 or len(sure) != 1:
                            bad = ("decide", "for %s the arm's behaviour is not decided by one path (%d candidates): the count must be read from its slot and compared with lo%s" % (desc, len(feas), "" if eps else " and hi"))
                            break
                        p = feas[0]
                        sm = S.Summary(p, ("state.save(", "state.push("))
                        calls = [c_.replace("(%s + 1)" % GETR, "(1 + %s)" % GETR) for c_ in sm.calls]
                        setpc = [ev.c for ev in p.events if ev.kind == "assign" and ev.a == "pc"]
                        lets_ = {ev.a: ev.b for ev in p.events if ev.kind == "let"}
                        exit_to_next = p.exit == "continue" and [H.subst_lets(x, lets_) for x in setpc] == [NEXT]
                        falls_into_body = p.exit == "fall" and not setpc
                        failed = p.exit == "break" and p.label in ("fail", "'fail")
                        inc = "state.save(%s,(1 + %s))" % (REP, GETR)
                        rec = "state.save(%s,ix)" % CHK
                        if not eps and n_ == hi_:
                            if not exit_to_next or calls:
                                bad = ("hi-exit", "at repcount == hi the loop must be left (pc = next) without touching state (%s: %s, exit %s)" % (desc, calls, p.exit))
                        elif eps and n_ > lo_ and same_:
                            if not failed or calls:
                                bad = ("eps-fail", "an iteration that matched the empty string beyond the minimum must fail (prevents endless empty loops) (%s: %s, exit %s)" % (desc, calls, p.exit))
                        elif failed:
                            bad = ("spurious-fail", "fails although nothing forbids another iteration (%s)" % desc)
                        elif n_ < lo_:
                            if calls != [inc] or not falls_into_body:
                                bad = ("below-lo", "below the minimum the count is stored as repcount + 1 and the body runs with no alternative pushed (%s: %s, exit %s)" % (desc, calls, p.exit))
                        else:
                            alt = "state.push(%s,ix)" % (NEXT if greedy else "(1 + pc)")
                            want = [inc] + ([rec] if eps else []) + [alt]
                            if sorted(calls) != sorted(want) or (greedy and not falls_into_body) or (not greedy and not exit_to_next):
                                bad = ("greedy-order" if greedy else "lazy-order", "%s (%s: found %s, pc %s, exit %s)" % (
                                    "greedy: store count + 1%s, push the exit (next, ix) as the alternative and continue with the body" % (", record the position in the check slot" if eps else "") if greedy else
                                    "lazy: store count + 1%s, push the body (pc + 1, ix) as the alternative and continue at next" % (", record the position in the check slot" if eps else ""), desc, calls, setpc, p.exit))
                            elif not greedy and calls[-1] != alt:
                                # the pushed branch *is* the next iteration: what it must see has to be stored before the push
                                # (a store after the push is undone when the branch is resumed)
                                bad = ("lazy-store-after-push", "lazy: the count%s must be stored before the body branch is pushed -- a store made after the push is undone when that branch is resumed, so the loop would never reach hi (%s: %s)" % (" and the check position" if eps else "", desc, calls))
                        if bad:
                            break
                    if bad:
                        break
                if bad:
                    break
            if bad:
                break
        if bad:
            v(bad[0], bad[1])
            total += 1000         # the floor below is about a vacuous pass, not about an arm that already failed
    run.floor(fam, label, H.where(fn), total, 200, "sample valuations decided for the four repeat arms")
    run.ok(fam, label, H.where(fn), total, "RepeatGr/Ng/EpsilonGr/EpsilonNg: hi exit, empty-iteration guard, count+1, lo test, greedy/lazy order")


def split_jmp_arms(run, ctx):
    fam, label = "VMARM", "split-jmp"
    fn = vm_run(run, ctx, fam, label)
    if fn is None:
        return
    arms = insn_arms(fn)
    a = arms.get("Split")
    if a:
        m = H.pat_match("Insn::Split({x},{y})", H.pat_canon(a[0]["pat"]))
        c = H.canon(a[0]["body"])
        ok = bool(m)
        nok = 0
        if m:
            for p in S.paths_of(a[0]["body"]):
                sm = S.Summary(p, ("state.",))
                if p.exit == "try-err":
                    ok = ok and sm.calls == ["state.push(%s,ix)" % m.group("y")]
                    continue
                nok += 1
                ok = ok and p.exit == "continue" and sm.calls == ["state.push(%s,ix)" % m.group("y")] and sm.final == {"pc": m.group("x")}
        if not ok or nok != 1:
            run.violation(fam, label, "Split", H.where(a[0]), "Insn::Split(x, y) must push (y, ix) as the alternative and continue at x (priority order), found %s" % c)
        else:
            run.ok(fam, label, H.where(a[0]), 1, "Split: first operand taken, second pushed")
    else:
        run.violation(fam, label, "anchor-missing/Split", H.where(fn), "anchor-missing: Split arm")
    a = arms.get("Jmp")
    if a:
        m = H.pat_match("Insn::Jmp({t})", H.pat_canon(a[0]["pat"]))
        c = H.canon(a[0]["body"])
        sms = [S.Summary(p, ("state.",)) for p in S.paths_of(a[0]["body"])]
        if not m or len(sms) != 1 or sms[0].exit != "continue" or sms[0].calls or sms[0].final != {"pc": m.group("t")}:
            run.violation(fam, label, "Jmp", H.where(a[0]), "Insn::Jmp(t) must set pc = t, found %s" % c)
        else:
            run.ok(fam, label, H.where(a[0]), 1, "Jmp")
    else:
        run.violation(fam, label, "anchor-missing/Jmp", H.where(fn), "anchor-missing: Jmp arm")
    # Save / Save0 / Restore
    for var, want in (("Save", "state.save({s},ix)"), ("Save0", "state.save({s},0)"), ("Restore", "ix = state.get({s})")):
        a = arms.get(var)
        if not a:
            run.violation(fam, label, "anchor-missing/" + var, H.where(fn), "anchor-missing: %s arm" % var)
            continue
        m = H.pat_match("Insn::%s({s})" % var, H.pat_canon(a[0]["pat"]))
        c = H.canon(a[0]["body"])
        sms = [S.Summary(p, ("state.",)) for p in S.paths_of(a[0]["body"])]
        good = False
        if m and len(sms) == 1 and sms[0].exit == "fall":
            w_ = want.replace("{s}", m.group("s"))
            if var == "Restore":
                good = sms[0].final == {"ix": "state.get(%s)" % m.group("s")} and sms[0].calls == ["state.get(%s)" % m.group("s")]
            else:
                good = sms[0].final == {} and sms[0].calls == [w_]
        if not good:
            run.violation(fam, label, var, H.where(a[0]), "Insn::%s(slot) must be `%s`, found %s" % (var, want, c))
        else:
            run.ok(fam, label, H.where(a[0]), 1, "%s: %s" % (var, c))


def end_arm(run, ctx):
    """End caps start <= end before returning the saves (C01(f), C05)."""
    fam, label = "VMARM", "end"
    fn = vm_run(run, ctx, fam, label)
    if fn is None:
        return
    a = insn_arms(fn).get("End")
    if not a:
        run.violation(fam, label, "anchor-missing/End", H.where(fn), "anchor-missing: End arm")
        return
    n = 0
    for p in fpaths(a[0]["body"]):
        if p.exit != "return":
            run.violation(fam, label, "no-return", H.where(a[0]), "End must return the match")
            continue
        n += 1
        if p.val != "Ok(Some(state.saves))":
            run.violation(fam, label, "result", H.where(a[0]), "End must return Ok(Some(state.saves)), found %s" % p.val)
        # "is there a slot 1": `if let Some(&e) = state.saves.get(1)` or a length test; the end is then the bound
        # name, state.get(1) or state.saves[1] (named temporaries read through)
        lc = [ev for ev in p.events if ev.kind == "letcond" and ev.b == "state.saves.get(1)"]
        lets_ = {ev.a: ev.b for ev in p.events if ev.kind == "let" and re.match(r"^\w+$", ev.a or "")}
        ends = {"state.get(1)", "state.saves[1]"}
        has1 = None
        if lc:
            has1 = bool(lc[0].c)
            m = H.pat_match("Some({e})", lc[0].a)
            if m:
                ends.add(m.group("e"))
        else:
            li = [i for i, ev in enumerate(p.events) if ev.kind == "cond" and "len(state.saves)" in (ev.a or "")]
            pfl = S.PathFacts(p.events, (li[0] + 1) if li else 0)      # (later writes to the state forget the fact)
            if pfl.proves("Gt", "len(state.saves)", 1):
                has1 = True
            elif pfl.proves("Le", "len(state.saves)", 1):
                has1 = False
        if has1 is None:
            run.violation(fam, label, "cap", H.where(a[0]), "End must look at slot 1 to cap the start")
            continue
        if has1:
            POSN0 = [q.get("name") for q in fn["params"]][2]
            cut = [i for i, ev in enumerate(p.events) if ev.kind == "cond" and H.subst_lets(ev.a or "", lets_) == "(state.get(0) < %s)" % POSN0]
            pf = S.PathFacts(p.events, cut[0] if cut else None)
            E = sorted(ends)[0]
            capped = any(ev.kind == "call" and H.subst_lets(ev.a or "", lets_) in {"state.save(0,%s)" % e_ for e_ in ends} for ev in p.events[:cut[0] if cut else None])
            if not capped and not any(pf.proves("Le", "state.get(0)", e_) for e_ in ends | {k_ for k_, v_ in lets_.items() if v_ in ends}):
                run.violation(fam, label, "cap-missing", H.where(a[0]), "End returns with start > end possible: the start (slot 0, movable by \\K) must be capped to the end (slot 1)")
            # the start is also capped from below by the search position (a match from an iteration never
            # starts before the previous match's end)
            POSN = [q.get("name") for q in fn["params"]][2]
            capped_lo = any(ev.kind == "call" and ev.a == "state.save(0,%s)" % POSN for ev in p.events)
            lo_conds = [ev for ev in p.events if ev.kind == "cond" and ev.a in ("(state.get(0) < %s)" % POSN,)]
            if not ((capped_lo and lo_conds and lo_conds[-1].b) or (lo_conds and not lo_conds[-1].b)):
                run.violation(fam, label, "cap-pos-missing", H.where(a[0]), "End returns with start < search position possible (\\K inside a look-behind): consecutive find_iter matches could overlap and split / replace slice text[prev_end..m.start()] would panic")
    run.ok(fam, label, H.where(a[0]), n, "start capped to end before Ok(Some(saves))")


def state_push_only(run, ctx):
    """Subset of state_methods used by C07: only the depth cap of State::push."""
    class _R:
        pass
    fam = "STATE"
    fn = S.get_fn(run, ctx, "vm::State::push", fam, "push-cap")
    if fn is None:
        return
    n = 0
    ok = True
    for p in fpaths(fn["body"]):
        v = S.ret_value(p)
        if v is None:
            continue
        n += 1
        pushes = [i for i, ev in enumerate(p.events) if ev.kind == "call" and ev.a.startswith("self.stack.push(")]
        if pushes:
            pf = S.PathFacts(p.events, pushes[0])
            if not pf.proves("Le", "len(self.stack)", "self.max_stack"):
                ok = False
                run.violation(fam, "push-cap", "no-cap", H.where(fn), "State::push grows the branch stack without `stack.len() < max_stack` (or <=) being established")
            if v != "Ok(())":
                ok = False
                run.violation(fam, "push-cap", "under-cap", H.where(fn), "State::push under the cap must push and return Ok(())")
        else:
            pf = S.PathFacts(p.events)
            if "StackOverflow" not in v or not pf.proves("Ge", "len(self.stack)", "self.max_stack"):
                ok = False
                run.violation(fam, "push-cap", "at-cap", H.where(fn), "State::push at the cap must not push and must return Err(StackOverflow), found %s" % v)
    if ok:
        run.ok(fam, "push-cap", H.where(fn), n, "branch stack depth is capped by max_stack; overflow is an Err, not growth")


def own_ix(run, ctx):
    """Every write to the text index in vm::run has an approved form (offset validity, C05)."""
    fam, label = "OWN", "ix-writers"
    fn = vm_run(run, ctx, fam, label)
    if fn is None:
        return
    POS = [p.get("name") for p in fn["params"]][2]
    approved = [
        ("+=", "codepoint_len_at(s,ix)", "advance by the code point at ix (guarded by ix < len, VMARM/stepping)"),
        ("+=", "codepoint_len(s[ix])", "the same with the helper written out"),
        ("=", "{endv}", "end of a successful byte-wise literal / backreference comparison"),
        ("=", "state.get({slot})", "Restore: a position saved earlier from ix"),
        ("=", "prev_codepoint_ix(s,ix)", "GoBack: previous code point boundary"),
        ("=", "{m}.offset()", "delegate end offset (regex-automata, anchored at ix)"),
        ("=", "inner_slots[1].unwrap().get()", "delegate overall end offset"),
        ("=", "{newix}", "position of a popped branch (was ix when pushed)"),
    ]
    n = 0
    for nd in H.walk(fn["body"]):
        if nd.get("k") in ("Assign", "AssignOp") and H.canon(nd["l"]) == "ix":
            op = "=" if nd["k"] == "Assign" else H.OPSYM.get(nd["op"].replace("Assign", ""), nd["op"]) + "="
            rhs = H.canon(nd["r"])
            r_ = H.peel(nd["r"])
            if op == "=" and r_.get("k") == "Binary" and r_.get("op") == "Add" and "ix" in (H.canon(r_["l"]), H.canon(r_["r"])):
                op, rhs = "+=", H.canon(r_["r"] if H.canon(r_["l"]) == "ix" else r_["l"])      # ix = ix + e
            n += 1
            ok = False
            for aop, pat, why in approved:
                if aop == op and H.pat_match(pat, rhs):
                    ok = True
                    if pat == "{newix}":
                        # must be bound from state.pop()
                        lets = [x for x in H.walk(fn["body"]) if x.get("k") == "Let" and H.canon(x.get("init")) == "state.pop()" and rhs in H.pat_canon(x["pat"])]
                        ok = bool(lets)
                    if pat == "{endv}":
                        lets = [x for x in H.walk(fn["body"]) if x.get("k") == "Let" and x["pat"].get("name") == rhs]
                        ok = bool(lets) and all(H.pat_match("(ix + len({v}))", H.canon(x["init"])) for x in lets)
                        if not ok:
                            continue
                    break
            if not ok:
                run.violation(fam, label, "form/%s%s" % (op, rhs), H.where(nd), "vm::run writes `ix %s %s`: not one of the approved ways of moving the text index (whole code points, previously held positions, engine offsets); a reported offset could fall inside a character or beyond the text" % (op, rhs))
    inits = [x for x in H.walk(fn["body"]) if x.get("k") == "Let" and x["pat"].get("name") == "ix"]
    if len(inits) != 1 or H.canon(inits[0]["init"]) != POS:
        run.violation(fam, label, "init", H.where(fn), "ix must start at the caller's position")
    run.floor(fam, label, H.where(fn), n, 8, "writes to ix in vm::run")
    run.ok(fam, label, H.where(fn), n, "%d writes to ix, all of approved forms" % n)
    # Match construction sites
    label = "Match-constructors"
    sites = []
    for path, f2 in ctx.facts.hir.items():
        sp = strip_generics(path)
        for nd in H.walk(f2["body"]):
            if nd.get("k") == "Struct" and strip_generics(nd.get("adt", "")) == "Match":
                sites.append((sp, "literal", nd))
            if nd.get("k") == "Call" and H.canon(nd).startswith("Match::new("):
                sites.append((sp, "new", nd))
    # (where a Match may be built; whether through the private constructor or a struct literal is the same thing)
    allowed = {("Match::new", "literal"), ("Captures::get", "literal"), ("Captures::get", "new"),
               ("Regex::find_from_pos_with_option_flags", "new"), ("Regex::find_from_pos_with_option_flags", "literal")}
    for sp, how, nd in sites:
        base = sp.split("::{closure")[0]
        if (base, how) not in allowed:
            run.violation(fam, label, "%s/%s" % (sp, how), H.where(nd), "a Match is constructed in %s: spans may only be built from a successful run's slot pair or an engine span (Match::new in find_from_pos*, Captures::get)" % sp)
    run.floor(fam, label, "src/lib.rs", len(sites), 4, "Match construction sites")
    run.ok(fam, label, "src/lib.rs", len(sites), "Match built only in Match::new, Captures::get and find_from_pos_with_option_flags")


def run_returns(run, ctx):
    """vm::run may only leave through End (a match), the exhausted stack (no match), the limit error, or a
    propagated StackOverflow: no shortcut answers."""
    fam, label = "VMARM", "run-exits"
    fn = vm_run(run, ctx, fam, label)
    if fn is None:
        return
    rets = [nd for nd in H.walk(fn["body"]) if nd.get("k") == "Ret"]
    tries = [nd for nd in H.walk(fn["body"]) if nd.get("k") == "Try"]
    allowed = {"return Ok(Some(state.saves))": "End", "return Ok(None)": "exhausted",
               "return Err(Error::RuntimeError(RuntimeError::BacktrackLimitExceeded))": "limit"}
    seen = {}
    for r in rets:
        c = H.canon(r)
        if c not in allowed:
            run.violation(fam, label, "return/" + c[:50], H.where(r), "vm::run returns `%s`: a search may only end at Insn::End, with an exhausted branch stack, or with a limit error" % c[:100])
        seen[allowed.get(c, c)] = seen.get(allowed.get(c, c), 0) + 1
    for k in ("End", "exhausted", "limit"):
        if seen.get(k, 0) != 1:
            run.violation(fam, label, "count/" + k, H.where(fn), "vm::run must have exactly one `%s` exit (found %d)" % (k, seen.get(k, 0)))
    for t in tries:
        c = H.canon(t)
        if not c.startswith("state.push("):
            run.violation(fam, label, "try/" + c[:40], H.where(t), "vm::run propagates an error from `%s`: only State::push (StackOverflow) may fail" % c[:80])
    # the End exit lies in the End arm; the exhausted exit is guarded by stack.is_empty()
    arms = insn_arms(fn)
    for r in rets:
        if H.canon(r) == "return Ok(Some(state.saves))":
            ea = arms.get("End", [])
            if not ea or not any(x is r for x in H.walk(ea[0]["body"])):
                run.violation(fam, label, "end-outside-arm", H.where(r), "a match is reported outside the End arm")
    # the first executed statements: state, pc = 0, ix = pos, then the loop
    lets = [(s["pat"].get("name"), H.canon(s.get("init"))) for s in fn["body"].get("stmts", []) if s["k"] == "Let" and s["pat"].get("k") == "Binding"]
    POS = [p.get("name") for p in fn["params"]][2]
    want = {"pc": "0", "ix": POS, "backtrack_count": "0"}
    for k, v in want.items():
        got = [b for a, b in lets if a == k]
        if got != [v]:
            run.violation(fam, label, "init/" + k, H.where(fn), "vm::run must start with %s = %s (found %s)" % (k, v, got))
    top = [s for s in fn["body"].get("stmts", []) if s["k"] in ("ExprStmt", "Semi") and not H.macro_of(s)]
    nonloop = [s for s in top if H.peel(s["e"]).get("k") not in ("Loop", "If")]
    for s in nonloop:
        run.violation(fam, label, "preamble/" + H.canon(s)[:30], H.where(s), "unexpected statement before the interpreter loop: %s" % H.canon(s)[:80])
    for s in top:
        e = H.peel(s["e"])
        if e.get("k") == "If" and "OPTION_TRACE" not in H.canon(e["cond"]):
            run.violation(fam, label, "shortcut/" + H.canon(e["cond"])[:30], H.where(s), "conditional shortcut before the interpreter loop: if %s" % H.canon(e["cond"])[:80])
    run.ok(fam, label, H.where(fn), len(rets) + len(tries), "exits: End / exhausted / limit (+ StackOverflow via push?); no shortcut before the loop")


def pos_uses(run, ctx):
    """The search start position influences a search only through the initial ix, the \\G arm and the End
    cap: everything before it stays visible (look-behind, word boundaries) -- find_from_pos(t, p) is not a
    search in t[p..]."""
    fam, label = "VMARM", "pos-uses"
    fn = vm_run(run, ctx, fam, label)
    if fn is None:
        return
    POS = [p.get("name") for p in fn["params"]][2]
    arms = insn_arms(fn)
    allowed_nodes = set()
    for var in ("End", "ContinueFromPreviousMatchEnd"):
        for a in arms.get(var, []):
            for x in H.walk(a["body"]):
                allowed_nodes.add(id(x))
    n = 0
    for nd in H.walk(fn["body"]):
        if nd.get("k") == "Let" and nd["pat"].get("name") == "ix" and nd.get("init") is not None:
            for x in H.walk(nd["init"]):
                allowed_nodes.add(id(x))
    for nd in H.walk(fn["body"]):
        if nd.get("k") == "Path" and nd.get("res") == "Local" and nd.get("name") == POS:
            n += 1
            if id(nd) not in allowed_nodes and not H.macro_of(nd):
                run.violation(fam, label, "use/%d" % n, H.where(nd), "vm::run uses the search start position `%s` outside the initial ix, the \\G arm and the End cap: a search resumed at pos > 0 (find_iter, find_from_pos) would behave as if the text before pos did not exist" % POS)
    run.floor(fam, label, H.where(fn), n, 3, "uses of the search start position in vm::run")
    run.ok(fam, label, H.where(fn), n, "pos is used only for the initial ix, \\G and the End cap")
