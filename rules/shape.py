"""Helpers for source-shaped (HIR) rules: function lookup with fail-closed anchors, path facts."""
import re
import hirlib as H
import mirlib as M
from facts import strip_generics

CMP = {"Lt", "Le", "Gt", "Ge", "Eq", "Ne"}
NEG = {"Lt": "Ge", "Le": "Gt", "Gt": "Le", "Ge": "Lt", "Eq": "Ne", "Ne": "Eq"}


def find_fn(ctx, suffix):
    """HIR bodies whose generics-stripped path equals suffix or ends with ::suffix."""
    out = []
    for p, b in ctx.facts.hir.items():
        sp = strip_generics(p)
        if sp == suffix or ("::" in suffix and sp.endswith("::" + suffix)):
            out.append(b)
    return out


def get_fn(run, ctx, suffix, family, instance):
    fs = find_fn(ctx, suffix)
    if len(fs) != 1:
        run.violation(family, instance, "anchor-missing/fn/" + suffix, "src",
                      "anchor-missing: expected exactly one function %s, found %d" % (suffix, len(fs)))
        return None
    return fs[0]


_paths_cache = {}


def paths_of(node, max_paths=60000, combinators=False, scope=None):
    """scope: the enclosing function body; calls of its local closures are then read as the closures' bodies."""
    key = (id(node), combinators, id(scope) if scope is not None else None)
    if key not in _paths_cache:
        _paths_cache[key] = H.enum_paths(node, max_paths=max_paths, combinators=combinators, scope=scope)
    return _paths_cache[key]


def hnorm(rel, a, b):
    """Constraints (terms, c) for `a rel b`; a, b are HIR nodes, ints, or (terms, c) linear forms."""
    la = _lin(a)
    lb = _lin(b)
    if la is None or lb is None:
        return None
    t = dict(la[0])
    for k, v in lb[0].items():
        t[k] = t.get(k, 0) - v
    t = {k: v for k, v in t.items() if v}
    c = lb[1] - la[1]
    neg = {k: -v for k, v in t.items()}
    if rel == "Lt":
        return [(t, c - 1)]
    if rel == "Le":
        return [(t, c)]
    if rel == "Gt":
        return [(neg, -c - 1)]
    if rel == "Ge":
        return [(neg, -c)]
    if rel == "Eq":
        return [(t, c), (neg, -c)]
    return None


def _lin(x):
    if isinstance(x, int):
        return ({}, x)
    if isinstance(x, tuple):
        return x
    if isinstance(x, str):
        return ({x: 1}, 0)
    return H.linear(x)


def len_of(node_or_str):
    s = node_or_str if isinstance(node_or_str, str) else H.canon(node_or_str)
    return ({"len(%s)" % s: 1}, 0)


class PathFacts:
    """Facts that hold after executing events[:upto] of a path (conditions, simple equalities)."""

    def __init__(self, events, upto=None):
        self.cons = []   # (terms, c, mention-set)
        self.nes = []    # (terms, c) meaning expression != 0 where expr = sum(terms) - c ... stored as (lf_a, lf_b)
        evs = events if upto is None else events[:upto]
        for ev in evs:
            self._apply(ev)

    def _kill(self, lhs):
        def mentions(t):
            for k in t:
                if k == lhs or (lhs + ".") in k or (lhs + "[") in k or ("(" + lhs + ")") in k or k.startswith(lhs + ".") \
                        or ("(" + lhs + ",") in k or ("," + lhs + ")") in k or (" " + lhs + " ") in (" " + k + " ") \
                        or ("(" + lhs + " ") in k or (" " + lhs + ")") in k:
                    return True
            return False
        self.cons = [c for c in self.cons if not mentions(c[0])]
        self.nes = [n for n in self.nes if not (mentions(n[0][0]) or mentions(n[1][0]))]

    def _add(self, rel, a, b):
        if rel == "Ne":
            la, lb = _lin(a), _lin(b)
            if la is not None and lb is not None:
                self.nes.append((la, lb))
            return
        cs = hnorm(rel, a, b)
        if cs:
            for t, c in cs:
                self.cons.append((t, c))

    def _apply(self, ev):
        k = ev.kind
        if k == "cond":
            n = H.peel(ev.node) if ev.node is not None else None
            if n is not None and n.get("k") == "Binary" and n["op"] in CMP:
                rel = n["op"] if ev.b else NEG[n["op"]]
                self._add(rel, n["l"], n["r"])
        elif k == "assign":
            lhs = ev.a
            self._kill(lhs)
            n = ev.node
            if ev.b == "=" and n is not None:
                lf = H.linear(n["r"])
                if lf is not None and lhs not in lf[0] and not any(lhs in t for t in lf[0]):
                    self._add("Eq", ({lhs: 1}, 0), lf)
        elif k == "let":
            n = ev.node
            if n is not None and n.get("k") == "Let" and n["pat"]["k"] == "Binding" and n.get("init") is not None:
                name = n["pat"]["name"]
                self._kill(name)
                lf = H.linear(n["init"])
                if lf is not None and not any(name == t or name in t.split(".")[0:1] for t in lf[0]):
                    self._add("Eq", ({name: 1}, 0), lf)
        elif k == "havoc":
            for nm in ev.a:
                self._kill(nm)
        elif k == "call":
            n = ev.node
            if n is not None and n.get("k") == "MethodCall" and n.get("recv_ty", "").startswith("&mut"):
                self._kill(H.canon(n["recv"]))

    def proves(self, rel, a, b):
        if rel == "Ne":
            la, lb = _lin(a), _lin(b)
            for (x, y) in self.nes:
                if (x == la and y == lb) or (x == lb and y == la):
                    return True
            return self.proves("Lt", a, b) or self.proves("Gt", a, b)
        goals = hnorm(rel, a, b)
        if goals is None:
            return False
        ne_zero = []
        for (x, y) in self.nes:
            # x != 0 patterns
            if not y[0] and y[1] == 0 and len(x[0]) == 1 and x[1] == 0 and list(x[0].values())[0] == 1:
                ne_zero.append(list(x[0].keys())[0])
        return M.prove_goals([(t, c) for t, c in self.cons], [], goals, True, ne_zero)


UMAX = (1 << 64) - 1


def eval_node(n, val):
    """Value of a pure expression under a sample valuation {canon text: int|bool}; None when not determined."""
    n = H.peel(n)
    k = n.get("k")
    c = H.canon(n)
    if c in val:
        return val[c]
    if c in ("MAX", "usize::MAX", "core::usize::MAX", "std::usize::MAX"):
        return UMAX
    if k == "Lit":
        t = n["lit"]["t"]
        if t in ("int", "bool", "byte", "char") and isinstance(n["lit"]["v"], (int, bool)):
            return n["lit"]["v"]
        return None
    if k == "Unary" and n.get("op") == "Not":
        v = eval_node(n["e"], val)
        return (not v) if isinstance(v, bool) else None
    if k == "Cast":
        return eval_node(n["e"], val)
    if k == "Binary":
        op = n["op"]
        a = eval_node(n["l"], val)
        if op in ("And", "Or") and isinstance(a, bool):
            if (op == "And" and not a) or (op == "Or" and a):
                return a
            return eval_node(n["r"], val)
        b = eval_node(n["r"], val)
        if a is None or b is None:
            return None
        try:
            return {"Lt": lambda: a < b, "Le": lambda: a <= b, "Gt": lambda: a > b, "Ge": lambda: a >= b, "Eq": lambda: a == b,
                    "Ne": lambda: a != b, "Add": lambda: a + b, "Sub": lambda: a - b, "Mul": lambda: a * b,
                    "Div": lambda: a // b, "Rem": lambda: a % b,
                    "And": lambda: a and b, "Or": lambda: a or b}[op]()
        except (KeyError, TypeError):
            return None
    return None


def _split_top(s):
    parts, depth, cur = [], 0, ""
    for ch in s:
        if ch in "([{":
            depth += 1
        elif ch in ")]}":
            depth -= 1
        if ch == "," and depth == 0:
            parts.append(cur)
            cur = ""
        else:
            cur += ch
    parts.append(cur)
    return parts


def pat_accepts(pat, scrut, val):
    """Does the canonical pattern text accept the scrutinee under the valuation?  True / False / None (unknown)."""
    pat = pat.strip()
    cm = H._ctor_match(scrut.strip(), pat)
    if cm is False:
        return False
    if cm is not None:
        return True
    if "|" in pat and not pat.startswith("("):
        rs = [pat_accepts(p_, scrut, val) for p_ in _split_top(pat.replace("|", ","))] if "(" not in pat else [pat_accepts(p_, scrut, val) for p_ in pat.split("|")]
        return True if any(r is True for r in rs) else (None if any(r is None for r in rs) else False)
    if pat == "_" or re.match(r"^(ref )?(mut )?[a-z_][a-z_0-9]*$", pat):
        return True
    if pat.startswith("(") and pat.endswith(")") and scrut.startswith("(") and scrut.endswith(")"):
        ps, ss = _split_top(pat[1:-1]), _split_top(scrut[1:-1])
        if len(ps) != len(ss):
            return None
        rs = [pat_accepts(p_, s_, val) for p_, s_ in zip(ps, ss)]
        return False if any(r is False for r in rs) else (None if any(r is None for r in rs) else True)
    v = val.get(scrut.strip())
    if isinstance(v, str):
        # the scrutinee is sampled as "this enum variant"
        head = re.split(r"[{(]", pat, 1)[0].strip()
        if re.match(r"^(?:\w+::)+\w+$", head):
            return head == v or head.endswith("::" + v.rsplit("::", 1)[-1]) and head.rsplit("::", 1)[-1] == v.rsplit("::", 1)[-1]
        return None
    if v is None:
        return None
    if pat == "MAX" or pat.endswith("::MAX"):
        return v == UMAX
    if re.match(r"^\d+$", pat):
        return v == int(pat)
    if pat in ("true", "false"):
        return v == (pat == "true")
    m = re.match(r"^(\d+)\.\.=(\d+|MAX)$", pat)
    if m:
        hi = UMAX if m.group(2) == "MAX" else int(m.group(2))
        return int(m.group(1)) <= v <= hi
    return None


def consistent(path, val):
    """Is the path feasible under the sample valuation?  True / False / None (a decision could not be evaluated)."""
    return run_path(path, val)[0]


def _checked(node, val):
    """(is_some, value) of `a.checked_sub(b)` / `a.checked_add(b)` under the valuation, or None."""
    n = H.peel(node) if node is not None else {}
    if n.get("k") == "MethodCall" and n.get("name") in ("checked_sub", "checked_add") and len(n.get("args") or []) == 1:
        a, b = eval_node(n["recv"], val), eval_node(n["args"][0], val)
        if isinstance(a, int) and isinstance(b, int):
            r = a - b if n["name"] == "checked_sub" else a + b
            return (0 <= r <= UMAX, r)
    return None


def run_path(path, val):
    """(feasibility, valuation at the end of the path).  Sampled names are followed through copies, assignments
    (`=`, `+=`, `-=`) and `checked_sub` / `checked_add` decisions."""
    unknown = False
    val = dict(val)
    for ev in path.events:
        if ev.kind in ("letcond", "let-else") or (ev.kind == "let" and ev.c is True):
            nd = ev.node if isinstance(ev.node, dict) else {}
            init = nd.get("init")
            ck = _checked(init, val)
            if ck is not None:
                took_some = (ev.kind == "letcond" and bool(ev.c)) or (ev.kind == "let")
                if ev.kind == "letcond" and (ev.a or "") == "None":
                    took_some = not bool(ev.c)
                if took_some != ck[0]:
                    return False, val
                m_ = re.match(r"^Some\((?:ref |mut )*([a-z_][a-z_0-9]*)\)$", ev.a or "")
                if took_some and m_:
                    val[m_.group(1)] = ck[1]
                continue
        if ev.kind == "assign" and ev.a in val and isinstance(ev.node, dict) and ev.node.get("r") is not None:
            r = eval_node(ev.node["r"], val)
            if isinstance(r, int) and not isinstance(r, bool) and ev.b in ("=", "+=", "-="):
                val[ev.a] = r if ev.b == "=" else (val[ev.a] + r if ev.b == "+=" else val[ev.a] - r)
                continue
        if ev.kind == "let" and ev.node is not None and isinstance(ev.node, dict) and ev.node.get("init") is not None \
                and (ev.node.get("pat") or {}).get("k") == "Binding":
            v = eval_node(ev.node["init"], val)
            if v is None and (ev.b in ("true", "false") or re.match(r"^\d+$", ev.b or "")):
                v = (ev.b == "true") if ev.b in ("true", "false") else int(ev.b)      # the value the initialiser took on this path
            if v is not None:
                val[ev.a] = v          # a copy of a sampled value under another name
                continue
        if ev.kind == "cond":
            v = eval_node(ev.node, val) if ev.node is not None else None
            if v is None and ev.a in val:
                v = val[ev.a]
            if v is None:
                unknown = True
            elif bool(v) != bool(ev.b):
                return False, val
        elif ev.kind == "arm":
            r = pat_accepts(ev.b, ev.a or "", val)
            if r is False:
                return False, val
            if r is None and any(re.search(r"(?<![\w.])%s(?![\w(])" % re.escape(k_), ev.a or "") for k_ in val if isinstance(k_, str)):
                unknown = True      # (a decision about something that is not sampled does not make the path doubtful:
                                    #  its sibling paths are feasible as well and the caller sees more than one)
            for q in ev.c or ():
                rq = pat_accepts(q, ev.a or "", val)
                if rq is True:
                    return False, val
                if rq is None:
                    unknown = True
        elif ev.kind in ("assign", "let") and ev.a in val:
            unknown = True      # a sampled name is rebound or assigned: the valuation no longer describes it
    return (None if unknown else True), val


def int_constants(node):
    out = set()
    for nd in H.walk(node):
        if nd.get("k") == "Lit" and nd["lit"]["t"] == "int":
            out.add(nd["lit"]["v"])
        if nd.get("k") == "ExprPat" and "lit" in nd and nd["lit"]["t"] == "int":
            out.add(nd["lit"]["v"])
    return out


def call_events(path, callee_suffix):
    """Indices of call events whose resolved callee path ends with the suffix."""
    out = []
    for i, ev in enumerate(path.events):
        if ev.kind == "call" and ev.b and (ev.b == callee_suffix or ev.b.endswith("::" + callee_suffix) or ev.b.endswith(callee_suffix)):
            out.append(i)
    return out


def assigns_to(path, lhs_pat, start=0, end=None):
    out = []
    evs = path.events
    for i in range(start, len(evs) if end is None else end):
        ev = evs[i]
        if ev.kind == "assign" and H.pat_match(lhs_pat, ev.a):
            out.append(i)
    return out


class Summary:
    """What one path does, independent of statement order and of named temporaries: the calls it makes (argument
    texts expressed over the values variables had on entry), the final value of every assigned simple variable
    (also over entry values), and how it leaves."""

    def __init__(self, path, call_prefixes=None):
        self.calls = []
        self.final = {}
        self.conds = []          # (text over entry values, truth, node, env at that point)
        self.exit = path.exit
        self.label = path.label
        self.val = None
        env = {}
        simple = re.compile(r"^[A-Za-z_][A-Za-z_0-9]*$")
        for ev in path.events:
            if ev.kind == "let" and ev.b is not None and re.match(r"^\(\w+(,\w+)+\)$", ev.a or "") and ev.b.startswith("(") and ev.b.endswith(")"):
                # `let (a, b) = (x, y);` binds component-wise
                names_ = ev.a[1:-1].split(",")
                parts, depth, cur = [], 0, ""
                for ch in ev.b[1:-1]:
                    if ch in "([{":
                        depth += 1
                    elif ch in ")]}":
                        depth -= 1
                    if ch == "," and depth == 0:
                        parts.append(cur)
                        cur = ""
                    else:
                        cur += ch
                parts.append(cur)
                if len(parts) == len(names_):
                    for n_, v_ in zip(names_, parts):
                        env[n_] = H.subst_lets(v_, env)
                continue
            if ev.kind == "let" and simple.match(ev.a or "") and ev.b is not None:
                pat = (ev.node or {}).get("pat") or {}
                if pat.get("mut") and "(" in ev.b:
                    # a mutable object built by a call (a builder, a buffer): it is not a value to substitute
                    env.pop(ev.a, None)
                    continue
                env[ev.a] = H.subst_lets(ev.b, env)
            elif ev.kind == "assign" and simple.match(ev.a or ""):
                rhs = H.subst_lets(ev.c or "", env)
                if ev.b == "=":
                    new = rhs
                else:
                    old = env.get(ev.a, ev.a)
                    l_, r_ = sorted([old, rhs], key=H._ckey) if ev.b[:-1] in ("+", "*", "|", "&", "^") else (old, rhs)
                    new = "(%s %s %s)" % (l_, ev.b[:-1], r_)
                env[ev.a] = new
                self.final[ev.a] = new
            elif ev.kind == "assign":
                self.calls.append("%s %s %s" % (H.subst_lets(ev.a, env), ev.b, H.subst_lets(ev.c or "", env)))
            elif ev.kind == "call":
                t = H.subst_lets(ev.a or "", env)
                if call_prefixes is None or any(t.startswith(p) for p in call_prefixes):
                    self.calls.append(t)
            elif ev.kind == "cond":
                self.conds.append((H.subst_lets(ev.a or "", env), ev.b, ev.node, dict(env)))
            elif ev.kind == "havoc":
                for nm in ev.a or []:
                    env.pop(nm, None)
        self.val = H.subst_lets(path.val, env) if path.val else path.val
        self.env = env


def pure_env(path):
    """{name: initialiser} for the immutable locals of a path whose initialiser is a plain place / slice / arithmetic
    expression (no call, no `?`): such a name is just an abbreviation and can be read through."""
    env = {}
    for ev in path.events:
        if ev.kind == "let" and re.match(r"^\w+$", ev.a or "") and ev.b and "(" not in ev.b.replace("len(", "len<") and "?" not in ev.b:
            pat = (ev.node or {}).get("pat") or {}
            if not pat.get("mut"):
                env[ev.a] = ev.b
    return env


def named_args(ctx, call, env=None):
    """{parameter name of the callee: canonical argument} for a call to a crate-local function (robust against a
    change of parameter order)."""
    callee = call.get("resolved") or call.get("def") if call.get("k") == "MethodCall" else H.peel(call["f"]).get("def")
    fn = ctx.facts.hir.get(callee)
    if fn is None:
        for p_, f_ in ctx.facts.hir.items():
            if strip_generics(p_) == strip_generics(callee or ""):
                fn = f_
    if fn is None:
        return None
    args = ([call["recv"]] if call.get("k") == "MethodCall" else []) + list(call.get("args") or [])
    ps = [p.get("name") for p in fn["params"]]
    if len(ps) != len(args):
        return None
    return {n: H.subst_lets(H.canon(a), env or {}) for n, a in zip(ps, args)}


def opt_outcomes(path, scrut_pat):
    """How the path decided on Option/Result-valued expressions matching `scrut_pat` (a placeholder pattern over the
    canonical scrutinee): list of (index, 'some'|'none', bound-pattern).  Recognises `match`, `if let`, `let .. else`
    and `while let`, so the same decision reads the same whichever form the source uses."""
    out = []
    for i, ev in enumerate(path.events):
        if ev.kind == "arm" and H.pat_match(scrut_pat, ev.a or ""):
            pat = ev.b or ""
            if pat.startswith("Some(") or pat.startswith("Ok("):
                out.append((i, "some", pat))
            elif pat in ("None", "_") or pat.startswith("Err("):
                out.append((i, "none", pat))
        elif ev.kind == "letcond" and H.pat_match(scrut_pat, ev.b or "") and ((ev.a or "").startswith("Some(") or (ev.a or "").startswith("Ok(")):
            out.append((i, "some" if ev.c else "none", ev.a))
        elif ev.kind == "letcond" and H.pat_match(scrut_pat, ev.b or "") and (ev.a or "") == "None":
            out.append((i, "none" if ev.c else "some", ev.a))
        elif ev.kind == "let" and ev.c is True and H.pat_match(scrut_pat, ev.b or "") and ((ev.a or "").startswith("Some(") or (ev.a or "").startswith("Ok(")):
            out.append((i, "some", ev.a))
        elif ev.kind == "let-else" and H.pat_match(scrut_pat, ev.b or ""):
            out.append((i, "none", ev.a))
        elif ev.kind == "cond" and H.pat_match("%s.is_some()" % scrut_pat, ev.a or ""):
            out.append((i, "some" if ev.b else "none", ""))
        elif ev.kind == "cond" and H.pat_match("%s.is_none()" % scrut_pat, ev.a or ""):
            out.append((i, "none" if ev.b else "some", ""))
    return out


def ret_value(path):
    """Canonical value a path yields from the function (return or fall-through), or None for other exits."""
    if path.exit in ("return", "fall"):
        return path.val
    return None


def option_forwarding(fn, fld, meth):
    """Path by path: is `<options>.<fld>` (an Option) decided, and is `.<meth>(Some(v))` called with the value bound
    on exactly the paths where it is Some?  Returns (ok, reason).  Reads `if let`, `match`, `let .. else` alike."""
    seen = {"some": 0, "none": 0}
    for p in paths_of(fn["body"], max_paths=200000):
        if p.exit == "try-err":
            continue
        oc = opt_outcomes(p, "{o}.%s" % fld)
        calls = [ev.a for ev in p.events if ev.kind == "call" and (ev.b or "").endswith("::" + meth)]
        if not oc:
            if calls:
                return False, "%s is called on a path that did not look at %s" % (meth, fld)
            return False, "a path does not look at %s" % fld
        kind, pat = oc[-1][1], oc[-1][2]
        seen[kind] += 1
        if kind == "some":
            m = H.pat_match("Some({v})", pat or "")
            if not m or len(calls) != 1 or not calls[0].endswith(".%s(Some(%s))" % (meth, m.group("v"))):
                return False, "with %s set, %s must be called once with Some(that value) (found %s)" % (fld, meth, calls)
        elif calls:
            return False, "with %s unset, %s must not be called (found %s)" % (fld, meth, calls)
    if min(seen.values()) < 1:
        return False, "both outcomes of %s must be handled (found %s)" % (fld, seen)
    return True, ""
