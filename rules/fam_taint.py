"""C06 companions of the panic audit: allocation-size sinks (TAINT), recursion cycles (REC),
byte-justified index steps (STEP), delegate build errors are mapped (ERRMAP)."""
import re

import hirlib as H
import mirlib as M
import panics as P
import shape as S
from fam_vm import feasible
from facts import strip_generics

SINK_RX = re.compile(r"with_capacity$|::resize$|::reserve$|::reserve_exact$|BitSet.*::insert$|from_elem$|(?<!iter)::repeat$|::resize_with$|BitVec.*::(grow|from_elem|with_capacity)$")

ALLOC_AUDIT = {
    ("escape", "std::string::String::with_capacity"): "text.len() + n where n counts the special bytes of text (n <= text.len())",
    ("Regex::capture_names", "std::vec::Vec::resize"): "captures_len() = number of capture groups + 1 <= pattern length",
    ("vm::State::new", "std::vec::from_elem"): "n_saves = 2 per group + at most two fresh slots per repeat / look-around node, all bounded by the pattern length",
    ("vm::run", "std::vec::Vec::resize"): "(end_group - start_group + 1) * 2: group numbers are bounded by the pattern length",
}
# the same audited quantities, recognised by what is allocated rather than by which allocator is called
ALLOC_QUANTITY = {
    "Regex::capture_names": (r"^Regex::captures_len\(self\)$", "captures_len() = number of capture groups + 1 <= pattern length"),
}
MUST_GUARD = {("parse::Parser::parse_numbered_backref", "bit_set::BitSet::insert"), ("parse::Parser::parse_named_backref", "bit_set::BitSet::insert")}


def _len_like(e):
    if not isinstance(e, tuple):
        return False
    k = e[0]
    if k == "const":
        return isinstance(e[1], int) and e[1] <= 1 << 20
    if k == "len":
        return True
    if k in ("Add", "Mul", "AddWithOverflow", "MulWithOverflow", "Sub", "cast"):
        return all(_len_like(x) for x in e[1:] if isinstance(x, tuple))
    if k == "call" and ("len_utf8" in e[1] or e[1].endswith("::len")):
        return True
    if k == "var":
        return False
    return False


def alloc_sinks(run, ctx):
    fam, label = "TAINT", "alloc-sinks"
    n = 0
    pfs = {}
    for path, calls in sorted(ctx.cg.calls.items()):
        sp = strip_generics(path)
        body = ctx.cg.bodies[path]
        for callee, bi, t in calls:
            cs = strip_generics(callee)
            if not SINK_RX.search(cs):
                continue
            n += 1
            args = [body.op(a) for a in t["args"]]
            size = args[-1] if "with_capacity" in cs else (args[1] if len(args) > 1 else args[0])
            if "from_elem" in cs:
                size = args[1]
            where = "%s:%d" % (t["span"]["file"], t["span"]["line"])
            # without the `std` feature the same functions are named through `alloc::` / `core::`
            key = (sp, re.sub(r"^(alloc|core)::", "std::", cs))
            if key in MUST_GUARD:
                # the size must be bounded by a value derived from the pattern length on every path to the sink
                pf = pfs.setdefault(path, M.PointFacts(body))
                cons, nes, used = pf.holds_at(bi, None)
                bounded = False
                for t_, c_ in cons:
                    ks = list(t_.items())
                    if len(ks) == 2:
                        names = dict(ks)
                        sv = M.show(size)
                        if names.get(sv) == 1 and any(v == -1 and "len(" in k for k, v in ks):
                            bounded = True
                if sp.endswith("parse_named_backref"):
                    # the bound lives in an Option::filter closure: checked on the HIR (PARSE/backref-registration)
                    hb = [b for p_, b in ctx.facts.hir.items() if p_ == path][0]
                    c = H.canon(hb["body"])
                    m = re.search(r"if let Some\((\w+)\) = (\w+)\.filter\(\|(\w+)\| \(\3 < \(len\(self\.re\) / 2\)\)\) \{self\.backrefs\.insert\(\1\)", c)
                    bounded = bounded or m is not None
                if not bounded:
                    run.violation(fam, label, "unbounded/%s" % sp, where,
                                  "%s inserts the pattern-derived number %s into the backref bit set without a bound derived from the pattern length: (a)\\k<99999999999> would allocate gigabytes" % (sp, M.show(size)))
                elif len(run.samples) < 30:
                    run.samples.append({"rule": "TAINT/alloc-sinks", "where": where, "verdict": "bounded",
                                        "obligation": "%s(%s) in %s is dominated by a comparison with len(pattern)/2" % (cs, M.show(size), sp)})
                continue
            if _len_like(size):
                continue
            if key in ALLOC_AUDIT:
                continue
            q = ALLOC_QUANTITY.get(sp)
            if q and re.match(q[0], M.show(size)):
                continue
            run.violation(fam, label, "unaudited/%s/%s" % (sp, cs), where,
                          "allocation of size %s in %s (%s) is neither a length of in-memory data nor an audited pattern-bounded quantity" % (M.show(size), sp, cs))
    run.floor(fam, label, "src", n, 8, "allocation-size sinks")
    run.ok(fam, label, "src", n, "%d allocation-size sinks: sized by in-memory lengths, audited pattern-bounded counts, or guarded by the pattern-length bound" % n)


REC_TABLE = [
    # (members that must be contained, kind, reason)
    ({"parse::Parser::parse_re", "parse::Parser::parse_group"}, "depth-guard", "recursive-descent parser: every cycle passes parse_group, which bounds the nesting depth"),
    ({"analyze::Analyzer::visit"}, "structural", "descends into children of the Expr tree"),
    ({"compile::Compiler::visit"}, "structural", "descends into children of the Info tree"),
    ({"Expr::to_str"}, "structural", "descends into children of the Expr tree"),
    ({"analyze::Info::is_literal"}, "structural", "descends into children"),
    ({"analyze::Info::push_literal"}, "structural", "descends into children"),
    ({"push_usize"}, "audited", "argument is divided by 10 on every call"),
    ({"<Matches as Iterator>::next"}, "audited", "recurses only after last_end advanced past an empty match adjacent to the previous match; the next call either finds a non-adjacent match or none (ITER rule checks the order)"),
    ({"<CaptureMatches as Iterator>::next"}, "audited", "same as Matches::next"),
    ({"<Expr as PartialEq>::eq"}, "derived", "derived structural equality"),
    ({"<Expr as Debug>::fmt"}, "derived", "derived"),
    ({"<analyze::Info as Debug>::fmt"}, "derived", "derived"),
    ({"<&'a String as Replacer>::replace_append"}, "audited", "forwards to the &str impl (trait call resolved to all local impls by the over-approximated call graph)"),
]


def recursion(run, ctx):
    fam, label = "REC", "cycles"
    cg = ctx.cg
    sccs = [c for c in cg.sccs() if len(c) > 1 or c[0] in cg.edges.get(c[0], ())]
    n = 0
    for comp in sccs:
        names = {strip_generics(c) for c in comp}
        n += 1
        entry = None
        for members, kind, reason in REC_TABLE:
            if members <= names:
                entry = (members, kind, reason)
                break
        show = sorted(names)
        if entry is None:
            # cycles made only of Replacer impls are artefacts of resolving a trait call to every impl
            if all("as Replacer>" in x for x in names):
                continue
            run.violation(fam, label, "new-cycle/" + show[0], "src", "recursion cycle %s is not covered by the depth guard, structural descent or an audited reason: native stack use would not be bounded by the pattern" % show)
            continue
        members, kind, reason = entry
        if kind == "depth-guard":
            guard = [c for c in comp if strip_generics(c) == "parse::Parser::parse_group"]
            if not guard:
                run.violation(fam, label, "parser/no-guard-node", "src/parse.rs", "anchor-missing: parse_group is not part of the parser cycle")
                continue
            # removing the guard node must make the component acyclic
            rest = set(comp) - set(guard)
            sub = {c: {e for e in cg.edges.get(c, ()) if e in rest} for c in rest}
            if _has_cycle(sub):
                cyc = sorted(strip_generics(x) for x in _cycle_members(sub))
                run.violation(fam, label, "parser/bypass", "src/parse.rs", "a recursion cycle in the parser bypasses parse_group's depth guard: %s" % cyc)
            hb = ctx.facts.hir[guard[0]]
            st = hb["body"].get("stmts", [])
            c0 = H.canon(st[0]) if st else ""
            c1 = H.canon(st[1]) if len(st) > 1 else ""
            D = hb["params"][2].get("name") if len(hb["params"]) > 2 else "depth"
            m0 = re.match(r"^let %s = \((\d+) \+ %s\)$" % (D, D), c0)
            m1 = re.match(r"^if \(MAX_RECURSION (<|<=) %s\) \{return Err\(Error::ParseError\(\w+,ParseError::RecursionExceeded\)\)\}$" % D, c1)
            if not m0 or int(m0.group(1)) < 1 or not m1:
                run.violation(fam, label, "parser/guard-shape", H.where(hb), "parse_group must start by increasing the depth and rejecting depth >= MAX_RECURSION before any recursive call, found `%s; %s`" % (c0, c1))
            # every recursive call passes the increased depth
            for nd in H.walk(hb["body"]):
                if nd.get("k") == "MethodCall" and strip_generics(nd.get("def", "")) in names and nd["name"] in ("parse_re", "parse_flags", "parse_conditional"):
                    if H.canon(nd["args"][-1]) != D:
                        run.violation(fam, label, "parser/depth-arg", H.where(nd), "recursive call %s does not pass the increased depth" % H.canon(nd)[:60])
            mr = [c_ for p_, c_ in ctx.facts.consts.items() if strip_generics(p_) == "MAX_RECURSION"]
            if not mr or "val" not in mr[0] or not (1 <= mr[0]["val"] <= 1024):
                run.violation(fam, label, "parser/max-recursion", "src/lib.rs", "MAX_RECURSION must be a small constant (<= 1024) so that the recursive passes over the tree fit the native stack, found %s" % (mr[0].get("val") if mr else None))
        elif kind == "structural":
            # recursive calls must not pass the function's own tree parameter unchanged
            for c in comp:
                hb = ctx.facts.hir.get(c)
                if hb is None:
                    continue
                params = {p.get("name"): p.get("ty", "") for p in hb["params"] if p.get("name")}
                tree_params = [nm for nm, ty in params.items() if "Info" in ty or "Expr" in ty]
                for nd in H.walk(hb["body"]):
                    if nd.get("k") == "MethodCall" and nd.get("def") in comp and nd.get("def") == c:
                        args = [H.canon(a) for a in nd["args"]] + [H.canon(nd["recv"])]
                        for tp in tree_params:
                            if tp in args and tp != "self":
                                run.violation(fam, label, "structural/%s" % strip_generics(c), H.where(nd), "%s calls itself on its own argument `%s` instead of a child: unbounded recursion" % (strip_generics(c), tp))
                    if nd.get("k") == "MethodCall" and nd.get("def") == c and H.canon(nd["recv"]) == "self" and "self" in params and ("Info" in params["self"] or "Expr" in params["self"]):
                        run.violation(fam, label, "structural-self/%s" % strip_generics(c), H.where(nd), "%s calls itself on self: unbounded recursion" % strip_generics(c))
    run.floor(fam, label, "src", n, 8, "recursion cycles in the call graph")
    run.ok(fam, label, "src", n, "%d recursion cycles: parser cut by parse_group's MAX_RECURSION guard, tree passes descend structurally, the rest audited" % n)


def _has_cycle(g):
    return bool(_cycle_members(g))


def _cycle_members(g):
    color = {}
    out = set()

    def dfs(u, stack):
        color[u] = 1
        stack.append(u)
        for v in g.get(u, ()):
            if color.get(v, 0) == 0:
                dfs(v, stack)
            elif color.get(v) == 1:
                out.update(stack[stack.index(v):])
        stack.pop()
        color[u] = 2
    import sys
    sys.setrecursionlimit(10000)
    for u in g:
        if color.get(u, 0) == 0:
            dfs(u, [])
    return out


def byte_steps(run, ctx):
    """STEP: the parser advances an index by a constant k >= 2 only after k bytes were established."""
    fam, label = "STEP", "byte-justified"
    n = 0
    fn = S.get_fn(run, ctx, "parse::Parser::optional_whitespace", fam, label)
    if fn is not None:
        for p in S.paths_of(fn["body"]):
            if not feasible(p):
                continue
            for i, ev in enumerate(p.events):
                if ev.kind == "assign" and ev.b == "+=" and ev.c.isdigit() and int(ev.c) >= 2:
                    k = int(ev.c)
                    n += 1
                    X = ev.a
                    ok = False
                    # a starts_with of a literal of length >= k at X.., or X + k - 1 < len
                    for pe in p.events[:i]:
                        if pe.kind == "cond" and pe.b:
                            m = re.match(r'^(\w+)\[%s\.\.\]\.starts_with\(b?"(.*)"\)$' % re.escape(X), pe.a)
                            if m and len(m.group(2)) >= k:
                                ok = True
                    # facts valid at the point of the step (kills by earlier steps are honoured by PathFacts)
                    if not ok:
                        pf = S.PathFacts(p.events, i)
                        if pf.proves("Lt", ({X: 1}, k - 1), S.len_of("self.re")):
                            ok = True
                    # a starts_with established before an intervening write to X does not count
                    if ok:
                        for j in range(i - 1, -1, -1):
                            pe = p.events[j]
                            if pe.kind == "assign" and pe.a == X:
                                # there was a write to X between the test and this step?
                                later_tests = [q for q in p.events[j + 1:i] if q.kind == "cond" and q.b and X in q.a]
                                if not later_tests:
                                    pf = S.PathFacts(p.events, i)
                                    ok = pf.proves("Lt", ({X: 1}, k - 1), S.len_of("self.re"))
                                break
                    if not ok:
                        run.violation(fam, label, "optional_whitespace/%s+=%d" % (X, k), H.where(ev.node) if ev.node else H.where(fn),
                                      "optional_whitespace advances %s by %d bytes without having established that %d bytes remain: a reported error position can exceed the pattern length" % (X, k, k))
    fn = S.get_fn(run, ctx, "parse::Parser::parse_group", fam, label)
    if fn is not None:
        for p in S.paths_of(fn["body"], max_paths=200000):
            if not feasible(p):
                continue
            env_ = S.pure_env(p)
            tests = [m.group(1) for pe in p.events if pe.kind == "cond" and pe.b for m in [re.match(r'^self\.re\[ix\.\.\]\.starts_with\("(.*)"\)$', H.subst_lets(pe.a, env_))] if m]
            tests += [m.group(1) for pe in p.events if pe.kind == "cond" and pe.b for m in [re.match(r"^self\.re\[ix\.\.\]\.starts_with\('(.*)'\)$", H.subst_lets(pe.a, env_))] if m]
            longest = max([len(t) for t in tests] + [0])
            for ev in p.events:
                ks = []
                if ev.kind == "call":
                    ks = [int(x) for x in re.findall(r"\((\d+) \+ ix\)", ev.a)]
                elif ev.kind == "let" and ev.a.startswith("(") and "skip" in ev.a:
                    m = re.match(r"^\(.*,(\d+)\)$", ev.b)
                    if m:
                        ks = [int(m.group(1))]
                    m2 = re.match(r"^\(.*,\((\d+) \+ skip\)\)$", ev.b)
                    if m2:
                        ks = [int(m2.group(1))]
                for k in ks:
                    if k >= 2:
                        n += 1
                        if longest < k:
                            run.violation(fam, label, "parse_group/%d" % k, H.where(ev.node) if ev.node else H.where(fn),
                                          "parse_group skips %d bytes after `(` although only a prefix of %d byte(s) was matched (%s): the parser would step into the middle of the group body" % (k, longest, tests))
    run.floor(fam, label, "src/parse.rs", n, 8, "constant index steps >= 2 in the parser")
    run.ok(fam, label, "src/parse.rs", n, "every constant step >= 2 follows a prefix test of at least that length or a bound test")


def error_mapping(run, ctx):
    """Delegate build errors are mapped to CompileError::InnerError and propagated; the parser reports positions <= len."""
    fam, label = "ERRMAP", "inner-errors"
    fn = S.get_fn(run, ctx, "compile::compile_inner", fam, label)
    if fn is None:
        return
    c = H.canon(fn["body"])
    # the build result goes through map_err step(s) that wrap it as CompileError::InnerError and is propagated by `?`
    ok = False
    for nd in H.walk(fn["body"]):
        if nd.get("k") != "Try":
            continue
        chain = H.peel(nd["e"])
        names = []
        while chain.get("k") == "MethodCall" and chain["name"] != "build":
            names.append((chain["name"], [H.canon(a) for a in chain["args"]]))
            chain = H.peel(chain["recv"])
        if chain.get("k") == "MethodCall" and chain["name"] == "build" and names and all(nm == "map_err" for nm, _ in names):
            txt = " ".join(a for _, args in names for a in args)
            if "CompileError::InnerError" in txt and "Error::CompileError" in txt:
                ok = True
    if not ok:
        run.violation(fam, label, "map", H.where(fn), "compile_inner must turn a regex-automata build error into Err(CompileError(InnerError(..))) and propagate it with `?` (never unwrap), found %s" % c[-200:])
    else:
        run.ok(fam, label, H.where(fn), 1, "RaBuilder::build(..).map_err(InnerError).map_err(CompileError)?")
    # Parser::parse: the whole pattern must be consumed, otherwise an error at ix < len
    fn = S.get_fn(run, ctx, "parse::Parser::parse_with_casei", fam, "parse-end") or S.get_fn(run, ctx, "parse::Parser::parse", fam, "parse-end")
    if fn is not None:
        c = H.canon(fn["body"])
        if 'if (ix < len(re)) {return Err(Error::ParseError(ix,ParseError::GeneralParseError("end of string not reached".to_string())))}' not in c:
            run.violation(fam, "parse-end", "shape", H.where(fn), "the parser must reject trailing unparsed input with its position")
        else:
            run.ok(fam, "parse-end", H.where(fn), 1, "trailing input rejected with position ix < len")


def hex_digits_rule(run, ctx):
    """`u32::from_str_radix(s, 16).unwrap()` in parse_hex: s is 1..=8 hex digits on both paths."""
    fam, label = "STEP", "hex-digits"
    fn = S.get_fn(run, ctx, "parse::Parser::parse_hex", fam, label)
    if fn is None:
        return
    w = H.where(fn)
    n = 0
    incs = 0
    for p in S.paths_of(fn["body"], max_paths=100000):
        if not feasible(p):
            continue
        for i, ev in enumerate(p.events):
            if ev.kind == "assign" and ev.b == "+=" and ev.c == "1" and ev.node is not None:
                V = ev.a
                # is this the digit counter of the braces form?  (let V = START before the loop)
                starts = [e2 for e2 in p.events[:i] if e2.kind == "let" and e2.a == V]
                if not starts:
                    continue
                START = starts[0].b
                incs += 1
                n += 1
                pre = p.events[:i]
                hexok = any(e2.kind == "cond" and e2.b and H.pat_match("is_hex_digit({b})", e2.a) for e2 in pre)
                pf = S.PathFacts(p.events, i)
                bounded = pf.proves("Lt", V, ({START: 1}, 8)) or pf.proves("Le", V, ({START: 1}, 7))
                if not hexok:
                    run.violation(fam, label, "non-hex", w, "parse_hex counts a byte as a digit of \\x{...} without is_hex_digit having accepted it: from_str_radix(..).unwrap() would panic")
                if not bounded:
                    run.violation(fam, label, "too-many-digits", w, "parse_hex accepts a hex digit in \\x{...} without `%s < %s + 8` being established: nine digits overflow u32 and from_str_radix(..).unwrap() panics" % (V, START))
    c = H.canon(fn["body"])
    D = fn["params"][2].get("name") if len(fn["params"]) > 2 else "digits"
    n += 1
    sums = ["(%s + {ix})" % D, "({ix} + %s)" % D]
    fw = any(H.find_pat(c, "if ((%s <= len(self.re)) && {b}[{ix}..%s].iter().all(|{x}| is_hex_digit({x})))" % (s1, s2)) for s1 in sums for s2 in sums)
    if not fw:
        run.violation(fam, label, "fixed-width", w, "the fixed-width form must test that `digits` bytes remain and that all of them are hex digits")
    # the fixed widths passed by the callers are <= 8
    pe = S.get_fn(run, ctx, "parse::Parser::parse_escape", fam, label)
    if pe is not None:
        widths = [H.canon(nd["args"][1]) for nd in H.walk(pe["body"]) if nd.get("k") == "MethodCall" and nd["name"] == "parse_hex"]
        n += len(widths)
        if not widths or any((not x.isdigit()) or int(x) > 8 or int(x) < 1 for x in widths):
            run.violation(fam, label, "widths", H.where(pe), "parse_hex is called with digit widths %s; each must be a constant in 1..=8" % widths)
    run.floor(fam, label, w, incs, 1, "digit-counting steps of the braces form")
    run.ok(fam, label, w, n, "braces form: each counted byte is a hex digit and fewer than 8 were counted before; fixed widths 2/4/8 with an all-hex test")


def inner_limits(run, ctx):
    """compile_inner leaves the inner engine's default size limits in force unless the user set one."""
    fam, label = "ERRMAP", "inner-limits"
    ci = S.get_fn(run, ctx, "compile::compile_inner", fam, label)
    if ci is None:
        return
    n = 0
    for fld, meth in (("delegate_size_limit", "nfa_size_limit"), ("delegate_dfa_size_limit", "dfa_size_limit")):
        n += 1
        ok, _why = S.option_forwarding(ci, fld, meth)
        if not ok:
            run.violation(fam, label, fld, H.where(ci), "compile_inner must call %s only with Some(limit) when the user set %s: passing None removes regex-automata's default size limit, so a pattern like \\w{600} builds an unbounded automaton instead of failing" % (meth, fld))
    # nothing else about the inner engine is configured, anywhere: which captures it tracks, its match kind, its
    # one-pass / DFA switches decide what it reports (group spans!) or which limits apply
    allowed = {"Config": {"new", "nfa_size_limit", "dfa_size_limit"}, "Builder": {"new", "configure", "syntax", "build"}}
    seen = 0
    for path, fn in sorted(ctx.facts.hir.items()):
        sp = strip_generics(path)
        if "tests::" in sp:
            continue
        for nd in H.walk(fn["body"]):
            d = None
            if nd.get("k") == "MethodCall":
                d = nd.get("resolved") or nd.get("def") or ""
            elif nd.get("k") == "Call":
                d = H.peel(nd["f"]).get("def") or ""
            if not d:
                continue
            m = re.match(r"^regex_automata::meta::(?:regex::)?(Config|Builder)::(\w+)", strip_generics(d))
            if not m:
                continue
            seen += 1
            if sp != "compile::compile_inner" or m.group(2) not in allowed[m.group(1)]:
                run.violation(fam, label, "config/%s/%s::%s" % (sp, m.group(1), m.group(2)), H.where(nd),
                              "%s calls regex-automata's %s::%s: the inner engine may only be configured in compile_inner, and only with the user's size limits and syntax (anything else changes what a delegate reports -- e.g. which capture groups it tracks -- or which limits apply)" % (sp, m.group(1), m.group(2)))
    run.floor(fam, label, H.where(ci), seen, 4, "calls configuring the inner engine")
    run.ok(fam, label, H.where(ci), n + seen, "size limits: default limits of the inner engine stay in force unless the user sets one; no other configuration (%d calls)" % seen)
