"""Iterator / split / replace state-machine obligations (C08, C09, C10, C11)."""
import re

import hirlib as H
import shape as S
from facts import strip_generics

SEARCH_RX = re.compile(r"Regex::(find|captures)_from_pos(_with_option_flags)?$")


def _search_calls(path):
    return [i for i, ev in enumerate(path.events) if ev.kind == "call" and ev.b and SEARCH_RX.search(ev.b)]


def iter_state_machine(run, ctx, fn_suffix, label):
    """Obligations on `Matches::next`-shaped iterators (shared by find_iter and captures_iter)."""
    fam = "ITER"
    fn = S.get_fn(run, ctx, fn_suffix, fam, label)
    if fn is None:
        return
    w = H.where(fn)
    paths = S.paths_of(fn["body"])
    with_search = [(p, _search_calls(p)) for p in paths]
    n_search = sum(1 for _, c in with_search if c)
    if not run.floor(fam, label, w, n_search, 3, "paths through a Regex::*_from_pos search call in %s" % fn_suffix):
        return
    # roles from the (unique) search call
    texts, poss, flagss, callees = set(), set(), set(), set()
    for p, cs in with_search:
        for i in cs:
            n = p.events[i].node
            args = n["args"]
            texts.add(H.canon(args[0]))
            poss.add(H.canon(args[1]))
            flagss.add(H.canon(args[2]) if len(args) > 2 else "")
            callees.add(p.events[i].b)
    if len(texts) != 1 or len(poss) != 1:
        run.violation(fam, label, "anchor-missing/search-roles", w,
                      "anchor-missing: search call roles are not unique (text %s, pos %s)" % (texts, poss))
        return
    TEXT, POS = texts.pop(), poss.pop()
    FLAGS = flagss.pop() if len(flagss) == 1 else None
    LEN = S.len_of(TEXT)
    self_name = strip_generics(fn["path"])
    n_ob = 0

    def viol(key, node_or_where, what):
        run.violation(fam, label, "%s/%s" % (fn_suffix, key), node_or_where if isinstance(node_or_where, str) else H.where(node_or_where),
                      "%s: %s" % (fn_suffix, what))

    # O1: stop only when pos > len; search only when pos <= len
    for p, cs in with_search:
        if cs:
            pf = S.PathFacts(p.events, cs[0])
            n_ob += 1
            if not pf.proves("Le", POS, LEN):
                viol("search-without-bound", p.events[cs[0]].node,
                     "search is reached without %s <= len(%s) being established (iterating past the end / Input::span panic)" % (POS, TEXT))
        else:
            v = S.ret_value(p)
            if v is not None and v != "None" and not v.endswith(".next()"):
                viol("yield-without-search", w, "yields %s on a path that never searched" % v)
            if v == "None":
                pf = S.PathFacts(p.events)
                n_ob += 1
                if not pf.proves("Gt", POS, LEN):
                    viol("early-stop", w, "returns None before searching although %s > len(%s) is not established (iteration would stop early)" % (POS, TEXT))
    # arms of the search result
    lastmatch = set()
    mvar = set()
    for p, cs in with_search:
        if not cs:
            continue
        arms = [ev for ev in p.events[cs[0]:] if ev.kind == "arm"]
        if not arms:
            continue
        arm = arms[0].b
        after = p.events[cs[0]:]
        mo_ = re.match(r"^Ok\(([a-z_]\w*)\)$", arm or "")
        if mo_:
            # the Option inside Ok(..) is decided by a later `match` / `if let` / `let .. else` on the bound variable
            for i_, kind_, bound_ in S.opt_outcomes(p, mo_.group(1)):
                if i_ > cs[0]:
                    arm = "Ok(None)" if kind_ == "none" else "Ok(%s)" % (bound_ if (bound_ or "").startswith("Some(") else "Some(_)")
                    break
        if arm.startswith("Err("):
            # O2: error poisons the iterator and is yielded
            n_ob += 1
            idx = [i for i in S.assigns_to(p, lambda s: s == POS, cs[0])]
            ok = False
            for i in idx:
                node = p.events[i].node
                pf = S.PathFacts(p.events, i)
                if p.events[i].b == "=" and pf.proves("Gt", H.linear(node["r"]), LEN):
                    ok = True
            if not ok:
                viol("error-not-final", arms[0].node, "on a search error %s is not set beyond len(%s): the iterator would search again after yielding Err" % (POS, TEXT))
            v = S.ret_value(p)
            if not (v and H.pat_match("Some(Err({e}))", v)):
                viol("error-not-yielded", arms[0].node, "search error is not yielded as Some(Err(_)) (got %s)" % v)
        elif arm in ("Ok(Option::None)", "Ok(None)"):
            n_ob += 1
            if S.ret_value(p) != "None":
                viol("nomatch-not-none", arms[0].node, "no match does not end the iteration (yields %s)" % S.ret_value(p))
            for i in S.assigns_to(p, lambda s_: s_ == POS, cs[0]):
                node = p.events[i].node
                pf = S.PathFacts(p.events, i)
                if not (p.events[i].b == "=" and pf.proves("Gt", H.linear(node["r"]), LEN)):
                    viol("nomatch-parks-inside", node, "after a search without a match %s is set to %s, which is not beyond len(%s): a caller polling again (Split does) would search once more from there" % (POS, p.events[i].c, TEXT))
        elif arm.startswith("Ok(Some("):
            # O4
            conds = [(i, ev) for i, ev in enumerate(p.events) if ev.kind == "cond" and i > cs[0]]
            empt = None
            for i, ev in conds:
                m = H.pat_match("({m}.end == {m}.start)", ev.a) or H.pat_match("({m}.start == {m}.end)", ev.a)
                if m:
                    empt = (i, ev, m.group("m"), bool(ev.b))
                    break
                m = H.pat_match("({m}.end != {m}.start)", ev.a) or H.pat_match("({m}.start != {m}.end)", ev.a) \
                    or H.pat_match("({m}.start < {m}.end)", ev.a) or H.pat_match("({m}.end > {m}.start)", ev.a)
                if m:
                    empt = (i, ev, m.group("m"), not ev.b)      # the same test, asked the other way round
                    break
            n_ob += 1
            if empt is None:
                viol("no-empty-test", arms[0].node, "no test `m.start == m.end` after a successful search: empty matches would not advance")
                continue
            ei, eev, M_, is_empty = empt
            mvar.add(M_)
            pos_assigns = S.assigns_to(p, lambda s: s == POS, ei)
            n_ob += 1
            if not pos_assigns:
                viol("pos-not-updated", eev.node, "%s is not updated after a match" % POS)
                continue
            pa = p.events[pos_assigns[0]]
            if is_empty:   # empty match
                want = "next_utf8(%s,%s.end)" % (TEXT, M_)
                if pa.c != want:
                    viol("empty-no-step", pa.node, "after an empty match %s must become next_utf8(%s, %s.end), found %s" % (POS, TEXT, M_, pa.c))
                adj = [(i, ev) for i, ev in conds if i > ei and (H.pat_match("(Some(%s.end) == {*lm})" % M_, ev.a) or H.pat_match("({*lm} == Some(%s.end))" % M_, ev.a))]
                n_ob += 1
                if not adj:
                    viol("no-adjacent-test", eev.node, "empty match is not compared with the end of the previous match (adjacent empty matches must be skipped)")
                else:
                    ai, aev = adj[0]
                    mm = H.pat_match("(Some(%s.end) == {*lm})" % M_, aev.a) or H.pat_match("({*lm} == Some(%s.end))" % M_, aev.a)
                    lastmatch.add(mm.group("lm"))
                    if ai < pos_assigns[0]:
                        viol("skip-before-step", aev.node, "adjacent-empty-match skip is decided before %s is advanced (would recurse forever)" % POS)
                    if aev.b:
                        # skip: must recurse into next() and not yield
                        rec = [i for i, ev in enumerate(p.events) if ev.kind == "call" and i > ai and ev.b and strip_generics(ev.b) == self_name]
                        v = S.ret_value(p)
                        if not rec or not (v or "").endswith(".next()"):
                            viol("skip-not-recursing", aev.node, "an empty match adjacent to the previous match must be dropped by continuing with next(), found yield %s" % v)
                        lm_before = [i for i in S.assigns_to(p, lambda s, L=mm.group("lm"): s == L, ei) if i < (rec[0] if rec else 0)]
                        # updating last_match before recursing with the same value is harmless; nothing to require
            else:
                if pa.c != "%s.end" % M_:
                    viol("nonempty-pos", pa.node, "after a non-empty match %s must become %s.end, found %s" % (POS, M_, pa.c))
            v = S.ret_value(p)
            if v and H.pat_match("Some(Ok({x}))", v):
                lm = [i for i, ev in enumerate(p.events) if ev.kind == "assign" and i > ei and ev.b == "=" and ev.c == "Some(%s.end)" % M_]
                n_ob += 1
                if not lm:
                    viol("lastmatch-not-recorded", eev.node, "a yielded match does not record Some(%s.end) as the previous match end" % M_)
                else:
                    lastmatch.add(p.events[lm[0]].a)
        else:
            viol("unknown-arm", arms[0].node, "unrecognised arm %s on the search result" % arm)
    # O5: skipped-empty-match flag
    n_ob += 1
    if len(lastmatch) != 1:
        viol("lastmatch-role", w, "cannot identify the previous-match-end field (candidates %s)" % sorted(lastmatch))
    else:
        LM = lastmatch.pop()
        if not FLAGS:
            viol("no-option-flags", w, "the search call takes no option flags: the VM is never told that an empty match was skipped (\\G would match again after a skipped empty match)")
        else:
            for p, cs in with_search:
                if not cs:
                    continue
                pre = p.events[:cs[0]]
                # value of the flags expression on this path
                val = FLAGS
                for ev in pre:
                    if ev.kind == "let" and ev.a == FLAGS:
                        val = ev.b
                skipped = False
                x = None
                for ev in pre:
                    if ev.kind == "letcond" and ev.b == LM and ev.c:
                        mm = H.pat_match("Some({x})", ev.a)
                        if mm:
                            x = mm.group("x")
                    if ev.kind == "arm" and ev.a == LM:
                        mm = H.pat_match("Some({x})", ev.b)
                        x = mm.group("x") if mm else None
                if x is not None:
                    pf = S.PathFacts(pre)
                    if pf.proves("Lt", x, POS):
                        skipped = True
                    elif not pf.proves("Ge", x, POS):
                        viol("flag-undetermined", w, "cannot relate %s and %s before the search call" % (x, POS))
                n_ob += 1
                is_flag = val.endswith("OPTION_SKIPPED_EMPTY_MATCH")
                if skipped and not is_flag:
                    viol("flag-missing", p.events[cs[0]].node, "search after a skipped empty match (%s > previous match end) does not pass OPTION_SKIPPED_EMPTY_MATCH (passes %s)" % (POS, val))
                if not skipped and val != "0":
                    viol("flag-spurious", p.events[cs[0]].node, "search passes %s although no empty match was skipped (%s <= previous match end or no previous match)" % (val, POS))
    run.ok(fam, label, w, n_ob, "state machine of %s: roles text=%s pos=%s" % (fn_suffix, TEXT, POS),
           sample="every path searching has %s <= len(%s); Err => %s > len and Some(Err); empty match => %s = next_utf8; adjacent empty skipped; flag iff skipped" % (POS, TEXT, POS, POS))


def next_utf8_rule(run, ctx):
    fam, label = "ITER", "next_utf8"
    fn = S.get_fn(run, ctx, "next_utf8", fam, label)
    if fn is None:
        return
    w = H.where(fn)
    params = [p.get("name") for p in fn["params"]]
    if len(params) != 2:
        run.violation(fam, label, "anchor-missing/params", w, "anchor-missing: next_utf8(text, i) expected")
        return
    TEXT, I = params
    paths = S.paths_of(fn["body"], combinators=True)
    n = 0
    for p in paths:
        v = S.ret_value(p)
        if v is None:
            continue
        n += 1
        inb = any(ev.kind == "arm" and ev.b.startswith("Some(") for ev in p.events) or \
            any(ev.kind == "letcond" and ev.c and ev.a.startswith("Some(") and ".get(%s)" % I in (ev.b or "") for ev in p.events) or \
            any(ev.kind == "let" and ev.c is True and (ev.a or "").startswith("Some(") and ".get(%s)" % I in (ev.b or "") for ev in p.events) or \
            any(ev.kind == "cond" and ev.b and H.pat_match("(%s < len(%s))" % (I, TEXT), ev.a) for ev in p.events)
        # the result node
        node = p.valnode
        lf = H.linear(node) if node is not None else None
        if lf is None:
            run.violation(fam, label, "next_utf8/nonlinear", w, "next_utf8: result %s is not i + step" % v)
            continue
        terms, c = lf
        if terms.get(I) != 1:
            run.violation(fam, label, "next_utf8/not-from-i", w, "next_utf8: result %s is not i + step" % v)
            continue
        rest = {k: vv for k, vv in terms.items() if k != I}
        if inb:
            # must step by the code point length of the byte at i
            ok = (len(rest) == 1 and c == 0 and list(rest.values())[0] == 1 and list(rest.keys())[0].startswith("codepoint_len("))
            if not ok:
                run.violation(fam, label, "next_utf8/step-in-bounds", H.where(node),
                              "next_utf8: inside the text the step must be codepoint_len(byte at i), found %s" % v)
        else:
            if rest or c < 1:
                run.violation(fam, label, "next_utf8/step-at-end", H.where(node),
                              "next_utf8: at the end of the text the result must be beyond i (i + k, k >= 1), found %s" % v)
    run.floor(fam, label, w, n, 2, "return paths of next_utf8")
    run.ok(fam, label, w, n, "steps by codepoint_len inside the text, beyond i at the end")


# ---------------------------------------------------------------------------------------------
# C09: dispatch coherence between the two engines and the entry points
# ---------------------------------------------------------------------------------------------

def _params(fn):
    out = []
    for p in fn["params"]:
        out.append((p.get("name"), p.get("ty", "")))
    return out


def dispatch_rule(run, ctx):
    fam, label = "DISPATCH", "regex-impl"
    n_run = 0
    n_wrap = 0
    seen_fns = []
    for path, fn in sorted(ctx.facts.hir.items()):
        sp = strip_generics(path)
        if not sp.startswith("Regex::"):
            continue
        body = fn["body"]
        matches = H.match_arms_on(body, "RegexImpl")
        run_calls = [n for n in H.walk(body) if n.get("k") == "Call" and H.peel(n["f"]).get("def", "").endswith("vm::run")]
        if not matches and not run_calls:
            continue
        params = _params(fn)
        text_p = [n for n, t in params if t == "&str" or t.startswith("&'") and t.endswith(" str")]
        pos_p = [n for n, t in params if t == "usize"]
        flag_p = [n for n, t in params if t == "u32"]
        w = H.where(fn)
        for m in matches:
            vs = []
            for a in m["arms"]:
                if H.is_wild_arm(a):
                    run.violation(fam, label, "%s/wildcard-arm" % sp, H.where(a), "%s: wildcard arm in match on RegexImpl (an engine could be silently skipped)" % sp)
                vs += H.arm_variants(a, "RegexImpl")
            if sorted(set(vs)) != ["Fancy", "Wrap"]:
                run.violation(fam, label, "%s/variants" % sp, H.where(m), "%s: match on RegexImpl handles %s, expected Fancy and Wrap" % (sp, sorted(set(vs))))
        searching = sp.split("::")[-1] in ("is_match",) or "from_pos" in sp
        if not searching:
            continue
        seen_fns.append(sp)
        if len(text_p) != 1:
            run.violation(fam, label, "%s/text-param" % sp, w, "anchor-missing: %s should take exactly one &str (params %s)" % (sp, params))
            continue
        TEXT = text_p[0]
        POS = pos_p[0] if pos_p else "0"
        FLG = flag_p[0] if flag_p else "0"
        # Fancy side
        for m in matches:
            for a in m["arms"]:
                vs = H.arm_variants(a, "RegexImpl")
                binds = {}
                for pn in H.walk(a["pat"]):
                    if pn.get("k") == "StructPat":
                        for f in pn["fields"]:
                            if f["pat"].get("k") == "Binding":
                                binds[f["name"]] = f["pat"]["name"]
                if vs == ["Fancy"]:
                    calls = [n for n in H.walk(a["body"]) if n.get("k") == "Call" and H.peel(n["f"]).get("def", "").endswith("vm::run")]
                    if len(calls) != 1:
                        run.violation(fam, label, "%s/fancy-no-run" % sp, H.where(a), "%s: Fancy arm should call vm::run exactly once (found %d)" % (sp, len(calls)))
                        continue
                    n_run += 1
                    for pth in S.paths_of(a["body"]):
                        if pth.exit in ("fall", "return") and not any(ev.kind == "call" and (ev.b or "").endswith("vm::run") for ev in pth.events):
                            run.violation(fam, label, "%s/fancy-shortcut" % sp, H.where(a), "%s: the Fancy arm answers %s on a path that never runs the program (a shortcut in one entry point makes it disagree with the others, e.g. for an empty match at the end of the text)" % (sp, (pth.val or "")[:40]))
                    args = [H.canon(x) for x in calls[0]["args"]]
                    want = [binds.get("prog", "?prog"), TEXT, POS, FLG, binds.get("options", "?options")]
                    if args != want:
                        run.violation(fam, label, "%s/fancy-args" % sp, H.where(calls[0]),
                                      "%s: vm::run is called with (%s) but the entry point's own (%s) is required: every entry point must run the same program on the caller's text/position/flags with the regex's options" % (sp, ", ".join(args), ", ".join(want)))
                elif vs == ["Wrap"]:
                    inner = binds.get("inner", "?inner")
                    mc = [n for n in H.walk(a["body"]) if n.get("k") == "MethodCall" and H.canon(n["recv"]) == inner
                          and n["name"] in ("is_match", "search", "captures", "search_half", "search_slots", "find", "search_captures")]
                    if not mc:
                        run.violation(fam, label, "%s/wrap-no-search" % sp, H.where(a), "%s: Wrap arm does not search with the wrapped regex" % sp)
                        continue
                    n_wrap += 1
                    for pth in S.paths_of(a["body"]):
                        if pth.exit in ("fall", "return") and not any(ev.kind == "call" and H.canon(mc[0]) == ev.a for ev in pth.events):
                            run.violation(fam, label, "%s/wrap-shortcut" % sp, H.where(a), "%s: the Wrap arm answers %s on a path that never searches with the wrapped regex" % (sp, (pth.val or "")[:40]))
                    # named locals of the arm (`let input = Input::new(..)..`) are looked through
                    lets = {}
                    for nd in H.walk(a["body"]):
                        if nd.get("k") == "Let" and nd.get("init") is not None and nd["pat"].get("k") == "Binding" and not nd["pat"].get("mut"):
                            lets[nd["pat"]["name"]] = H.canon(nd["init"])
                    for call in mc:
                        if not call["args"]:
                            continue
                        inp = H.subst_lets(H.canon(call["args"][0]), lets)
                        if pos_p:
                            if not inp.endswith("Input::new(%s).span(%s..len(%s))" % (TEXT, POS, TEXT)):
                                run.violation(fam, label, "%s/wrap-input" % sp, H.where(call),
                                              "%s: wrapped regex searches %s, expected Input::new(%s).span(%s..%s.len()) (every search of the wrapped regex must see the caller's whole text: anchors and look-around at the edges depend on it)" % (sp, inp, TEXT, POS, TEXT))
                        else:
                            if inp != TEXT and not inp.endswith("Input::new(%s)" % TEXT):
                                run.violation(fam, label, "%s/wrap-input" % sp, H.where(call), "%s: wrapped regex searches %s, expected the whole %s" % (sp, inp, TEXT))
    # forwarding wrappers
    fwd = {"Regex::find": ("find_from_pos", "{t},0"), "Regex::captures": ("captures_from_pos", "{t},0")}
    n_fwd = 0
    for sp, (callee, _) in fwd.items():
        fn = S.get_fn(run, ctx, sp, fam, label)
        if fn is None:
            continue
        params = _params(fn)
        TEXT = [n for n, t in params if t.endswith("str")][0]
        body = H.peel(fn["body"])
        c = H.canon(body)
        want = "self.%s(%s,0)" % (callee, TEXT)
        n_fwd += 1
        # ... or the same one forwarding step further (position 0, no option flags)
        if c != want and c != "self.%s_with_option_flags(%s,0,0)" % (callee, TEXT):
            run.violation(fam, label, "%s/forward" % sp, H.where(fn), "%s must be %s (same search as the *_from_pos form at position 0), found %s" % (sp, want, c[:80]))
    for sp in ("Regex::find_from_pos", "Regex::captures_from_pos"):
        fn = S.get_fn(run, ctx, sp, fam, label)
        if fn is None:
            continue
        body = H.peel(fn["body"])
        if body.get("k") == "MethodCall" and body["name"].endswith("_with_option_flags"):
            params = _params(fn)
            args = [H.canon(a) for a in body["args"]]
            n_fwd += 1
            want = [params[1][0], params[2][0], "0"]
            if args != want:
                run.violation(fam, label, "%s/forward" % sp, H.where(fn), "%s forwards (%s), expected (%s): a plain search never carries the skipped-empty-match flag" % (sp, ",".join(args), ",".join(want)))
    run.floor(fam, label, "src/lib.rs", n_run, 3, "vm::run call sites in Regex entry points")
    run.floor(fam, label, "src/lib.rs", n_wrap, 3, "wrapped-regex search sites in Regex entry points")
    run.ok(fam, label, "src/lib.rs", n_run + n_wrap + n_fwd,
           "entry points %s dispatch both engines on the same (text,pos,flags,options)" % ",".join(s.split("::")[-1] for s in seen_fns),
           sample="Fancy arm: vm::run(prog, text, pos, flags, options); Wrap arm: inner.<search>(Input::new(text).span(pos..text.len()))")
    # find builds its Match from slots (0,1); Captures::get(0) reads the same pair (checked by SLOT in C02/C16)
    fn = S.get_fn(run, ctx, "Regex::find_from_pos_with_option_flags", fam, "find-slots")
    if fn is not None:
        news = [n for n in H.walk(fn["body"]) if n.get("k") == "Call" and H.canon(n).startswith("Match::new(")]
        ok = [n for n in news if H.pat_match("Match::new({t},{s}[0],{s}[1])", H.canon(n)) or H.pat_match("Match::new({t},{s}[0]..{s}[1])", H.canon(n))]
        oks = [n for n in news if H.pat_match("Match::new({t},{m}.start(),{m}.end())", H.canon(n))]
        if len(ok) < 1:
            run.violation(fam, "find-slots", "find/slots", H.where(fn), "find must build its Match from slots 0 and 1 of the VM result (found %s)" % [H.canon(n) for n in news])
        else:
            run.ok(fam, "find-slots", H.where(fn), len(ok) + len(oks), "Match::new(text, saves[0], saves[1]) / (m.start(), m.end())")


# ---------------------------------------------------------------------------------------------
# C10: split / splitn
# ---------------------------------------------------------------------------------------------

def _beyond_len(evs):
    """Is `X > len(T)` established on this path for some cond operand X (len possibly let-bound)?"""
    pf = S.PathFacts(evs)
    lens = {ev.a for ev in evs if ev.kind == "let" and (ev.b or "").startswith("len(")}
    for ev in evs:
        if ev.kind == "cond" and ev.node is not None:
            nd = H.peel(ev.node)
            if nd.get("k") == "Binary":
                for X, Y in ((nd["l"], nd["r"]), (nd["r"], nd["l"])):
                    cy = H.canon(Y)
                    if (cy.startswith("len(") or cy in lens) and pf.proves("Gt", H.canon(X), ({cy: 1}, 0)):
                        return True
    return False


def split_rule(run, ctx):
    fam, label = "SPLIT", "Split::next"
    fn = S.get_fn(run, ctx, "<Split as Iterator>::next", fam, label)
    if fn is None:
        return
    w = H.where(fn)
    paths = S.paths_of(fn["body"], combinators=True)
    n = 0
    saw = {"none-rem": 0, "none-done": 0, "ok": 0, "err": 0}
    for p in paths:
        arms = [ev for ev in p.events if ev.kind == "arm"]
        if not arms or not arms[0].a.endswith(".next()"):
            if S.ret_value(p) is not None:
                run.violation(fam, label, "bypass", w, "Split::next has a path that yields %s without consulting the match iterator: pieces are exactly the text between consecutive find_iter matches, so every call must be answered from matches.next()" % S.ret_value(p))
            continue
        a0 = arms[0]
        mres = re.match(r"^Some\((\w+)\)$", a0.b or "")
        if mres:
            # `Some(result)` decided afterwards by result.map(|m| ..) / a match on result: the same two classes
            dec = [ev for ev in p.events if (ev.kind == "letcond" and ev.b == mres.group(1)) or (ev.kind == "arm" and ev.a == mres.group(1))]
            if dec:
                d0 = dec[0]
                pat_ = d0.a if d0.kind == "letcond" else d0.b
                truth = d0.c if d0.kind == "letcond" else True
                if not truth:
                    pat_ = "Err(_)" if pat_.startswith("Ok(") else "Ok(_)"
                a0 = H.Ev("arm", a0.a, "Some(%s)" % pat_, node=a0.node)
        ITER = a0.a[:-len(".next()")]
        v = S.ret_value(p)
        n += 1
        if a0.b in ("None", "Option::None"):
            if v == "None":
                saw["none-done"] += 1
                ok = _beyond_len(p.events)
                if not ok:
                    run.violation(fam, label, "finish-early", w, "Split::next returns None after the matches are exhausted without next_start > len being established (the last piece would be lost)")
            else:
                saw["none-rem"] += 1
                sm_ = S.Summary(p)
                m = H.pat_match("Some(Ok({part}))", v or "")
                lets = {ev.a: ev for ev in p.events if ev.kind == "let"}
                sl = lets[m.group("part")].b if m and m.group("part") in lets else (v or "")
                sl = H.subst_lets(sl, sm_.env)      # a piece bounded by named temporaries (also bound as a tuple)
                mm = H.pat_match("{*t}[{*s}..{*e}]", sl)
                if not mm:
                    run.violation(fam, label, "remainder-shape", w, "the remainder piece is not a slice target[next_start..len] (found %s)" % sl)
                    continue
                T, St, En = mm.group("t"), mm.group("s"), mm.group("e")
                lens = ("len(%s)" % T,)
                en_ok = En in lens or any(ev.kind == "let" and ev.a == En and ev.b in lens for ev in p.events)
                if not en_ok:
                    run.violation(fam, label, "remainder-end", w, "the remainder piece must extend to the end of the text (found %s)" % sl)
                # sentinel: next_start set beyond len afterwards
                asg = [ev for ev in p.events if ev.kind == "assign" and ev.a == St and ev.b == "="]
                ok = False
                for ev in asg:
                    pf = S.PathFacts(p.events, p.events.index(ev))
                    if pf.proves("Gt", H.linear(ev.node["r"]), ({"len(%s)" % T: 1}, 0)):
                        ok = True
                    mk = re.match(r"^\((\d+) \+ len\(%s\)\)$" % re.escape(T), H.subst_lets(ev.c or "", sm_.env))
                    if mk and int(mk.group(1)) >= 1:
                        ok = True
                if not ok:
                    run.violation(fam, label, "no-sentinel", w, "after yielding the remainder %s is not moved beyond len(%s): the remainder would be yielded again" % (St, T))
                # guard: remainder only when next_start <= len
                pf = S.PathFacts(p.events, [i for i, ev in enumerate(p.events) if ev.kind in ("let", "call")][-1])
        elif a0.b.startswith("Some(Ok("):
            saw["ok"] += 1
            M_ = H.pat_match("Some(Ok({m}))", a0.b).group("m")
            sm_ = S.Summary(p)
            m = H.pat_match("Some(Ok({part}))", v or "")
            lets = {ev.a: ev for ev in p.events if ev.kind == "let"}
            sl = lets[m.group("part")].b if m and m.group("part") in lets else (v or "")
            sl = H.subst_lets(sl, sm_.env)
            mm = H.pat_match("{*t}[{*s}..%s.start()]" % M_, sl)
            if not mm:
                run.violation(fam, label, "piece-shape", w, "the piece before a match must be target[next_start..m.start()] (found %s)" % sl)
                continue
            St = mm.group("s")
            asg = [ev for ev in p.events if ev.kind == "assign" and ev.a == St]
            if not asg or H.subst_lets(asg[-1].c or "", sm_.env) != "%s.end()" % M_ or asg[-1].b != "=":
                run.violation(fam, label, "next-start", w, "after a match %s must become m.end() (found %s)" % (St, [a.c for a in asg]))
        elif a0.b.startswith("Some(Err("):
            saw["err"] += 1
            if not H.pat_match("Some(Err({e}))", v or ""):
                run.violation(fam, label, "err-pass", w, "a search error must be passed through as Some(Err(e)) (found %s)" % v)
            wr = [ev for ev in p.events if ev.kind == "assign"]
            if wr:
                run.violation(fam, label, "err-state", w, "Split::next changes its state (%s) when passing a search error through: the piece after the failed search (the remainder) would be lost or duplicated" % [(e.a, e.c) for e in wr])
    for k, c in saw.items():
        if c < 1:
            run.violation(fam, label, "anchor-missing/" + k, w, "anchor-missing: Split::next path class '%s' not found" % k)
    run.ok(fam, label, w, n, "pieces are target[next_start..m.start()], next_start=m.end(); remainder once, then sentinel > len")

    # SplitN
    label = "SplitN::next"
    fn = S.get_fn(run, ctx, "<SplitN as Iterator>::next", fam, label)
    if fn is None:
        return
    w = H.where(fn)
    paths = S.paths_of(fn["body"])
    n = 0
    kinds = {"zero": 0, "delegate": 0, "last": 0, "done": 0}
    # decided under sample values of the remaining limit (followed through `-= 1`, `checked_sub(1)`, named copies):
    # 0 -> None and nothing happens; 1 -> the limit becomes 0 and this call yields the untouched remainder (or None
    # when Split already yielded it); n >= 2 -> the limit becomes n - 1 and Split::next() answers
    LIM = None
    for nd in H.walk(fn["body"]):
        if nd.get("k") == "Field" and nd.get("name") == "limit":
            LIM = H.canon(nd)
            break
    if LIM is None:
        run.violation(fam, label, "first-test", w, "SplitN::next must first test limit == 0 (no use of the limit found)")
        return
    for L_ in (0, 1, 2, 5):
        feas = [(p, S.run_path(p, {LIM: L_})) for p in paths]
        feas = [(p, st, fin) for p, (st, fin) in feas if st is not False]
        if not feas or any(st is not True for _, st, _ in feas):
            # (conditions about the text position are not sampled: evaluate them as unknown but still require the
            # limit decisions to be evaluable)
            undec = [p for p, st, _ in feas if st is not True and any(ev.kind == "cond" and LIM in (ev.a or "") and S.eval_node(ev.node, {LIM: L_}) is None for ev in p.events)]
            if not feas or undec:
                run.violation(fam, label, "countdown", w, "for limit %d the decisions of SplitN::next cannot be evaluated (the limit must be tested against 0 and counted down by one)" % L_)
                continue
        for p, st, fin in feas:
            n += 1
            v = S.ret_value(p)
            evs = p.events
            if L_ == 0:
                kinds["zero"] += 1
                if v != "None":
                    run.violation(fam, label, "zero-none", w, "limit == 0 must yield None (found %s)" % v)
                if any((ev.kind == "assign") or (ev.kind == "call" and "len(" not in (ev.a or "") and "checked_sub" not in (ev.a or "") and "Some(" != (ev.a or "")[:5]) for ev in evs):
                    run.violation(fam, label, "zero-first", w, "work happens although the limit is 0 (%s)" % [ev.a for ev in evs if ev.kind in ("assign", "call")][:3])
                continue
            if fin.get(LIM) != L_ - 1:
                run.violation(fam, label, "countdown", w, "each call must count the limit down by exactly one (limit %d became %s)" % (L_, fin.get(LIM)))
                continue
            if L_ >= 2:
                kinds["delegate"] += 1
                if not (v or "").endswith(".next()") or "splits" not in (v or ""):
                    run.violation(fam, label, "delegate", w, "while pieces remain SplitN must yield Split::next() (limit %d: found %s)" % (L_, v))
            else:
                if v == "None":
                    kinds["done"] += 1
                    if not _beyond_len(evs):
                        run.violation(fam, label, "last-lost", w, "the N-th call returns None without next_start > len being established (the remainder would be lost)")
                else:
                    kinds["last"] += 1
                    vv = H.subst_lets(v or "", S.Summary(p).env)
                    mm = H.pat_match("Some(Ok({*t}[{*s}..{*e}]))", vv)
                    if not mm:
                        run.violation(fam, label, "last-shape", w, "the last piece must be the untouched remainder target[next_start..len] (found %s)" % v)
                        continue
                    T, St, En = mm.group("t"), mm.group("s"), mm.group("e")
                    if En != "len(%s)" % T:
                        run.violation(fam, label, "last-end", w, "the last piece must extend to the end of the text (found %s)" % v)
                    if not St.endswith("next_start"):
                        run.violation(fam, label, "last-start", w, "the last piece must start at Split's next_start (found %s)" % St)
    for k, c in kinds.items():
        if c < 1:
            run.violation(fam, label, "anchor-missing/" + k, w, "anchor-missing: SplitN::next path class '%s' not found" % k)
    run.ok(fam, label, w, n, "limit 0 => None; each call counts down by one; limit >= 2 => Split::next(); limit 1 => the remainder")


# ---------------------------------------------------------------------------------------------
# C11: replace
# ---------------------------------------------------------------------------------------------

def replace_rule(run, ctx):
    fam, label = "REPLACE", "try_replacen"
    fn = S.get_fn(run, ctx, "Regex::try_replacen", fam, label)
    if fn is None:
        return
    w = H.where(fn)
    params = [p.get("name") for p in fn["params"]]
    if len(params) != 4:
        run.violation(fam, label, "anchor-missing/params", w, "anchor-missing: try_replacen(self, text, limit, rep)")
        return
    _, TEXT, LIMIT, REP = params
    paths = S.paths_of(fn["body"], max_paths=200000)
    n = 0
    cls = {"fast": 0, "slow": 0}
    for p in paths:
        evs = p.events
        v = S.ret_value(p)
        if p.exit == "try-err":
            # an error from the iterator is propagated: it must happen before this iteration's slicing
            continue
        if v is None:
            continue
        n += 1
        noexp = [ev for ev in evs if ev.kind == "letcond" and ev.b == "%s.no_expansion()" % REP]
        if not noexp:
            run.violation(fam, label, "no-expansion-test", w, "try_replacen must choose its path by rep.no_expansion()")
            continue
        fast = bool(noexp[0].c)
        which = "fast" if fast else "slow"
        iters = [ev for ev in evs if ev.kind == "let" and ("find_iter(%s)" % TEXT in ev.b or "captures_iter(%s)" % TEXT in ev.b)]
        if not iters:
            run.violation(fam, label, which + "/iterator", w, "%s path does not iterate over matches of %s" % (which, TEXT))
            continue
        it = iters[0]
        if fast and "find_iter" not in it.b or (not fast) and "captures_iter" not in it.b:
            run.violation(fam, label, which + "/iterator-kind", w, "%s path iterates with %s" % (which, it.b))
        IT = it.a
        peek = [ev for ev in evs if ev.kind == "cond" and ev.a == "%s.peek().is_none()" % IT]
        if not peek:
            run.violation(fam, label, which + "/peek", w, "%s path: no `peek().is_none()` test deciding whether to borrow" % which)
            continue
        if peek[0].b:
            if v != "Ok(Cow::Borrowed(%s))" % TEXT and v != "Ok(std::borrow::Cow::Borrowed(%s))" % TEXT and not H.pat_match("Ok({*c}Borrowed(%s))" % TEXT, v):
                run.violation(fam, label, which + "/borrow", w, "no match must return the borrowed input, found %s" % v)
            continue
        cls[which] += 1
        if "Borrowed" in v:
            run.violation(fam, label, which + "/owned", w, "a path with at least one match returns a borrowed value (%s)" % v)
        mo = H.pat_match("Ok({*c}Owned({new}))", v)
        if not mo:
            run.violation(fam, label, which + "/owned-shape", w, "result is not Ok(Cow::Owned(new)): %s" % v)
            continue
        NEW = mo.group("new")
        # tail appended on every non-borrowed path
        tails = [ev for ev in evs if ev.kind == "call" and H.pat_match("%s.push_str(%s[{lm}..])" % (NEW, TEXT), ev.a)]
        if not tails:
            run.violation(fam, label, which + "/tail", w, "the text after the last replaced match is not appended (push_str(&text[last_match..]))")
            continue
        LM = H.pat_match("%s.push_str(%s[{lm}..])" % (NEW, TEXT), tails[-1].a).group("lm")
        body_iter = [i for i, ev in enumerate(evs) if ev.kind == "for-iter"]
        if not body_iter:
            continue   # zero iterations of the loop on this path (for-skip): nothing else to check
        bi = body_iter[0]
        fe = evs[bi]
        mpat = H.pat_match("({i},{m})", fe.a)
        rest = evs[bi:]
        if mpat:
            I_, ITEM = mpat.group("i"), mpat.group("m")
        else:
            # the same index kept by hand: a counter that is 0 before the loop and goes up by one with every
            # replacement (an iteration that does not replace leaves the loop, so it equals enumerate()'s index)
            ITEM = fe.a if re.match(r"^\w+$", fe.a or "") else None
            zero = {(ev.a or "").replace("mut ", "") for ev in evs[:bi] if ev.kind == "let" and ev.b == "0"}
            I_ = None
            for ev in rest:
                if ev.kind == "cond" and re.search(r"(?<![\w.])%s(?![\w(])" % re.escape(LIMIT), ev.a or ""):
                    for nm in re.findall(r"[A-Za-z_]\w*", ev.a or ""):
                        if nm in zero:
                            I_ = nm
            if I_ is None:
                cand = [ev.a for ev in rest if ev.kind == "assign" and ev.a in zero and ev.b == "+=" and ev.a != LM]
                I_ = cand[0] if cand else (sorted(zero - {LM})[0] if len(zero - {LM}) == 1 else None)
            incs = [k for k, ev in enumerate(rest) if ev.kind == "assign" and ev.a == I_]
            tests = [k for k, ev in enumerate(rest) if ev.kind == "cond" and I_ and re.search(r"(?<![\w.])%s(?![\w(])" % re.escape(I_), ev.a or "")]
            replaced_here = any(ev.kind == "call" and ".start()])" in (ev.a or "") and ".push_str(" in (ev.a or "") for ev in rest)
            if ITEM is None or I_ is None or any(rest[k].b != "+=" or rest[k].c != "1" for k in incs) \
                    or (replaced_here and (len(incs) != 1 or (tests and incs[0] < tests[-1]))) or (not replaced_here and incs):
                run.violation(fam, label, which + "/loop-pattern", w, "the loop neither enumerates the matches (`for (i, item) in ..enumerate()`) nor keeps a counter that starts at 0 and goes up by one per replacement, after the limit test: %s" % fe.a)
                continue
        # error propagation precedes slicing
        tri = [k for k, ev in enumerate(rest) if ev.kind == "try-ok" and ev.a == ITEM]
        sl = [k for k, ev in enumerate(rest) if ev.kind == "call" and H.pat_match("%s.push_str(%s[%s..{m}.start()])" % (NEW, TEXT, LM), ev.a)]
        brk = any(ev.kind == "cond" and ev.b and ("%s" % LIMIT) in ev.a for ev in rest) and not sl
        if not tri:
            run.violation(fam, label, which + "/no-try", w, "the iterator item is not checked with `?` (a search error would be swallowed or unwrapped)")
            continue
        # the limit: the loop is left exactly when limit > 0 && i >= limit -- decided from the conditions met on the
        # path (any spelling: nested ifs, De Morgan, swapped operands)
        own_inc = [k for k, ev in enumerate(rest) if ev.kind == "assign" and ev.a == I_]
        pf = S.PathFacts(rest, own_inc[0] if own_inc else None)      # (what was known when the limit was tested)
        lim_pos = pf.proves("Ne", LIMIT, 0) or pf.proves("Gt", LIMIT, 0)
        reached = pf.proves("Le", LIMIT, I_)
        lim_zero = pf.proves("Eq", LIMIT, 0) or pf.proves("Le", LIMIT, 0)
        below = pf.proves("Lt", I_, LIMIT)
        mentions = any(ev.kind == "cond" and re.search(r"(?<![\w.])%s(?![\w(])" % re.escape(LIMIT), ev.a or "") for ev in rest)
        if not mentions:
            run.violation(fam, label, which + "/limit-test", w, "no `limit > 0 && i >= limit` test in the %s loop" % which)
            continue
        if not sl:
            # nothing replaced on this iteration: only allowed because the limit was reached
            if not (lim_pos and reached):
                run.violation(fam, label, which + "/limit-cmp", w, "the %s loop stops replacing on a path where `limit > 0 && i >= limit` is not established" % which)
            continue
        if not (lim_zero or below):
            run.violation(fam, label, which + "/replace-after-limit", w, "a match is replaced on a path where neither `limit == 0` nor `i < limit` holds: a match beyond the limit is still replaced")
            continue
        if not sl:
            run.violation(fam, label, which + "/gap", w, "the text between the previous match and this one is not copied (push_str(&text[last_match..m.start()]))")
            continue
        if tri[0] > sl[0]:
            run.violation(fam, label, which + "/try-late", w, "the `?` on the iterator item comes after slicing")
        M_ = H.pat_match("%s.push_str(%s[%s..{m}.start()])" % (NEW, TEXT, LM), rest[sl[0]].a).group("m")
        after = rest[sl[0] + 1:]
        if fast:
            ins = [ev for ev in after if ev.kind == "call" and H.pat_match("%s.push_str({r})" % NEW, ev.a)]
            if not ins or ins[0].a != "%s.push_str(%s)" % (NEW, noexp[0].a[5:-1] if noexp[0].a.startswith("Some(") else "?"):
                run.violation(fam, label, "fast/insert", w, "fast path must append the unexpanded replacement once per match (found %s)" % [e.a for e in ins[:1]])
        else:
            ins = [ev for ev in after if ev.kind == "call" and H.pat_match("%s.replace_append({c},%s)" % (REP, NEW), ev.a)]
            if not ins:
                run.violation(fam, label, "slow/insert", w, "capture path must call rep.replace_append(&cap, &mut new) once per match")
        lm_as = [ev for ev in after if ev.kind == "assign" and ev.a == LM]
        if not lm_as or lm_as[-1].c != "%s.end()" % M_:
            run.violation(fam, label, which + "/last-match", w, "last_match must become m.end() after each replacement (found %s)" % [e.c for e in lm_as])
    for k, c in cls.items():
        if c < 1:
            run.violation(fam, label, "anchor-missing/" + k, w, "anchor-missing: no %s-path of try_replacen with a match found" % k)
    run.ok(fam, label, w, n, "both loops: borrow iff no match, `?` before slicing, limit test, gap + replacement + last_match=m.end(), tail")

    # forwarding: replace -> (1), replace_all -> (0), replacen -> try_replacen(..).unwrap()
    fwd = {"Regex::replace": "self.replacen({t},1,{r})", "Regex::replace_all": "self.replacen({t},0,{r})",
           "Regex::replacen": "self.try_replacen({t},{l},{r}).unwrap()"}
    for sp, pat in fwd.items():
        f2 = S.get_fn(run, ctx, sp, fam, "forward")
        if f2 is None:
            continue
        c = H.canon(H.peel(f2["body"]))
        if not H.pat_match(pat, c):
            run.violation(fam, "forward", sp, H.where(f2), "%s must be %s, found %s" % (sp, pat, c[:80]))
        else:
            run.ok(fam, "forward", H.where(f2), 1, "%s = %s" % (sp, c))


def replacer_rule(run, ctx):
    """Replacer impl table: string-like impls route no_expansion through one helper testing contains('$')."""
    fam, label = "REPLACE", "replacer-impls"
    impls = [im for im in ctx.facts.impls if im.get("trait", "").endswith("Replacer")]
    n = 0
    stringlike = 0
    for im in impls:
        st = im["self_ty"]
        items = {it["name"]: it["path"] for it in im["items"]}
        ne = items.get("no_expansion")
        ra = items.get("replace_append")
        if ra is None:
            run.violation(fam, label, "no-replace-append/" + st, "src/replacer.rs", "Replacer impl for %s has no replace_append" % st)
            continue
        n += 1
        hb = ctx.facts.hir.get(ra)
        if hb is not None:
            # every path writes to dst (directly or by delegating with dst)
            dst = [p.get("name") for p in hb["params"]][-1]
            for pth in S.paths_of(hb["body"]):
                if pth.exit not in ("fall", "return"):
                    continue
                if not any(ev.kind == "call" and dst in (ev.a or "") for ev in pth.events):
                    run.violation(fam, label, "no-write/" + st, H.where(hb), "Replacer::replace_append for %s has a path that never writes to dst" % st)
        if ne is None:
            # default: None (always expands).  Allowed for closures only.
            if not (st == "F"):
                run.violation(fam, label, "default-noexp/" + st, "src/replacer.rs", "Replacer impl for %s keeps the default no_expansion()" % st)
            continue
        hb = ctx.facts.hir[ne]
        c = H.canon(H.peel(hb["body"]))
        if "NoExpand" in st:
            if not H.pat_match("Some({*c}Borrowed(self.0))", c):
                run.violation(fam, label, "noexpand", H.where(hb), "NoExpand::no_expansion must return Some(Borrowed(self.0)), found %s" % c)
        elif "ReplacerRef" in st:
            if c != "self.0.no_expansion()":
                run.violation(fam, label, "replacerref", H.where(hb), "ReplacerRef must forward no_expansion, found %s" % c)
        else:
            stringlike += 1
            if not H.pat_match("replacer::no_expansion(self)", c) and not H.pat_match("no_expansion(self)", c):
                # written out (or through a helper that was inlined): the same decision, path by path
                good = True
                kinds_ = set()
                for p in S.paths_of(hb["body"]):
                    v = S.ret_value(p)
                    if v is None:
                        continue
                    sm = S.Summary(p)
                    cd = [(t, tr) for t, tr, _, _ in sm.conds if H.pat_match("{s}.contains('$')", t)]
                    if not cd or H.pat_match("{s}.contains('$')", cd[-1][0]).group("s") != "self":
                        good = False
                        break
                    kinds_.add(bool(cd[-1][1]))
                    if cd[-1][1]:
                        good = good and sm.val == "None"
                    else:
                        good = good and H.pat_match("Some({*c}Borrowed(self))", sm.val or "") is not None
                if not good or kinds_ != {True, False}:
                    run.violation(fam, label, "stringlike/" + st, H.where(hb), "string-like Replacer %s must decide no_expansion through the shared helper (or the same test: Some(Borrowed(self)) exactly when the text contains no '$'), found %s" % (st, c))
    helper = S.find_fn(ctx, "replacer::no_expansion")
    helper = helper[0] if helper else None
    if helper is not None:
        ps = S.paths_of(helper["body"])
        okk = 0
        for p in ps:
            v = S.ret_value(p)
            cd = [ev for ev in p.events if ev.kind == "cond" and H.pat_match("{s}.contains('$')", ev.a)]
            if not cd:
                run.violation(fam, label, "helper-test", H.where(helper), "no_expansion helper must test contains('$')")
                continue
            S_ = H.pat_match("{s}.contains('$')", cd[0].a).group("s")
            if cd[0].b and v != "None":
                run.violation(fam, label, "helper-dollar", H.where(helper), "a template containing '$' must not take the no-expansion path (found %s)" % v)
            if (not cd[0].b) and not H.pat_match("Some({*c}Borrowed(%s))" % S_, v or ""):
                run.violation(fam, label, "helper-plain", H.where(helper), "a template without '$' must be returned as-is (found %s)" % v)
            okk += 1
        n += okk
    run.floor(fam, label, "src/replacer.rs", stringlike, 5, "string-like Replacer impls")
    run.ok(fam, label, "src/replacer.rs", n, "%d Replacer impls; %d string-like via helper contains('$')" % (len(impls), stringlike))


def own_matches(run, ctx):
    """The iterator state (Matches.last_end / last_match) is written only by the two iterator bodies."""
    fam, label = "OWN", "Matches-fields"
    adt = [p for p in ctx.facts.adts if strip_generics(p) == "Matches"]
    if len(adt) != 1:
        run.violation(fam, label, "anchor-missing/Matches", "src/lib.rs", "anchor-missing: struct Matches")
        return
    A = adt[0]
    allowed = {"<Matches as Iterator>::next", "<CaptureMatches as Iterator>::next"}
    n = 0
    for path, body in ctx.cg.bodies.items():
        sp = strip_generics(path)
        for b in body.blocks:
            for st in b["stmts"]:
                if st["k"] != "Assign":
                    continue
                places = [st["place"]]
                if st["rv"]["k"] == "Ref" and st["rv"].get("mut"):
                    places.append(st["rv"]["place"])
                for pl in places:
                    fl = [x for x in (pl.get("p") or []) if x["k"] == "Field" and x.get("adt") == A and x.get("name") in ("last_end", "last_match")]
                    if fl:
                        # a write in a helper shared by both iterators stands for one write in each
                        n += max(1, len(ctx.facts.owners_of(sp) & allowed))
                        if not ctx.facts.owned_by(sp, allowed):
                            sp_ = st["span"]
                            run.violation(fam, label, "%s/%s" % (sp, fl[0]["name"]), "%s:%d" % (sp_["file"], sp_["line"]),
                                          "Matches.%s is written in %s: the iteration state may only be advanced by the iterator itself" % (fl[0]["name"], sp))
    # constructed only in find_iter with (0, None)
    ctors = []
    for path, fn in ctx.facts.hir.items():
        for nd in H.walk(fn["body"]):
            if nd.get("k") == "Struct" and strip_generics(nd.get("adt", "")) == "Matches":
                ctors.append((strip_generics(path), nd))
    for sp, nd in ctors:
        f = {x["name"]: H.canon(x["e"]) for x in nd["fields"]}
        if sp != "Regex::find_iter" or f.get("last_end") != "0" or f.get("last_match") not in ("None", "Option::None"):
            run.violation(fam, label, "ctor/" + sp, H.where(nd), "Matches must be created only by find_iter, starting at position 0 with no previous match (found %s in %s)" % (f, sp))
    run.floor(fam, label, "src/lib.rs", n, 6, "writes to Matches.last_end / last_match")
    run.ok(fam, label, "src/lib.rs", n + len(ctors), "%d writes to the iteration state, all in the two iterator bodies; created by find_iter at (0, None)" % n)


def own_split(run, ctx):
    """Split.next_start is written only by Split::next and SplitN::next; Split is created by split() at 0."""
    fam, label = "OWN", "Split-fields"
    adt = [p for p in ctx.facts.adts if strip_generics(p) == "Split"]
    if len(adt) != 1:
        run.violation(fam, label, "anchor-missing/Split", "src/lib.rs", "anchor-missing: struct Split")
        return
    A = adt[0]
    allowed = {"<Split as Iterator>::next", "<SplitN as Iterator>::next"}
    n = 0
    for path, body in ctx.cg.bodies.items():
        sp = strip_generics(path)
        for b in body.blocks:
            for st in b["stmts"]:
                if st["k"] != "Assign":
                    continue
                places = [st["place"]]
                if st["rv"]["k"] == "Ref" and st["rv"].get("mut"):
                    places.append(st["rv"]["place"])
                for pl in places:
                    fl = [x for x in (pl.get("p") or []) if x["k"] == "Field" and x.get("adt") == A and x.get("name") in ("next_start", "target")]
                    if fl:
                        n += 1
                        if not ctx.facts.owned_by(sp, allowed):
                            sp_ = st["span"]
                            run.violation(fam, label, "%s/%s" % (sp, fl[0]["name"]), "%s:%d" % (sp_["file"], sp_["line"]),
                                          "Split.%s is written in %s" % (fl[0]["name"], sp))
    ctors = []
    for path, fn in ctx.facts.hir.items():
        for nd in H.walk(fn["body"]):
            if nd.get("k") == "Struct" and strip_generics(nd.get("adt", "")) == "Split":
                ctors.append((strip_generics(path), nd, fn))
    for sp, nd, fn in ctors:
        f = {x["name"]: H.canon(x["e"]) for x in nd["fields"]}
        T = [p.get("name") for p in fn["params"]][-1]
        if sp != "Regex::split" or f.get("next_start") != "0" or f.get("target") != T or f.get("matches") != "self.find_iter(%s)" % T:
            run.violation(fam, label, "ctor/" + sp, H.where(nd), "Split must be created by Regex::split as {matches: find_iter(target), next_start: 0, target} (found %s in %s)" % (f, sp))
    sn = [nd for path, fn in ctx.facts.hir.items() for nd in H.walk(fn["body"]) if nd.get("k") == "Struct" and strip_generics(nd.get("adt", "")) == "SplitN"]
    for nd in sn:
        f = {x["name"]: H.canon(x["e"]) for x in nd["fields"]}
        if not H.pat_match("self.split({t})", f.get("splits", "")) or f.get("limit") != "limit":
            run.violation(fam, label, "ctor/SplitN", H.where(nd), "SplitN must be {splits: self.split(target), limit} (found %s)" % f)
    run.floor(fam, label, "src/lib.rs", n, 2, "writes to Split.next_start")
    run.ok(fam, label, "src/lib.rs", n + len(ctors) + len(sn), "next_start written only by the two split iterators; constructors start at 0 over find_iter(target)")


def entry_no_bypass(run, ctx):
    """Every completed path of the dispatching entry points goes through the engine dispatch."""
    fam, label = "DISPATCH", "no-bypass"
    n = 0
    for sp in ("Regex::is_match", "Regex::find_from_pos_with_option_flags", "Regex::captures_from_pos_with_option_flags"):
        fs = S.find_fn(ctx, sp)
        if not fs:
            if sp.endswith("captures_from_pos_with_option_flags"):
                fs = S.find_fn(ctx, "Regex::captures_from_pos")
            if not fs:
                run.violation(fam, label, "anchor-missing/" + sp, "src/lib.rs", "anchor-missing: %s" % sp)
                continue
        fn = fs[0]
        for p in S.paths_of(fn["body"]):
            v = S.ret_value(p)
            if v is None:
                continue
            n += 1
            arms = [ev for ev in p.events if ev.kind == "arm" and ev.a == "self.inner" and ev.b.startswith("RegexImpl::")]
            if not arms:
                run.violation(fam, label, sp, H.where(fn), "%s has a path answering %s without dispatching on the compiled regex (shortcut answers make the entry points disagree)" % (sp, v[:60]))
    fn = S.get_fn(run, ctx, "Regex::new_options", fam, label)
    if fn is not None:
        for p in S.paths_of(fn["body"]):
            v = S.ret_value(p)
            if v is None or not v.startswith("Ok("):
                continue
            n += 1
            calls = [ev.b or "" for ev in p.events if ev.kind == "call"]
            need = [("parse", lambda c: "Parser::parse" in c), ("wrap_tree", lambda c: c.endswith("wrap_tree")), ("analyze", lambda c: c.endswith("analyze::analyze")),
                    ("compile", lambda c: c.endswith("compile_inner") or c.endswith("compile_with_options") or c.endswith("compile::compile"))]
            for nm, pred in need:
                if not any(pred(c) for c in calls):
                    run.violation(fam, label, "new_options/" + nm, H.where(fn), "Regex::new_options has a successful path that skips %s" % nm)
    run.floor(fam, label, "src/lib.rs", n, 8, "completed paths of the dispatching entry points")
    run.ok(fam, label, "src/lib.rs", n, "every answer of is_match / find_from_pos* / captures_from_pos* comes from the engine dispatch; construction always parses, wraps, analyses, compiles")


def iterator_impls(run, ctx, only=None):
    """Public iterator types define only `next` (and `size_hint`): an overridden nth/count/last/fold could
    disagree with repeated next().  `only`: the iterator types whose agreement the calling property depends on."""
    fam, label = "OWN", "iterator-overrides"
    n = 0
    for im in ctx.facts.impls:
        if not im.get("trait", "").endswith("iter::Iterator") and not im.get("trait", "").endswith("::Iterator"):
            continue
        names = [it["name"] for it in im["items"] if it["name"] not in ("Item",)]
        n += 1
        extra = [x for x in names if x not in ("next", "size_hint")]
        if only is not None and not any(im["self_ty"].startswith(t) for t in only):
            continue
        if extra:
            run.violation(fam, label, "%s/%s" % (im["self_ty"], ",".join(extra)), "%s:%d" % (im["span"]["file"], im["span"]["line"]),
                          "impl Iterator for %s overrides %s: everything but next() must follow from next() (an overridden method can disagree with repeated next())" % (im["self_ty"], extra))
        if im["self_ty"].startswith("SubCaptureMatches") or im["self_ty"].startswith("SplitN"):
            pass
    run.floor(fam, label, "src/lib.rs", n, 6, "Iterator impls")
    run.ok(fam, label, "src/lib.rs", n, "%d Iterator impls define only next (+ size_hint)" % n)
