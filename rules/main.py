import os
import sys
import time
import traceback

from facts import get_facts, AnalysisError
import engine
import props


def run_property(prop, tier, config="default", write_evidence=True, repo=None, quiet=False):
    spec = props.PROPS[prop]
    facts, info = get_facts(config, repo)
    ctx = props.Ctx(facts)
    run = engine.Run(prop, tier, facts, config)
    run.count("fact_extraction_s", info["extract_s"])
    print("== %s tier=%s config=%s facts=%s (%s)" % (prop, tier, config, info["cache_key"],
                                                    "cached" if info["cached"] else "extracted in %.1fs" % info["extract_s"]))
    spec["fn"](run, ctx)
    return run, spec


def main(argv):
    if not argv:
        print("usage: check <Cnn> [--tier quick|thorough] [--replay path]")
        return 2
    prop = argv[0]
    tier = os.environ.get("VERIF_TIER", "quick")
    replay = None
    i = 1
    while i < len(argv):
        if argv[i] == "--tier":
            tier = argv[i + 1]
            i += 2
        elif argv[i] == "--replay":
            replay = argv[i + 1]
            i += 2
        else:
            i += 1
    if prop not in props.PROPS:
        print("unknown property %s" % prop)
        return 2
    try:
        if props.PROPS[prop].get("custom"):
            return props.PROPS[prop]["custom"](prop, tier, replay)
        run, spec = run_property(prop, tier)
        extra = {}
        if replay:
            import json as _json
            try:
                want = {v["key"] for v in _json.load(open(replay)).get("violations", [])}
            except (OSError, ValueError) as ex:
                print("cannot read replay file %s: %s" % (replay, ex))
                return 2
            hit = [f for f in run.findings if f.key in want]
            for f in hit:
                print("RULE %s/%s %s: VIOLATION %s\n      key=%s" % (f.family, f.instance, f.where, f.what, f.key))
            if hit:
                print("VIOLATION property=%s replay=%s" % (prop, replay))
                return 1
            print("replay: none of the %d recorded violation(s) is present on the current tree" % len(want))
            return 0
        if tier == "thorough":
            # the same rule instances on the other feature configurations
            cfgs = {"default": {"instances": len(run.instances), "findings": len(run.findings)}}
            for cfg in ("nodefault", "std-only"):
                r2, _ = run_property(prop, tier, cfg)
                cfgs[cfg] = {"instances": len(r2.instances), "findings": len(r2.findings),
                             "bodies_mir": len(r2.facts.mir)}
                have = {f.key for f in run.findings}
                for f in r2.findings:
                    if f.key not in have:
                        f.what = "[%s] %s" % (cfg, f.what)
                        run.findings.append(f)
                run.obligations += r2.obligations
                run.instances += [dict(i, where="[%s] %s" % (cfg, i["where"])) for i in r2.instances]
            extra["configurations"] = cfgs
            import selftest
            st = selftest.run_for(prop)
            extra["selftest"] = st
            if st.get("failed"):
                print("SELFTEST-FAILED %s: %s" % (prop, ", ".join(st["failed"])))
        code = engine.finish(run, spec["level"], spec["explanation"],
                             spec.get("trusted", props.TRUSTED_COMMON),
                             spec.get("assumptions", props.ASSUME_COMMON),
                             extra_cov=extra, checker_cmd=getattr(run, "checker_cmd", None))
        if tier == "thorough" and extra.get("selftest", {}).get("failed") and code == 0:
            return 2
        return code
    except AnalysisError as e:
        print("ANALYSIS-ERROR: %s" % e)
        return 2
    except Exception:
        traceback.print_exc()
        print("ANALYSIS-ERROR: internal error in the rule engine")
        return 2
