import os
import sys
import time
import traceback

from facts import get_facts, AnalysisError
import engine
import props


def run_property(prop, tier, config="default", write_evidence=True, repo=None, quiet=False):
    spec = props.PROPS[prop]
    facts, info = get_facts(config, repo)
    ctx = props.Ctx(facts)
    run = engine.Run(prop, tier, facts, config)
    run.count("fact_extraction_s", info["extract_s"])
    print("== %s tier=%s config=%s facts=%s (%s)" % (prop, tier, config, info["cache_key"],
                                                    "cached" if info["cached"] else "extracted in %.1fs" % info["extract_s"]))
    spec["fn"](run, ctx)
    return run, spec


def main(argv):
    if not argv:
        print("usage: check <Cnn> [--tier quick|thorough] [--replay path]")
        return 2
    prop = argv[0]
    tier = os.environ.get("VERIF_TIER", "quick")
    replay = None
    i = 1
    while i < len(argv):
        if argv[i] == "--tier":
            tier = argv[i + 1]
            i += 2
        elif argv[i] == "--replay":
            replay = argv[i + 1]
            i += 2
        else:
            i += 1
    if prop not in props.PROPS:
        print("unknown property %s" % prop)
        return 2
    try:
        if props.PROPS[prop].get("custom"):
            return props.PROPS[prop]["custom"](prop, tier, replay)
        run, spec = run_property(prop, tier)
        code = engine.finish(run, spec["level"], spec["explanation"],
                             spec.get("trusted", props.TRUSTED_COMMON),
                             spec.get("assumptions", props.ASSUME_COMMON))
        if tier == "thorough" and code == 0:
            import thorough
            code = thorough.run(prop, run, spec)
        return code
    except AnalysisError as e:
        print("ANALYSIS-ERROR: %s" % e)
        return 2
    except Exception:
        traceback.print_exc()
        print("ANALYSIS-ERROR: internal error in the rule engine")
        return 2
