//! Type-level witnesses for property C18 (a compiled regex can be used from many threads).
//!
//! Nothing here is ever executed.  `cargo check` of this crate succeeds iff the trait solver
//! discharges every obligation below for the current `/repo` tree.
//!
//! Negative controls: each `compile_fail` example must fail with the stated error code and its
//! compiling twin (which differs only in the offending line) must build, so that a witness that
//! fails for the wrong reason is noticed.  They run under `cargo +nightly test --doc`.
//!
//! A `!Sync` value cannot be shared between scoped threads:
//! ```compile_fail,E0277
//! use std::cell::RefCell;
//! let shared = RefCell::new(fancy_regex::Regex::new("a").unwrap());
//! std::thread::scope(|s| {
//!     s.spawn(|| shared.borrow().is_match("a"));
//! });
//! ```
//! Twin (compiles): the regex itself is shared by reference.
//! ```no_run
//! let shared = fancy_regex::Regex::new("a").unwrap();
//! std::thread::scope(|s| {
//!     s.spawn(|| shared.is_match("a"));
//! });
//! ```
//!
//! The assertion helper really rejects a `!Send` type:
//! ```compile_fail,E0277
//! fn assert_send_sync_clone<T: Send + Sync + Clone>() {}
//! assert_send_sync_clone::<std::rc::Rc<fancy_regex::Regex>>();
//! ```
//! Twin (compiles):
//! ```no_run
//! fn assert_send_sync_clone<T: Send + Sync + Clone>() {}
//! assert_send_sync_clone::<std::sync::Arc<fancy_regex::Regex>>();
//! ```
//!
//! Searching needs only a shared reference; a method requiring `&mut Regex` would not type-check
//! through `&Regex`:
//! ```compile_fail,E0308
//! fn needs_mut(_: &mut fancy_regex::Regex) {}
//! let re = fancy_regex::Regex::new("a").unwrap();
//! let r = &re;
//! needs_mut(r);
//! ```
//! Twin (compiles):
//! ```no_run
//! fn needs_shared(_: &fancy_regex::Regex) {}
//! let re = fancy_regex::Regex::new("a").unwrap();
//! let r = &re;
//! needs_shared(r);
//! ```

use fancy_regex::{Captures, Error, Expander, Match, Regex, RegexBuilder};

fn assert_send_sync_clone<T: Send + Sync + Clone>() {}
fn assert_send_sync<T: Send + Sync>() {}
fn assert_unwind_safe<T: std::panic::RefUnwindSafe>() {}

/// Obligations 1..: auto traits of the public types.
pub fn auto_traits() {
    assert_send_sync_clone::<Regex>();
    assert_send_sync_clone::<fancy_regex::internal::Prog>();
    assert_send_sync_clone::<fancy_regex::internal::Insn>();
    assert_send_sync_clone::<Match<'static>>();
    assert_send_sync_clone::<Error>();
    assert_send_sync::<Captures<'static>>();
    assert_send_sync::<fancy_regex::Matches<'static, 'static>>();
    assert_send_sync::<fancy_regex::CaptureMatches<'static, 'static>>();
    assert_send_sync::<fancy_regex::Split<'static, 'static>>();
    assert_send_sync::<fancy_regex::SplitN<'static, 'static>>();
    assert_send_sync::<RegexBuilder>();
    assert_send_sync::<Expander>();
    assert_unwind_safe::<Regex>();
}

/// Every search entry point is callable through a shared reference from several threads at once,
/// and through clones moved into threads.
pub fn shared_use(re: &Regex, text: &str) {
    std::thread::scope(|s| {
        s.spawn(|| re.is_match(text).map(|_| ()));
        s.spawn(|| re.find(text).map(|_| ()));
        s.spawn(|| re.find_from_pos(text, 0).map(|_| ()));
        s.spawn(|| re.captures(text).map(|_| ()));
        s.spawn(|| re.captures_from_pos(text, 0).map(|_| ()));
        s.spawn(|| re.find_iter(text).count());
        s.spawn(|| re.captures_iter(text).count());
        s.spawn(|| re.split(text).count());
        s.spawn(|| re.splitn(text, 2).count());
        s.spawn(|| re.replace_all(text, "x").len());
        s.spawn(|| re.try_replacen(text, 1, "x").map(|_| ()));
        s.spawn(|| re.captures_len());
    });
    let c1 = re.clone();
    let c2 = re.clone();
    let t1 = std::thread::spawn(move || c1.is_match("a").map(|_| ()));
    let t2 = std::thread::spawn(move || c2.is_match("a").map(|_| ()));
    let _ = (t1, t2);
}
