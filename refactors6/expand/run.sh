#!/bin/bash
# usage: run.sh N
N=$1
cd /tmp/wtrf6-expand || exit 1
cargo build --offline 2>&1 | grep -E "^(error|warning: unused)|Finished" 
out=$(cargo test --offline 2>&1)
echo "$out" | grep -E "^test result|^error|FAILED|panicked" 
echo "$out" | grep -E "^test result: ok" | awk '{s+=$4} END {print "total passed:", s}'
cargo build --offline --no-default-features --features unicode,perf 2>&1 | grep -E "^error|Finished"
git diff -- src > /tmp/rf6/expand/$N/patch.diff
git diff --stat -- src | tail -1
