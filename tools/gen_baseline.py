#!/usr/bin/env python3
"""Record the crate-local functions of the current /repo tree and their parameter names (tables/baseline_fns.json).
Functions that are not in this table are treated as helpers introduced later and are inlined at their call sites
before the rules run; a function whose parameters were merely reordered is presented in the recorded order
(rules/norm.py). Regenerate after a deliberate change to /repo (fix commits)."""
import json, os, sys
sys.path.insert(0, os.path.join(os.path.dirname(os.path.abspath(__file__)), "..", "rules"))
import facts
import norm
norm.apply = lambda f: None
names, params, locs, bodies, ptypes = set(), {}, {}, {}, {}


def walk(n):
    if isinstance(n, dict):
        yield n
        for v in n.values():
            if isinstance(v, (dict, list)):
                yield from walk(v)
    elif isinstance(n, list):
        for x in n:
            yield from walk(x)

for cfg in facts.CONFIGS:
    F, _ = facts.get_facts(cfg, "/repo")
    for p, fn in F.hir.items():
        sp = facts.strip_generics(p)
        if "{closure" in sp:
            continue
        names.add(sp)
        ps = [x.get("name") for x in fn.get("params", [])]
        if all(ps):
            params[sp] = ps
            ptypes[sp] = [x.get("ty") for x in fn.get("params", [])]
        import hirlib
        cb = hirlib.canon(fn["body"])
        if len(cb) <= 200:
            bodies[sp] = cb
        ls = sorted({n["name"] for n in walk(fn["body"]) if n.get("k") == "Binding" and n.get("name")})
        locs[sp] = sorted(set(locs.get(sp, [])) | set(ls))
variants = {}
F, _ = facts.get_facts("default", "/repo")
for p, a in F.adts.items():
    if a.get("kind") == "Enum" and a.get("vis") != "Public":
        variants[facts.strip_generics(p)] = [v["name"] for v in a["variants"]]
out = os.path.join(facts.VERIF, "tables", "baseline_fns.json")
json.dump({"comment": "crate-local functions of the tree the rules were written against (all feature configurations), with their parameter names in declaration order", "fns": sorted(names), "params": params, "param_types": ptypes, "locals": locs, "small_bodies": bodies, "private_enum_variants": variants}, open(out, "w"), indent=0)
print(len(names), "functions")
