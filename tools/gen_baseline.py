#!/usr/bin/env python3
"""Record the crate-local functions of the current /repo tree (tables/baseline_fns.json).
Functions that are not in this table are treated as helpers introduced later and are inlined at their call
sites before the rules run (rules/norm.py). Regenerate after a deliberate change to /repo (fix commits)."""
import json, os, sys
sys.path.insert(0, os.path.join(os.path.dirname(os.path.abspath(__file__)), "..", "rules"))
import facts
names = set()
for cfg in facts.CONFIGS:
    F, _ = facts.get_facts(cfg, "/repo")
    for p in F.hir:
        sp = facts.strip_generics(p)
        if "{closure" not in sp:
            names.add(sp)
out = os.path.join(facts.VERIF, "tables", "baseline_fns.json")
json.dump({"comment": "crate-local functions of the tree the rules were written against (all feature configurations)", "fns": sorted(names)}, open(out, "w"), indent=0)
print(len(names), "functions")
