#!/usr/bin/env python3
"""Run every quick check against behaviour-preserving refactorings (patch files) of /repo.
usage: rf_run.py <dir-with-N/patch.diff> [...]      (or individual patch files)
Each patch is applied to a scratch copy; any VIOLATION / ANALYSIS-ERROR is a false alarm to triage.
"""
import concurrent.futures, glob, os, shutil, subprocess, sys, tempfile

ALL = ["C%02d" % i for i in range(1, 21) if i != 4]


def one(patch):
    d = tempfile.mkdtemp(prefix="rf.", dir="/scratch")
    out = []
    try:
        for item in ("src", "Cargo.toml", "Cargo.lock", "benches", "examples", "tests"):
            s = os.path.join("/repo", item)
            if os.path.isdir(s):
                shutil.copytree(s, os.path.join(d, item))
            elif os.path.exists(s):
                shutil.copy(s, os.path.join(d, item))
        r = subprocess.run(["patch", "-p1", "-d", d, "-i", os.path.abspath(patch)], stdout=subprocess.PIPE, stderr=subprocess.STDOUT, text=True)
        if r.returncode != 0:
            return patch, [("PATCH", "does not apply: " + r.stdout[-200:])]
        env = dict(os.environ, FRX_REPO=d)
        for pr in ALL:
            r = subprocess.run(["/verif/check", pr], env=env, stdout=subprocess.PIPE, stderr=subprocess.STDOUT, text=True)
            if r.returncode != 0:
                lines = [l for l in r.stdout.split("\n") if ("VIOLATION" in l and "RULE" in l) or "ANALYSIS-ERROR" in l]
                out.append((pr, "; ".join(l[:260] for l in lines[:4])))
    finally:
        shutil.rmtree(d, ignore_errors=True)
    return patch, out


def main():
    patches = []
    for a in sys.argv[1:]:
        if os.path.isdir(a):
            patches += sorted(glob.glob(os.path.join(a, "*", "patch.diff")))
        else:
            patches.append(a)
    bad = 0
    with concurrent.futures.ThreadPoolExecutor(4) as ex:
        for patch, out in ex.map(one, patches):
            print("== %s: %s" % (patch, "silent" if not out else "ALARMS %s" % sorted({p for p, _ in out})))
            seen = set()
            for p, l in out:
                if l not in seen:
                    print("   %s %s" % (p, l))
                    seen.add(l)
            bad += bool(out)
    print("patches %d with alarms %d" % (len(patches), bad))


main()
