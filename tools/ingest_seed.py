#!/usr/bin/env python3
"""Confirm a seeded change written by a sub-agent and record it under /verif/seeded/<id>/.
usage: ingest_seed.py <property> <seed dir with patch.diff demo.rs notes.md> <id>
Confirms in a scratch copy of /repo (never in /repo): the patch applies and compiles, the unedited test suite
passes with it, the demo fails with it and passes without it; then runs every claimed check against the
patched tree and records which ones report a violation."""
import json, os, re, shutil, subprocess, sys, tempfile, time
prop, sd, sid = sys.argv[1], sys.argv[2], sys.argv[3]
VERIF = "/verif"
TGT = os.environ.get("INGEST_TARGET", "/scratch/ingest-target")
d = tempfile.mkdtemp(prefix="ingest.", dir="/scratch")
env = dict(os.environ, CARGO_TARGET_DIR=TGT, CARGO_NET_OFFLINE="true")
def sh(cmd, cwd=d, **kw):
    return subprocess.run(cmd, cwd=cwd, env=env, stdout=subprocess.PIPE, stderr=subprocess.STDOUT, text=True, **kw)
def suite(cwd):
    r = sh(["cargo", "test", "--offline", "--no-fail-fast"], cwd)
    oks = re.findall(r"test result: (\w+)\. (\d+) passed; (\d+) failed", r.stdout)
    return r.returncode, oks, r.stdout
try:
    for item in ("src", "Cargo.toml", "Cargo.lock", "benches", "examples", "tests"):
        s = os.path.join("/repo", item)
        (shutil.copytree if os.path.isdir(s) else shutil.copy)(s, os.path.join(d, item))
    def touch_all():
        now = time.time()
        for root, _, files in os.walk(d):
            for f in files:
                os.utime(os.path.join(root, f), (now, now))
    touch_all()
    meta = {"id": sid, "property": prop, "source": "independent sub-agent given only the property text and a scratch worktree", "ran": []}
    # demo on the clean tree
    shutil.copy(os.path.join(sd, "demo.rs"), os.path.join(d, "tests", "seed_demo.rs"))
    r = sh(["cargo", "test", "--offline", "--test", "seed_demo"])
    clean_ok = r.returncode == 0
    meta["ran"].append("clean tree: cargo test --test seed_demo -> %s" % ("pass" if clean_ok else "FAIL"))
    os.remove(os.path.join(d, "tests", "seed_demo.rs"))
    r = sh(["git", "apply", "--check", os.path.join(sd, "patch.diff")]) if False else sh(["patch", "-p1", "-s", "-i", os.path.join(sd, "patch.diff")])
    if r.returncode != 0:
        print("PATCH DOES NOT APPLY", r.stdout); sys.exit(3)
    time.sleep(1.1)
    touch_all()
    code, oks, out = suite(d)
    passed = sum(int(o[1]) for o in oks); failed = sum(int(o[2]) for o in oks)
    meta["ran"].append("patched tree: cargo test --offline -> %d passed, %d failed (exit %d)" % (passed, failed, code))
    suite_ok = code == 0 and failed == 0 and passed >= 172
    shutil.copy(os.path.join(sd, "demo.rs"), os.path.join(d, "tests", "seed_demo.rs"))
    r = sh(["cargo", "test", "--offline", "--test", "seed_demo"])
    demo_fails = r.returncode != 0
    meta["ran"].append("patched tree: cargo test --test seed_demo -> %s" % ("fails as required" if demo_fails else "PASSES (change not demonstrated)"))
    os.remove(os.path.join(d, "tests", "seed_demo.rs"))
    confirmed = clean_ok and suite_ok and demo_fails
    meta["confirmed"] = confirmed
    # run all claimed checks against the patched tree
    sys.path.insert(0, os.path.join(VERIF, "rules"))
    import props
    verdict = {}
    envc = dict(os.environ, FRX_REPO=d)
    for p in sorted(props.PROPS):
        rr = subprocess.run([os.path.join(VERIF, "check"), p], env=envc, stdout=subprocess.PIPE, stderr=subprocess.STDOUT, text=True)
        lines = [l for l in rr.stdout.split("\n") if l.startswith("RULE") and "VIOLATION" in l]
        verdict[p] = {"exit": rr.returncode, "violations": [l[:240] for l in lines[:4]]}
    caught = [p for p, v in verdict.items() if v["exit"] == 1]
    meta["checks_reporting_a_violation"] = caught
    meta["caught_by_own_property_check"] = prop in caught
    meta["verdicts"] = {p: v for p, v in verdict.items() if v["exit"] != 0}
    notes = open(os.path.join(sd, "notes.md")).read() if os.path.exists(os.path.join(sd, "notes.md")) else ""
    meta["needs_to_manifest"] = notes[:1500]
    out_dir = os.path.join(VERIF, "seeded", sid)
    os.makedirs(out_dir, exist_ok=True)
    shutil.copy(os.path.join(sd, "patch.diff"), os.path.join(out_dir, "patch.diff"))
    shutil.copy(os.path.join(sd, "demo.rs"), os.path.join(out_dir, "demo.rs"))
    if notes:
        shutil.copy(os.path.join(sd, "notes.md"), os.path.join(out_dir, "notes.md"))
    json.dump(meta, open(os.path.join(out_dir, "meta.json"), "w"), indent=1)
    print("%s confirmed=%s caught_by=%s own=%s" % (sid, confirmed, caught, prop in caught))
    for p in caught[:3]:
        print("   ", p, verdict[p]["violations"][:1])
finally:
    shutil.rmtree(d, ignore_errors=True)
