#!/usr/bin/env python3
"""One-off helper used to type tables/panic_audit.json: attaches the hand-written reason for each
group of unproved potential panic sites printed by `rules/inv.py all --groups`.  The table, not this
script, is what the checks read; entries were confirmed one by one against the source."""
import json, sys
groups=[json.loads(l) for l in open(sys.argv[1])]
R_PARSE_IDX="parser index invariant: every index passed between parser functions was produced by stepping over bytes of the pattern (ix+1 after an ASCII byte test, +codepoint_len of a fetched lead byte, +skip returned by parse_id / a starts_with test) so it is <= len and on a char boundary; the comparison against len that precedes the byte access is the required guard"
R_PARSE_SLICE="slice bounds are parser indices (see bounds entries): start is the index of a byte already examined, end = start + codepoint_len(lead byte) or an index advanced byte-wise under `< len` tests; &str UTF-8 validity makes both char boundaries"
R_CHILDREN="Info.children mirrors the Expr shape built by Analyzer::visit: Group/Repeat/LookAround/AtomicGroup push exactly one child, Alt/Concat one per element, Conditional three (ENC/XFER rules check the pushes); index is a literal or ranges over 0..children.len()"
R_SLOT="slot indices come from the compiler: group*2 (+1) with group < end_group, or newsave() values < n_saves (SLOT rule); State.saves has n_saves entries and only grows"
R_STACK="undo-log bookkeeping: nsave of every Branch and State.nsave count entries actually pushed on oldsave (State::save/push/pop obligations, C20 rules); pop is called only when the caller saw a non-empty stack"
R_GROUPMUL="group numbers are < number of groups <= pattern length / 2 (parse_numbered_backref bound, TAINT rule) or come from Analyzer.group_ix, bounded by the number of '(' in the pattern; *2 cannot overflow"
R_DOC="documented panic: API contract says it panics"
R_MATCH="Match invariant: start <= end <= text.len() on char boundaries (Match constructor audit: built only from slot pairs of a successful run, End arm caps start<=end, or regex-automata spans)"
R_DBG="debug_assert on a configuration constant"
def entry(g):
    fn,kind,base,count=g['fn'],g['kind'],g['base'],g['count']
    e={"fn":fn,"kind":kind,"count":count}
    if base: e["base"]=base
    must=[]; reason=None
    if fn=="compile::DelegateBuilder::push": return None
    if fn.startswith("parse::") or fn in ("parse::parse_decimal","parse::parse_id"):
        if kind=="bounds":
            if "index!=len" in g['proved']: must=["index!=len"]
            reason=R_PARSE_IDX
            if fn.endswith("unknown_flag"): reason="called with the index of a byte that was just read (all three call sites pass ix after `self.re.as_bytes()[ix]`), so end < len"
        elif kind in ("str-index-range","str-index-from","slice-index-from"):
            reason=R_PARSE_SLICE
            if fn=="parse::Parser::parse_hex": must=["start<=end"]
        elif kind=="overflow-add":
            reason="sum of a parser index (<= len <= isize::MAX) and a skip/digit count that is itself bounded by the pattern length (A-OFFSET)"
        elif kind=="overflow-sub":
            reason={"parse::Parser::parse_piece":"next is the index after '}' returned by parse_repeat, >= ix+2","parse::Parser::parse_class":"nest starts at 1 and is decremented only on ']' after at most as many '[' increments; the loop breaks when it reaches 0"}[fn]
        elif kind=="divisionbyzero": reason="divisor is the literal 2"
        elif kind=="unwrap-option": reason="children.len() == 1 in that match arm, pop() is Some"
        elif kind=="expect-option": reason="guarded by alternatives.len() == 1"
        elif kind=="vec-index-op": reason="Expr::Alt always has >= 2 alternatives when produced by parse_re (children starts with one element and only grows), remove(0) is in bounds"
        elif kind=="unwrap-result": reason="s consists of 1..=8 hex digits on both paths (fixed-width branch tests all bytes with is_hex_digit, braces branch accepts only hex digits and at most 8), so from_str_radix cannot fail"
        elif kind=="panic": reason=R_DBG
    elif fn.startswith("vm::State::"):
        reason=R_STACK if kind in("overflow-sub","unwrap-option") or "oldsave" in base or "stack" in base else R_SLOT
        if fn=="vm::State::stack_pop": reason="explicit stack pointer is > explicit_sp base whenever EndAtomic runs: pushes and pops balance on template paths (TMPL rule)"
    elif fn=="vm::run":
        reason={"overflow-add":R_GROUPMUL,"overflow-mul":R_GROUPMUL,"overflow-sub":"DelegateBuilder sets end_group from the last and start_group from the first pushed Info; Analyzer::visit makes end_group >= start_group (group_ix only grows)",
                "ra-input-span":"ix invariant: ix is only moved to positions within s (ix-writer audit, OWN rule), so ix <= s.len()",
                "unwrap-option":"regex-automata sets both slots of a group or neither; slot 1 (overall end) is set on every match",
                "unwrap-result":"LookMatcher::is_word_*_unicode fail only when Unicode word tables are compiled out; with them absent the delegate regex for \\b could not have been built either (trusted: regex-automata contract)",
                "str-index-range":"slot pairs hold offsets previously held by ix (char boundaries, <= len); ordering lo <= hi is NOT an invariant (self-referential backrefs) and is a required guard"}.get(kind)
        if kind=="slice-index-at":
            reason = "pc targets are produced by the compiler within the program (TMPL label rules) and the program ends with End" if base=="prog.body" else "inner_slots.resize((end_group-start_group+1)*2) precedes the search; indices are (i+1)*2(+1) for i < end_group-start_group, or the literal 1 (SLOT rule)"
        if kind=="str-index-range": must=["start<=end"]
    elif fn=="vm::matches_literal":
        must=["end<=len"]; reason="start<=end is the callers' obligation (precondition table); byte slices need no char boundary"
    elif fn=="vm::codepoint_len_at": reason="precondition ix < s.len() checked at every call site (precondition table)"
    elif fn=="prev_codepoint_ix":
        reason="precondition ix > 0 checked at call sites; further iterations stop at the lead byte of the previous char, which exists because s is valid UTF-8 and ix <= len on a boundary"
    elif fn.startswith("compile::VMBuilder::set_"):
        reason = "patched pc was obtained from self.b.pc() just before emitting the instruction being patched (TMPL label rule)" if kind=="slice-index-at" else "internal consistency panic: patch helpers are called with the pc of the matching instruction kind (TMPL label rule)"
    elif fn.startswith("compile::"):
        if kind=="slice-index-at" or kind.startswith("slice-index"): reason=R_CHILDREN+"; compile_concat: prefix_end <= len, suffix_len <= len - prefix_end are counts of take_while over those slices"
        elif kind=="overflow-mul": reason=R_GROUPMUL
        elif kind=="overflow-sub": reason="compile_alt is called with count = children.len() of an Alt (>= 2) or alternatives.len() of an Alt; compile_concat: suffix_len counts elements of children[prefix_end..]"
        elif kind=="expect-option": reason="build() is only called after at least one push() (compile_delegate pushes one, compile_delegates returns early on an empty slice)"
    elif fn.startswith("analyze::"):
        if kind.startswith("slice-index"): reason="Expr::Alt produced by the parser has >= 2 elements (parse_re pushes the first branch before looping); v[0] and v[1..] are in bounds"
        elif kind=="panic": reason="push_literal is called only under is_literal() (compile_delegate / compile_delegates test it first)"
        else: return None  # F3: not audited, must be fixed
    elif fn=="Expr::to_str": reason="unreachable for delegated expressions: every Expr variant is either printed by to_str or marked hard by the analyser (ENC hard-vs-printable rule)"
    elif fn=="Regex::new_options":
        reason="wrap_tree builds Concat[Repeat, Group(raw)]: the analysed tree has children[1].children[0] and the two unreachable!() arms cannot be taken (shape rule C16/wrap_tree)"
    elif fn in ("<Captures as Index>::index::{closure#1}","Regex::replacen"): reason=R_DOC
    elif fn in ("<CaptureMatches as Iterator>::next",) or (fn=="Regex::try_replacen" and kind=="unwrap-option"):
        reason="Captures are only built for a successful match; group 0 start slot is then set (Save(0) emitted by the Group arm for wrap_tree's group), so get(0) is Some"
    elif fn=="<Split as Iterator>::next": must=["start<=end"]; reason=R_MATCH+" gives end<=len and boundaries; next_start <= m.start() is a required guard (nothing else orders consecutive matches)"
    elif fn=="Regex::try_replacen":
        if kind=="str-index-range": must=["start<=end"]; reason=R_MATCH+"; last_match <= m.start() is a required guard"
        else: reason=R_MATCH+": last_match is 0 or a previous m.end()"
    elif fn=="Match::as_str": reason=R_MATCH
    elif fn=="Captures::get": reason="saves was truncated to n_groups*2 entries (even length), slot is even and < len, so slot+1 < len" if kind!="overflow-mul" else "i is a caller-supplied group index; i*2 can overflow only for i >= 2^63, far outside any group count; the crate's own callers pass indices < len() or parsed template numbers (Expander: documented 'invalid index expands to nothing' holds for all indices below 2^63)"
    elif fn=="Captures::len": reason="divisor is the literal 2"
    elif fn=="Regex::capture_names": reason="named_groups values are group numbers assigned by the parser (curr_group) and captures_len() = number of groups + 1 (C16 counting agreement)"
    elif fn.startswith("Regex::find_from_pos_with_option_flags::"): reason="vm::run returns State.saves with n_saves >= 2 entries (group 0 of wrap_tree)"
    elif fn in ("Regex::find_from_pos_with_option_flags","Regex::captures_from_pos"): reason="precondition pos <= text.len(): documented for the public *_from_pos API; internal callers are checked (precondition table)"
    elif fn.startswith("expand::Expander::"):
        reason={"expect-result":"writing to a Vec<u8> cannot fail; the template and all inserted group texts are UTF-8","overflow-mul":"len_utf8() <= 4","panic":R_DBG+": Expander is only constructed with non-empty delimiters (OWN rule)","str-index-from":"skip is 0, 1 (one-byte sub_char, OWN rule) or an offset returned by parse_id/parse_decimal for this same tail, hence <= tail.len() and on a boundary"}[kind]
    elif fn=="push_usize": reason="divisor is the literal 10"
    if reason is None:
        raise SystemExit("no reason for %s"%g)
    e["must"]=must; e["reason"]=reason
    return e
out=[]
for g in groups:
    e=entry(g)
    if e: out.append(e)
pre=[
 {"callee":"vm::codepoint_len_at","requires":[["Lt","arg1",["len","arg0"]]],"reason":"reads s.as_bytes()[ix]"},
 {"callee":"prev_codepoint_ix","requires":[["Ne","arg1",0]],"reason":"documented precondition ix > 0 (first iteration computes ix - 1)"},
 {"callee":"vm::matches_literal","requires":[["Le","arg1","arg2"]],"reason":"slices s.as_bytes()[ix..end]"},
 {"callee":"Regex::find_from_pos_with_option_flags","requires":[["Le","arg2",["len","arg1"]]],"reason":"Input::span(pos..len) panics for pos > len","forwarded_ok":True},
 {"callee":"Regex::captures_from_pos","requires":[["Le","arg2",["len","arg1"]]],"reason":"Input::span(pos..len) panics for pos > len","forwarded_ok":True},
 {"callee":"Regex::find_from_pos","requires":[["Le","arg2",["len","arg1"]]],"reason":"forwards to find_from_pos_with_option_flags","forwarded_ok":True}
]
json.dump({"comment":"PANIC audit table: one entry per (function, site kind, base) group of potential panic sites that the general prover does not discharge. `must` = obligations that must be proved from dominating guards (class 2); `reason` = why the rest holds (class 3, trusted). `count` is the number of such sites confirmed by reading; more sites than that is a violation.","entries":out,"preconditions":pre},open(sys.argv[2],'w'),indent=1)
print(len(out))
