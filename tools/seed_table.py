#!/usr/bin/env python3
"""Print the markdown table 'which checks catch which seeded change' from seeded/*/meta.json."""
import json, os, re
ROOT = "/verif/seeded"
rows = []
for sid in sorted(os.listdir(ROOT)):
    mp = os.path.join(ROOT, sid, "meta.json")
    if not os.path.exists(mp):
        continue
    m = json.load(open(mp))
    notes = m.get("needs_to_manifest", "")
    diff = open(os.path.join(ROOT, sid, "patch.diff")).read()
    files = sorted(set(re.findall(r"^\+\+\+ b/(\S+)", diff, re.M)))
    fns = sorted(set(re.findall(r"^@@.*@@.*?fn (\w+)", diff, re.M)))
    first = ""
    for line in notes.split("\n"):
        line = line.strip(" #*-")
        if len(line) > 25 and not line.lower().startswith(("seed", "change", "notes", "property")):
            first = line
            break
    first = re.sub(r"\s+", " ", first)[:150].replace("|", "\\|")
    rules = set()
    for p, v in m.get("verdicts", {}).items():
        for l in v.get("violations", []):
            mm = re.match(r"RULE (\S+)", l)
            if mm:
                rules.add(mm.group(1))
    caught = ", ".join(m.get("checks_reporting_a_violation") or []) or ("superseded" if m.get("superseded") else "-")
    rows.append("| %s | %s | %s | %s | %s | %s |" % (sid, m["property"], ", ".join(f.replace("src/", "") for f in files) + (" (" + ", ".join(fns[:2]) + ")" if fns else ""), first, caught, ", ".join(sorted(rules))[:120]))
print("| seed | written for | touches | what breaks (from the author's notes) | checks that report it | rules |")
print("|---|---|---|---|---|---|")
print("\n".join(rows))
