#!/usr/bin/env python3
"""Apply a small edit to a scratch copy of /repo and run checks against it.
usage: mutate.py C08,C09 file 'old' 'new' [file old new ...]   (old must occur exactly once unless prefixed with N@ occurrence index)
       mutate.py C08 --patch path.diff
"""
import os, shutil, subprocess, sys, tempfile
props = sys.argv[1].split(",")
args = sys.argv[2:]
d = tempfile.mkdtemp(prefix="mut.", dir="/scratch")
try:
    for item in ("src", "Cargo.toml", "Cargo.lock", "benches", "examples", "tests"):
        s = os.path.join("/repo", item)
        if os.path.isdir(s):
            shutil.copytree(s, os.path.join(d, item))
        elif os.path.exists(s):
            shutil.copy(s, os.path.join(d, item))
    if args and args[0] == "--patch":
        r = subprocess.run(["patch", "-p1", "-d", d, "-i", os.path.abspath(args[1])], stdout=subprocess.PIPE, stderr=subprocess.STDOUT, text=True)
        if r.returncode != 0:
            print("PATCH FAILED", r.stdout); sys.exit(3)
    else:
        for i in range(0, len(args), 3):
            f, old, new = args[i], args[i+1], args[i+2]
            p = os.path.join(d, f)
            s = open(p).read()
            occ = None
            if "@" in old[:3] and old.split("@")[0].isdigit():
                occ = int(old.split("@")[0]); old = old.split("@", 1)[1]
            n = s.count(old)
            if occ is None:
                if n != 1:
                    print("EDIT: %r occurs %d times in %s" % (old, n, f)); sys.exit(3)
                s = s.replace(old, new)
            else:
                parts = s.split(old)
                if occ >= n:
                    print("EDIT: occurrence %d of %r not found (%d)" % (occ, old, n)); sys.exit(3)
                s = old.join(parts[:occ+1]) + new + old.join(parts[occ+1:])
            open(p, "w").write(s)
    env = dict(os.environ, FRX_REPO=d)
    for pr in props:
        r = subprocess.run(["/verif/check", pr], env=env, stdout=subprocess.PIPE, stderr=subprocess.STDOUT, text=True)
        lines = [l for l in r.stdout.split("\n") if "VIOLATION" in l or "ANALYSIS-ERROR" in l or "KNOWN-FINDING" in l or "error" in l.lower()[:20]]
        print("== %s exit=%d" % (pr, r.returncode))
        for l in lines[:12]:
            print("   ", l[:230])
finally:
    shutil.rmtree(d, ignore_errors=True)
