#!/usr/bin/env python3
"""Regenerate MANIFEST.json from rules/props.py (claimed properties) + the not-applicable list."""
import json, os, sys
HERE = os.path.dirname(os.path.dirname(os.path.abspath(__file__)))
sys.path.insert(0, os.path.join(HERE, "rules"))
import props

ALL = ["C%02d" % i for i in range(1, 21)]
checks = []
for pid in ALL:
    if pid not in props.PROPS:
        continue
    sp = props.PROPS[pid]
    checks.append({
        "property_id": pid,
        "quick_cmd": "./check %s" % pid,
        "thorough_cmd": "./check %s --tier thorough" % pid,
        "evidence_file": "evidence/%s.json" % pid,
        "replay_cmd_template": "./check %s --replay {path}" % pid,
        "engine": "frx-rules",
        "level_claimed": {"category": sp["level"], "text": sp["claim"], "design_ref": sp.get("design_ref", "DESIGN.md section 4, " + pid)},
        "level_note": sp["note"],
        "technique": sp["technique"],
    })
na = [{"property_id": p, "reason": r} for p, r in props.NOT_APPLICABLE.items() if p not in props.PROPS]
for pid in ALL:
    if pid not in props.PROPS and pid not in props.NOT_APPLICABLE:
        na.append({"property_id": pid, "reason": "static rules for this property are not yet armed in this commit (see DESIGN.md section 4 for the plan); nothing is claimed"})
m = {
    "version": 1,
    "setup_cmd": "cd frx-facts && CARGO_NET_OFFLINE=true cargo +nightly build --release --offline && cd .. && python3 -m compileall -q rules",
    "hooks": {
        "guard": "fancy_regex_verif",
        "enable": "none needed: the checks read /repo's source through a rustc driver (cargo +nightly check with RUSTC_WORKSPACE_WRAPPER=frx-facts); no code in /repo is guarded by the flag",
        "baseline_off_cmd": "cd /repo && cargo test --workspace --no-fail-fast --offline",
        "source_commits": [],
        "add_only": True,
    },
    "engines": [
        {"name": "frx-facts", "path": "frx-facts", "serves_properties": [c["property_id"] for c in checks],
         "kind_free_text": "rustc_private driver (nightly) dumping MIR with resolved callees, HIR with type-check resolution, ADTs, impls, statics and unsafe items of /repo's current working tree as JSON"},
        {"name": "frx-rules", "path": "rules", "serves_properties": [c["property_id"] for c in checks],
         "kind_free_text": "Python 3 (stdlib only) static rule engine over the dumped facts: dominators, edge facts, difference-constraint prover, call graph, structured path enumeration, hand-confirmed tables in tables/"},
    ],
    "checks": checks,
    "not_applicable": na,
    "notes": "Technique family: static analysis only. No check executes fancy-regex. Known genuine defects are listed in known_findings.json; repairs are the 'fix:' commits in /repo.",
}
json.dump(m, open(os.path.join(HERE, "MANIFEST.json"), "w"), indent=1)
print("claimed:", [c["property_id"] for c in checks], "n/a:", [x["property_id"] for x in na])
