#!/usr/bin/env python3
"""Run every selftest variant against the properties it names; report rules that did not fire / false alarms."""
import json, os, sys
sys.path.insert(0, "/verif/rules")
import selftest
from concurrent.futures import ThreadPoolExecutor
vs = selftest._load()
only = sys.argv[1:] 
if only:
    vs = [v for v in vs if v["id"] in only or any(p in only for p in v.get("must_fire", []) + v.get("must_stay_silent", []))]
def one(v):
    props = v.get("must_fire", []) + v.get("must_stay_silent", [])
    return v, selftest.run_variant(v, props)
bad = 0
with ThreadPoolExecutor(max_workers=12) as ex:
    for v, out in ex.map(one, vs):
        if out is None:
            print("SKIP   %-28s (edit does not apply)" % v["id"]); bad += 1; continue
        for pr, (code, lines, tail) in out.items():
            if code == 2:
                print("ERROR  %-28s %s %s" % (v["id"], pr, tail[-300:].replace("\n", " | "))); bad += 1
            elif pr in v.get("must_fire", []):
                hit = [l for l in lines if v.get("expect", "") in l]
                if code != 1 or not hit:
                    print("MISS   %-28s %s (exit %d) %s" % (v["id"], pr, code, [l[:120] for l in lines[:2]])); bad += 1
            else:
                if code != 0:
                    print("ALARM  %-28s %s %s" % (v["id"], pr, [l[:200] for l in lines[:2]])); bad += 1
print("variants", len(vs), "problems", bad)
