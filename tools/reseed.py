#!/usr/bin/env python3
"""Re-run every claimed check against every kept seeded change and refresh the verdicts in meta.json."""
import json, os, shutil, subprocess, sys, tempfile
from concurrent.futures import ThreadPoolExecutor
sys.path.insert(0, "/verif/rules")
import props
ROOT = "/verif/seeded"
ids = sorted(os.listdir(ROOT)) if len(sys.argv) < 2 else sys.argv[1:]
def one(sid):
    sd = os.path.join(ROOT, sid)
    meta = json.load(open(os.path.join(sd, "meta.json")))
    d = tempfile.mkdtemp(prefix="reseed.", dir="/scratch")
    try:
        for item in ("src", "Cargo.toml", "Cargo.lock", "benches", "examples", "tests"):
            s = os.path.join("/repo", item)
            (shutil.copytree if os.path.isdir(s) else shutil.copy)(s, os.path.join(d, item))
        r = subprocess.run(["patch", "-p1", "-s", "-d", d, "-i", os.path.join(sd, "patch.diff")], stdout=subprocess.PIPE, stderr=subprocess.STDOUT, text=True)
        if r.returncode != 0:
            return sid, None, "patch no longer applies"
        verdict = {}
        env = dict(os.environ, FRX_REPO=d)
        for p in sorted(props.PROPS):
            rr = subprocess.run(["/verif/check", p], env=env, stdout=subprocess.PIPE, stderr=subprocess.STDOUT, text=True)
            lines = [l for l in rr.stdout.split("\n") if l.startswith("RULE") and "VIOLATION" in l]
            verdict[p] = {"exit": rr.returncode, "violations": [l[:240] for l in lines[:4]]}
        caught = [p for p, v in verdict.items() if v["exit"] == 1]
        meta["checks_reporting_a_violation"] = caught
        meta["caught_by_own_property_check"] = meta["property"] in caught
        meta["verdicts"] = {p: v for p, v in verdict.items() if v["exit"] != 0}
        json.dump(meta, open(os.path.join(sd, "meta.json"), "w"), indent=1)
        return sid, caught, meta["property"] in caught
    finally:
        shutil.rmtree(d, ignore_errors=True)
with ThreadPoolExecutor(max_workers=14) as ex:
    res = list(ex.map(one, ids))
own = sum(1 for r in res if r[2] is True)
anyc = sum(1 for r in res if r[1])
for sid, caught, o in res:
    print("%-8s own=%-5s caught_by=%s" % (sid, o, caught))
print("seeds %d; caught by own property's check %d; caught by some check %d" % (len(res), own, anyc))
